"""CSTRIP - strip_ignored_characters part of C09: implementation vs the Coq model Lang/Strip.v.

Theorems: coq/theories/Properties/C09strip.v (token preservation, idempotence, rejects stay rejected,
output is tight; proofs in Lang/StripProps.v over Lang/Lexer.v + Lang/BlockString.v).
Correspondence: extracted model `strip` vs utilities.strip_ignored_characters on the same sources:
exact output text, or the position of the syntax error.
Stand-alone: ./check CSTRIP; as part of C09: cstrip.core(ck, tier, model_ok)."""
from __future__ import annotations

import json
import re
import subprocess
import time

from . import common, gen_doc, lexcorr
from .common import Check, Model, cps, from_cps

PID = "CSTRIP"
THMS = "Properties/C09strip.v"
MODEL = "strip"

BLOCK_ALPHA = ["a", " ", "\n", "\t", '"', "\\", "\r"]
# a block string in different neighbourhoods: alone, between names, inside braces, before a quoted
# string, before a spread, after a number, before another block string
BLOCK_CTX = ['%s', 'a%sb', '{%s}', '%s"s"', '%s...', '1%s', '%s"""x"""']

ASSUMPTIONS = [
    "CSTRIP model: Lang/Strip.v written from utilities/strip_ignored_characters.py (token walk with Lexer.advance, "
    "separator rule, print_block_string(value, minimize=True) for block strings, source slice otherwise) on top of "
    "the lexer model Lang/Lexer.v and the block-string model Lang/BlockString.v; a lexical error is the outcome "
    "SyntaxErr with the position in the original source (messages are not modelled)",
    "the strip theorems hold for every list of code points (no hypothesis on the source): block-string values with "
    "surrogate pairs are covered by Lang/StripBlock.v, which re-proves the C08 block round trip for values whose "
    "surrogates occur as lead-trail pairs (what the lexer accepts)",
]


def impl_strip(body):
    """Encode the implementation's result like RunStrip.enc_text."""
    from graphql.error import GraphQLSyntaxError
    from graphql.utilities import strip_ignored_characters
    try:
        return [0] + cps(strip_ignored_characters(body))
    except GraphQLSyntaxError as e:
        return [1, e.positions[0] if e.positions else -1]
    except Exception as e:  # noqa: BLE001
        return [2, type(e).__name__]


def describe(enc):
    if enc and enc[0] == 0:
        return {"stripped": from_cps(enc[1:])}
    if enc and enc[0] == 1:
        return {"syntax_error_at": enc[1]}
    if enc and enc[0] == 2:
        return {"raised": enc[1]}
    return {"other": enc}


def is_punct_kind(k):
    return 2 <= k <= 16


def tight_violation(out):
    """Direct predicate (C09_strip_tight) on a stripped text, using the implementation's lexer: no comment, no
    ignored character before the first / after the last token, between two tokens exactly one space when the
    rule asks for one and nothing otherwise.  Returns a description of the defect or None."""
    enc = lexcorr.impl_lex(out)
    if enc[0] != 0:
        return f"stripped text does not lex: {lexcorr.describe(enc)}"
    pos, last_np = 0, False
    for (k, s, e, _ln, _c, _v) in lexcorr.decode_tokens(enc):
        if k == 22:
            return f"comment token at {s}"
        if k == 1:
            return None if s == pos else f"ignored characters {out[pos:s]!r} at the end"
        np_ = not is_punct_kind(k)
        want = " " if last_np and (np_ or k == 8) else ""
        if out[pos:s] != want:
            return f"gap {out[pos:s]!r} before the token at {s}, the rule asks for {want!r}"
        pos, last_np = e, np_
    return "no EOF token"


# --------------------------------------------------------------------------- proofs accounting


def proofs(ck, br):
    """Check.proofs for a theorem file that is not named after the check id."""
    ck.checker_cmd = ("cd /verif/coq && coq_makefile -f _CoqProject <all theories/*.v> -o Makefile && make "
                      f"theories/{THMS}o && coqc -Q theories GV theories/{THMS}")
    deps = common.dep_closure([THMS])
    bad = common.scan_forbidden(deps)
    ck.extra["coq_files"] = deps
    if bad:
        ck.proof_breaks.append("forbidden construct: " + "; ".join(bad[:5]))
    f = common.COQ / "theories" / THMS
    names = re.findall(r"^\s*(?:Theorem|Lemma|Corollary)\s+(\w+)", f.read_text(), re.M) if f.exists() else []
    ck.theorems = names
    ck.obligations = len(names)
    ck.partial = [n for n in names if n.endswith("_partial")]
    if not br.ok:
        ck.discharged = 0
        ck.proof_breaks.append(f"build failed at {br.failed_file}: " + br.log[-800:])
        return False
    lock = common._lock()
    try:
        p = subprocess.run(["timeout", "900", "coqc", "-Q", "theories", "GV", "-w",
                            "-notation-overridden,-deprecated-hint-without-locality", f"theories/{THMS}"],
                           cwd=common.COQ, capture_output=True, text=True)
    finally:
        lock.close()
    out = p.stdout + p.stderr
    assumptions = []
    for b in re.split(r"(?=Closed under the global context|Axioms:)", out):
        if b.startswith("Closed under"):
            assumptions.append("Closed under the global context")
        elif b.startswith("Axioms:"):
            assumptions.append(" ".join(b.split())[:600])
    ck.print_assumptions = assumptions
    if p.returncode == 0 and len(assumptions) == len(names) and all(a.startswith("Closed") for a in assumptions):
        ck.discharged = len(names)
        return True
    ck.discharged = 0
    if p.returncode != 0:
        ck.proof_breaks.append(f"coqc {THMS} failed: " + out[-800:])
    else:
        ck.proof_breaks.append(f"{THMS}: {len(names)} theorems but Print Assumptions gave {assumptions}")
    return False


# --------------------------------------------------------------------------- the check


def run(tier):
    ck = Check(PID, tier)
    ck.assumptions += ASSUMPTIONS
    br = common.build(PID, models=(MODEL,), extra_targets=(f"theories/{THMS}o",))
    proofs(ck, br)
    core(ck, tier, br.ok)
    return ck.finish()


def families(tier, rng):
    """(family name, iterable of sources)."""
    quick = tier == "quick"
    n = 4 if quick else 5
    yield "exh", ("".join(s) for s in common.strings_upto(lexcorr.LEX_ALPHA16, n))

    def docs():
        for c in common.load_corpus(PID):
            yield from_cps(c["body"])
        extra_ign = gen_doc.IGNORED_SEQS + ["\ufeff", "\r", ",\r\n,", "#\ud800\n", "# \U0001F600\r"]
        for i in range(400 if quick else 6000):
            g = gen_doc.Gen(rng, depth=2, experimental=(i % 3 == 0))
            lx = g.document()
            yield gen_doc.join_min(lx)
            for p in (0.3, 0.9):
                t = gen_doc.join_random(lx, rng, p)
                yield t
                # random insertion of ignored sequences at arbitrary offsets (inside lexemes too: may change
                # or break tokens - the model must follow) and random truncation
                k = rng.randint(1, 3)
                for _ in range(k):
                    j = rng.randrange(len(t) + 1)
                    t = t[:j] + rng.choice(extra_ign) + t[j:]
                yield t
                if rng.random() < 0.3:
                    yield t[:rng.randrange(len(t) + 1)]
    yield "doc", docs()

    def blocks():
        nb = 4 if quick else 6
        for raw in common.strings_upto(BLOCK_ALPHA, nb):
            r = "".join(raw)
            yield '"""' + r + '"""'
            if len(raw) <= nb - 1:
                for ctx in BLOCK_CTX[1:]:
                    yield ctx % ('"""' + r + '"""')
        # longer raw contents over the sub-alphabet without CR / tab
        sub = ["a", " ", "\n", '"', "\\"]
        for raw in common.strings_upto(sub, 6 if quick else 8):
            if len(raw) > nb:
                yield '"""' + "".join(raw) + '""" a'
        for _ in range(2000 if quick else 40000):
            k = rng.randint(3, 14)
            raw = "".join(rng.choice(BLOCK_ALPHA + ["  ", "\n ", '"""', '\\"""', "\U0001F600", "\x0b", "\u2028", "\ud83d\ude00", "\ud83d", "\ude00"])
                          for _ in range(k))
            yield rng.choice(BLOCK_CTX) % ('"""' + raw + '"""')
    yield "block", blocks()


def core(ck, tier, model_ok):
    """The strip correspondence and the tightness predicate, reporting into `ck`
    (used by `./check CSTRIP` and as the strip part of `./check C09`)."""
    m = Model(MODEL) if model_ok else None
    quick = tier == "quick"
    rng = ck.rng
    ck.rule = (
        f"strip_ignored_characters vs the extracted model Lang/Strip.v - exact stripped text, or the position of the "
        f"syntax error - on (exh) all strings of length <= {4 if quick else 5} over the 16-symbol lexical alphabet "
        f"{lexcorr.LEX_ALPHA16!r}; (doc) grammar-generated documents joined minimally, with random ignored sequences at "
        "the token boundaries, with ignored sequences inserted at random offsets (also inside lexemes) and random "
        f"truncations; (block) block strings \"\"\"raw\"\"\" for all raw contents of length <= {4 if quick else 6} over "
        f"{BLOCK_ALPHA!r} alone and in the neighbourhoods {BLOCK_CTX[1:]!r}, longer contents over a 5-symbol "
        "sub-alphabet and random long contents (incl. surrogate pairs and lone surrogates as separate code points). On every accepted output the tightness predicate (C09_strip_tight) "
        "is evaluated with the implementation's lexer. non-trivial = the output differs from the input, or a "
        "rejection at a position > 0")
    t0 = time.time()
    CH = 100000
    for fam, gen in families(tier, rng):
        seen = set()
        batch = []

        def flush():
            if not batch:
                return
            want = m.run_batch([[1] + cps(b) for b in batch]) if m is not None else [None] * len(batch)
            for b, w in zip(batch, want):
                got = impl_strip(b)
                nt = (got[0] == 0 and from_cps(got[1:]) != b) or (got[0] == 1 and got[1] > 0)
                ck.note_case((fam, b), nontrivial=nt)
                ck.count(f"strip_{fam}_" + ("ok" if got[0] == 0 else "reject" if got[0] == 1 else "raised"))
                if got[0] == 2:
                    ck.violation(f"strip-raises:{b!r}",
                                 f"strip_ignored_characters({b!r}) raised {got[1]} (neither a text nor a syntax error)",
                                 {"kind": "strip", "relation": "strip total", "body": cps(b), "impl": describe(got)})
                    continue
                if w is not None and got != w:
                    ck.violation(f"strip:{b!r}",
                                 f"strip_ignored_characters({b!r}): implementation {describe(got)} but the model gives "
                                 f"{describe(w)}",
                                 {"kind": "strip", "relation": "strip_ignored_characters = model Lang/Strip.v",
                                  "body": cps(b), "impl": describe(got), "model": describe(w)})
                if got[0] == 0:
                    d = tight_violation(from_cps(got[1:]))
                    if d is not None:
                        ck.violation(f"strip-tight:{b!r}",
                                     f"strip_ignored_characters({b!r}) = {from_cps(got[1:])!r} is not tight: {d}",
                                     {"kind": "tight", "relation": "stripped text has no ignored character outside "
                                      "lexemes except the separating spaces", "body": cps(b), "impl": describe(got)})
            batch.clear()

        for b in gen:
            if b in seen:
                continue
            seen.add(b)
            batch.append(b)
            if len(batch) >= CH:
                flush()
        flush()
        ck.extra[f"t_strip_{fam}_s"] = round(time.time() - t0, 1)
    if m is not None:
        ck.exhaustive = True
    ck.samples.append({"source": 'a ...b # c\n"""\n  x\n""" 1 ...', "stripped": describe(impl_strip('a ...b # c\n"""\n  x\n""" 1 ...'))})
    ck.extra["strip_rule"] = ck.rule


def replay(path):
    """Re-evaluate a recorded failing input on the current /repo and the current model."""
    d = json.loads(open(path).read())
    print(json.dumps(d, indent=1, default=repr)[:3000])
    if "body" not in d:
        return 0
    b = from_cps(d["body"])
    br = common.build(PID, models=(MODEL,), extra_targets=(f"theories/{THMS}o",))
    got = impl_strip(b)
    want = Model(MODEL).run_batch([[1] + cps(b)])[0] if br.ok else None
    print("impl now :", describe(got))
    print("model now:", describe(want) if want is not None else "(model not built)")
    fails = (want is not None and got != want) or got[0] == 2
    if got[0] == 0:
        t = tight_violation(from_cps(got[1:]))
        print("tight    :", t or "ok")
        fails |= t is not None
    print("FAILS" if fails else "passes")
    return 1 if fails else 0
