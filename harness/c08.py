"""C08 - printing a parsed document and parsing it again gives the same AST."""
from __future__ import annotations

import json

from . import common, gen_doc, lexcorr
from .astutil import norm, parse_opts
from .common import Check, Model, cps

ASSUMPTIONS = [
    "C08 proof covers the quoted string form only (Lang/PrintString.v + lexer model, escape table regenerated from the implementation); block strings and whole documents are decided by direct round-trip checks on the implementation (parser/printer not modelled)",
    "'any string values' for programmatic trees: quoted form for every string of Unicode scalar values; block form for values in the range of the lexer's block-string denotation (a value such as '\\n' or ' a\\n b' has no block-string representation at all)",
]

ALPHA14 = ["\n", "\r", "\x0b", "\x0c", "\x1c", "\x85", " ", '"', "\\", " ", "\t", "a", "｡", "\U0001F600"]


def lex_value(text):
    """value of the single string token of `text` or None."""
    enc = lexcorr.impl_lex(text)
    if enc[0] != 0:
        return None
    toks = lexcorr.decode_tokens(enc)
    if len(toks) != 2 or toks[0][0] not in (20, 21):
        return None
    return toks[0][5]


def run(tier):
    from graphql import parse, print_ast
    from graphql.language import (ArgumentNode, DocumentNode, FieldNode, NameNode, ObjectFieldNode,
                                  ObjectValueNode, OperationDefinitionNode, OperationType, SelectionSetNode,
                                  StringValueNode, ListValueNode)
    from graphql.language.print_string import print_string

    ck = Check("C08", tier)
    ck.assumptions += ASSUMPTIONS
    from . import cprinter
    ck.assumptions += cprinter.ASSUMPTIONS
    br = common.build("C08", models=("lang", "blockstring", "parser", "printer"),
                      extra_targets=("theories/Properties/C08printer.vo",))
    ck.proofs(br, extra_files=("C08printer",))
    m = Model() if br.ok else None
    quick = tier == "quick"
    rng = ck.rng
    n = 3 if quick else 4
    ck.rule = (f"(a) print_string vs model and re-lexed value on all strings <= {n} over the 14-symbol adversarial alphabet and "
               "random scalar strings; (b) both string forms placed in programmatic trees at nesting depths 0-3 (argument, list, "
               "object value) and re-parsed; block values = every value the lexer yields for raw contents over the alphabet; "
               "(c) generated documents over the full grammar incl. experimental syntaxes: parse(print(d)) == d (locations "
               "ignored) and print is a fixed point; (d) kitchen-sink fixtures. non-trivial = string with at least one "
               "character outside [a-z ] or a document with >= 3 definitions/selections")
    strs = ["".join(s) for s in common.strings_upto(ALPHA14, n)]
    for _ in range(300 if quick else 5000):
        k = rng.randint(1, 12)
        strs.append("".join(rng.choice(ALPHA14 + [chr(rng.choice([0, 1, 8, 31, 127, 128, 159, 160, 0x2029, 0xD7FF, 0xE000, 0xFEFF, 0xFFFF, 0x10FFFF]))]) for _ in range(k)))
    # (a) quoted form
    if m is not None:
        outs = m.run_batch([[12] + cps(s) for s in strs])
    else:
        outs = [None] * len(strs)
    for s, want in zip(strs, outs):
        ck.note_case(("q", s), nontrivial=any(c not in "a " for c in s))
        try:
            p = print_string(s)
        except Exception as e:  # noqa: BLE001
            ck.violation(f"print_string:{s!r}", f"print_string({s!r}) raised {type(e).__name__}", {"relation": "total", "value": cps(s)})
            continue
        if want is not None and cps(p) != want:
            ck.violation(f"print_string:{s!r}", f"print_string({s!r}) = {p!r}, model (per-character table) gives {common.from_cps(want)!r}",
                         {"relation": "print_string = per-character escape table", "value": cps(s), "impl": cps(p), "model": want})
        v = lex_value(p)
        if v != s:
            ck.violation(f"quoted-roundtrip:{s!r}", f"print_string({s!r}) = {p!r} lexes back to {v!r}",
                         {"relation": "lex(print_string s).value == s", "value": cps(s), "impl": None if v is None else cps(v)})
    ck.count("quoted_strings", len(strs))

    # (b) programmatic trees, both forms, nesting 0..3
    def name(x):
        return NameNode(value=x)

    def wrap(val, depth):
        for d in range(depth):
            val = (ObjectValueNode(fields=(ObjectFieldNode(name=name("k"), value=val),)) if d % 2 == 0
                   else ListValueNode(values=(val,)))
        return DocumentNode(definitions=(OperationDefinitionNode(
            operation=OperationType.QUERY, selection_set=SelectionSetNode(selections=(
                FieldNode(name=name("f"), arguments=(ArgumentNode(name=name("a"), value=val),)),))),))

    def first_string(node):
        v = node.definitions[0].selection_set.selections[0].arguments[0].value
        while not isinstance(v, StringValueNode):
            v = v.fields[0].value if isinstance(v, ObjectValueNode) else v.values[0]
        return v

    # block values: the range of the lexer's denotation over raw contents
    raws = ["".join(r) for r in common.strings_upto(ALPHA14, n)]
    block_values = set()
    for r in raws:
        if '"""' in r or r.endswith('"') or r.endswith("\\"):
            continue
        v = lex_value('"""' + r + '"""')
        if v is not None:
            block_values.add(v)
    block_values = sorted(block_values)
    if quick and len(block_values) > 3000:
        block_values = rng.sample(block_values, 3000)
    pool = [(s, False) for s in (strs if not quick else rng.sample(strs, min(len(strs), 2500)))
            if all(not (0xD800 <= ord(c) <= 0xDFFF) for c in s)]
    pool += [(v, True) for v in block_values]
    nprog = 0
    for s, block in pool:
        for depth in ((0, 2) if quick else (0, 1, 2, 3)):
            doc = wrap(StringValueNode(value=s, block=block), depth)
            key = f"tree:{s!r}:{block}:{depth}"
            nprog += 1
            ck.note_case(("tree", s, block, depth), nontrivial=any(c not in "a " for c in s))
            try:
                text = print_ast(doc)
                back = parse(text, no_location=True)
                got = first_string(back)
            except Exception as e:  # noqa: BLE001
                ck.violation(key, f"string value {s!r} (block={block}) at depth {depth}: print/parse raised {type(e).__name__}",
                             {"relation": "print then parse", "value": cps(s), "block": block, "depth": depth})
                continue
            if got.value != s:
                ck.violation(key, f"string value {s!r} (block={block}) at depth {depth} reparsed as {got.value!r}",
                             {"relation": "string value preserved character for character", "value": cps(s),
                              "block": block, "depth": depth, "impl": cps(got.value), "printed": text})
            elif print_ast(back) != text:
                ck.violation(key, f"printing is not a fixed point for string {s!r} (block={block}) at depth {depth}",
                             {"relation": "print(parse(print d)) == print d", "value": cps(s), "block": block})
    ck.count("programmatic_trees", nprog)

    # (c) generated documents, (d) fixtures
    texts = [(f, False) for f in gen_doc.fixtures()]
    for i in range(400 if quick else 6000):
        exp = i % 3 == 0
        g = gen_doc.Gen(rng, depth=3, experimental=exp)
        texts.append((gen_doc.join_random(g.document(), rng, 0.3), exp))
    # definitions whose optional trailing block is absent, followed by every kind of operation/definition
    heads = ["enum E", "input I", "type A", "type A implements I", "interface I", "extend schema @d", "extend type A @d",
             "extend enum E @d", "extend input I @d", "extend interface I @d", "scalar S", "union U", "union U = A | B",
             "directive @d on FIELD", "extend scalar S @d", "extend union U @d", "schema { query: Q }", "fragment F on T { x }",
             '"""d""" type A @d(a: {x: 1})', "type A { f(a: I = {x: 1}): T }"]
    tails = ["query { a }", "{ a }", "query { a: b }", "query { query: Q }", "mutation { a }", "query Q { a }", "query @d { a }",
             "subscription { a }", "fragment G on T { a }", "enum F { A }"]
    for h in heads:
        for tl in tails:
            texts.append((h + " " + tl, False))
            texts.append((tl + " " + h + " " + tl, False))
    nd = 0
    for t, exp in texts:
        opts = parse_opts(exp)
        try:
            d1 = parse(t, **opts)
        except Exception:  # noqa: BLE001
            continue
        nd += 1
        key = f"doc:{t[:200]!r}"
        ck.note_case(("doc", t), nontrivial=len(t) > 20)
        try:
            p1 = print_ast(d1)
            d2 = parse(p1, **opts)
            p2 = print_ast(d2)
        except Exception as e:  # noqa: BLE001
            ck.violation(key, f"print/parse of a parsed document raised {type(e).__name__}: {str(e)[:100]}",
                         {"relation": "printed text parses", "source": t})
            continue
        if norm(d1) != norm(d2):
            ck.violation(key, "parse(print(d)) differs structurally from d", {"relation": "parse(print d) == d", "source": t, "printed": p1})
        if p1 != p2:
            ck.violation(key, "printing is not a fixed point", {"relation": "print(parse(print d)) == print d", "source": t, "printed": p1, "reprinted": p2})
    ck.count("documents", nd)
    # block strings: exact-text correspondence of print_block_string / is_printable_as_block_string / lexed values
    # with the Coq model the block theorems are about, and round trips at indentation levels 0-3
    from . import cblock
    rule0 = ck.rule
    d = cblock._Distinct()
    d.s = set(ck.nontrivial)
    ck.nontrivial = d
    cblock.core(ck, tier, br.ok)
    ck.extra["block_rule"] = ck.rule
    ck.rule = rule0 + " (e) block strings: see coverage.block_rule"
    if br.ok:
        # (g) print_schema.print_description vs Lang/Description.v (the theorem C08_description_roundtrip is about it)
        from graphql.utilities.print_schema import print_description
        from graphql import GraphQLEnumValue
        mb = Model("blockstring")
        dn = 4 if tier == "quick" else 5
        dvals = ["".join(x) for x in common.strings_upto(["a", " ", "\n", '"', "\\", "\t", "\r", "\u00e9"], dn)]
        dvals += ['"""', 'a"""b', " a\n  b", "\n", "a\n", "a\n\nb", "\x07", "\x7f", "\U0001f600", "\u2028x"]
        dcases, dmeta = [], []
        for v in dvals:
            for ind in ("", "  ", "\t "):
                dcases.append([7, len(ind)] + cps(ind) + cps(v))
                dmeta.append((v, ind))
        for (v, ind), r in zip(dmeta, mb.run_batch(dcases)):
            want = common.from_cps(r)
            for fib in (True, False):
                ck.evaluations += 1
                try:
                    got = print_description(GraphQLEnumValue(description=v), ind, fib)
                except Exception as ex:  # noqa: BLE001
                    got = f"raised {type(ex).__name__}"
                pre = "\n" + ind if ind and not fib else ind
                if got != pre + want + "\n":
                    ck.violation(f"description:{v!r}:{ind!r}:{fib}",
                                 f"print_description({v!r}, indentation={ind!r}) differs from the model text",
                                 {"relation": "print_description = prefix + Description.print_description_text + LF",
                                  "value": cps(v), "indent": cps(ind), "impl": got, "model": pre + want + "\n"})
            ck.note_case(("desc", v, ind), nontrivial=("\n" in v or '"' in v or "\\" in v))
        ck.count("description_cases", len(dcases))
        # tokens_of(model tree) vs re-lexed print_ast(impl tree), parse(print_ast d) == d, whole trees
        from . import cparser
        rule1 = ck.rule
        cparser.core(ck, tier, ("corpus", "D"))
        ck.rule = rule1 + " (f) parser/unparse model correspondence: see coverage.parser_rule"
    ck.samples.append({"string": strs[len(strs) // 2]})
    ck.samples.append({"document": texts[-1][0][:200]})
    # print_ast text vs the printer model Lang/Printer.v (text-level round trip proved)
    rule2 = ck.rule
    cprinter.core(ck, tier, br.ok)
    ck.extra["printer_rule"] = ck.rule
    ck.rule = rule2 + " (h) print_ast text vs the model Lang/Printer.v: see coverage.printer_rule"
    return ck.finish()


def replay(path):
    d = json.loads(open(path).read())
    print(json.dumps(d, indent=1)[:3000])
    return 0
