#!/bin/sh
# usage: import_seeds.sh <ID> <tag>   -- copies /tmp/seed/<ID>/out/{1,2,3} to seeded/<ID>-<tag>seed<n>, confirms each
# (demo 0 on HEAD / 1 with patch, full suite passes) and runs the property's quick check against it.
id="$1"; tag="$2"
cd /verif || exit 2
for n in 1 2 3; do
  src=/tmp/seed/$id/out/$n
  [ -f "$src/patch.diff" ] || continue
  dst=seeded/$id-${tag}seed$n
  mkdir -p "$dst"; cp "$src"/* "$dst"/
  sh harness/confirm_seed.sh "/verif/$dst"
done
sh harness/run_all_seeds.sh "$id-${tag}seed"
