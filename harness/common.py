"""Shared machinery of the /verif checks: build, model runner, verdicts, evidence.

Every check is `./check Cxx [--tier quick|thorough] [--replay file]`.  The verdict logic is
the one of DESIGN.md section 2.3.
"""
from __future__ import annotations

import fcntl
import hashlib
import json
import os
import random
import re
import subprocess
import sys
import time
from pathlib import Path

VERIF = Path(__file__).resolve().parent.parent
REPO = Path(os.environ.get("VERIF_REPO", "/repo"))
COQ = VERIF / "coq"
OCAML = VERIF / "ocaml"
EVID = VERIF / "evidence"
REPLAYS = VERIF / "replays"
CORPUS = VERIF / "corpus"

# the implementation under test is always /repo's working tree
sys.path.insert(0, str(REPO / "src"))
os.environ.setdefault("PYTHONHASHSEED", "0")

TRUSTED_BASE_COMMON = [
    "Coq 8.16.1 kernel (coqc); vm_compute used for table checks and witnesses; no native_compute",
    "extraction with ExtrOcamlBasic only (bool/option/unit/list/prod/sumbool/comparison to OCaml natives); nat, positive, N, Z stay extracted inductives; OCaml 4.13.1; ocaml/driver.ml",
    "harness/*.py: generators, encoders of implementation objects to the integer wire format, comparison code",
    "hand-written Gallina model; tied to /repo by the correspondence run of this check",
]


def seed() -> int:
    try:
        return int(os.environ.get("VERIF_SEED", "0"))
    except ValueError:
        return 0


def tier_from_env(default="quick") -> str:
    t = os.environ.get("VERIF_TIER", default)
    return t if t in ("quick", "thorough") else default


# --------------------------------------------------------------------------- build


class BuildResult:
    def __init__(self, ok, log, failed_file=None):
        self.ok, self.log, self.failed_file = ok, log, failed_file


def _lock():
    COQ.mkdir(exist_ok=True)
    f = open(COQ / ".buildlock", "w")
    fcntl.flock(f, fcntl.LOCK_EX)
    return f


def coq_files():
    return sorted(str(p.relative_to(COQ)) for p in (COQ / "theories").rglob("*.v"))


def write_if_changed(path: Path, content: str) -> bool:
    if path.exists() and path.read_text() == content:
        return False
    path.parent.mkdir(parents=True, exist_ok=True)
    path.write_text(content)
    return True


def _compile_driver(name):
    d = OCAML / name
    ml, exe = d / "model.ml", d / "model_driver"
    if not ml.exists():
        return f"{ml} missing (extraction did not run)"
    if exe.exists() and exe.stat().st_mtime >= ml.stat().st_mtime \
            and exe.stat().st_mtime >= (OCAML / "driver.ml").stat().st_mtime:
        return None
    (d / "driver.ml").write_text((OCAML / "driver.ml").read_text())
    q = subprocess.run(
        ["ocamlfind", "ocamlopt", "-w", "-a", "model.mli", "model.ml", "driver.ml", "-o", "model_driver"],
        cwd=d, capture_output=True, text=True)
    if q.returncode != 0:
        return q.stdout + q.stderr
    return None


def build(pid=None, models=("lang",), extra_targets=(), timeout=3000) -> BuildResult:
    """Regenerate Gen/Tables.v from /repo, then a full .vo build (make) of what the check needs:
    Properties/<pid>.vo, the Extract<Model>.vo files of `models`, `extra_targets` and all their
    dependencies; pid=None builds everything (setup).  Then the extracted OCaml drivers."""
    lock = _lock()
    try:
        from . import gen_tables

        try:
            gen_tables.regenerate()
        except Exception as e:  # the sweep itself failing is a harness error
            return BuildResult(False, f"table sweep failed: {e!r}", "Gen/Tables.v")
        files = coq_files()
        mk = COQ / "Makefile"
        listing = "\n".join(files)
        stamp = COQ / ".filelist"
        if not mk.exists() or not stamp.exists() or stamp.read_text() != listing:
            subprocess.run(
                ["coq_makefile", "-f", "_CoqProject", *files, "-o", "Makefile"],
                cwd=COQ, check=True, capture_output=True)
            stamp.write_text(listing)
        for name in models:
            (OCAML / name).mkdir(parents=True, exist_ok=True)
        cmd = ["timeout", str(timeout), "make", "-j16", "-k"]
        if pid is not None:
            tg = [f"theories/Properties/{pid}.vo"] if (COQ / "theories" / "Properties" / f"{pid}.v").exists() else []
            tg += [f"theories/Extract/Extract{m.capitalize()}.vo" for m in models]
            tg += list(extra_targets)
            cmd += tg
        p = subprocess.run(cmd, cwd=COQ, capture_output=True, text=True)
        log = p.stdout + p.stderr
        if p.returncode != 0:
            m = re.search(r'File "\./(theories/[^"]+)"', log)
            return BuildResult(False, log, m.group(1) if m else None)
        if pid is None:
            models = [d.name for d in OCAML.iterdir() if d.is_dir()]
        for name in models:
            err = _compile_driver(name)
            if err:
                return BuildResult(False, err, f"ocaml/{name}/model.ml")
        return BuildResult(True, log)
    finally:
        lock.close()


def check_property_file(pid: str, timeout=600):
    """Re-run coqc on Properties/<pid>.v; returns (ok, n_theorems, assumptions, log)."""
    f = COQ / "theories" / "Properties" / f"{pid}.v"
    src = f.read_text()
    names = re.findall(r"^\s*(?:Theorem|Lemma|Corollary)\s+(\w+)", src, re.M)
    lock = _lock()
    try:
        p = subprocess.run(
            ["timeout", str(timeout), "coqc", "-Q", "theories", "GV",
             "-w", "-notation-overridden,-deprecated-hint-without-locality",
             str(f.relative_to(COQ))],
            cwd=COQ, capture_output=True, text=True)
    finally:
        lock.close()
    out = p.stdout + p.stderr
    assumptions = []
    blocks = re.split(r"(?=Closed under the global context|Axioms:)", out)
    for b in blocks:
        if b.startswith("Closed under"):
            assumptions.append("Closed under the global context")
        elif b.startswith("Axioms:"):
            assumptions.append(" ".join(b.split())[:600])
    return p.returncode == 0, names, assumptions, out


FORBIDDEN = re.compile(
    r"\b(Admitted|admit|Axiom|Axioms|Parameter|Parameters|Conjecture|Admit Obligations|"
    r"Unset Guard Checking|Unset Positivity Checking|Unset Universe Checking|bypass_check|"
    r"type-in-type|impredicative-set)\b")


def dep_closure(start_files):
    """Transitive `From GV Require Import X.Y` closure of theories files (relative to theories/)."""
    th = COQ / "theories"
    seen, todo = set(), list(start_files)
    while todo:
        f = todo.pop()
        if f in seen or not (th / f).exists():
            continue
        seen.add(f)
        txt = re.sub(r"\(\*.*?\*\)", "", (th / f).read_text(), flags=re.S)
        for m in re.finditer(r"From\s+GV\s+Require\s+(?:Import|Export)\s+(.+?)\.(?=\s|$)", txt, flags=re.S):
            for mod in m.group(1).split():
                todo.append(mod.replace(".", "/") + ".v")
    return sorted(seen)


def scan_forbidden(files=None):
    """No Admitted/Axiom/Parameter/... in the development (comments stripped).
    files: theories-relative paths to scan (default: everything)."""
    bad = []
    th = COQ / "theories"
    paths = [th / f for f in files] if files is not None else list(th.rglob("*.v"))
    for p in paths:
        txt = p.read_text()
        txt = re.sub(r"\(\*.*?\*\)", "", txt, flags=re.S)
        for m in FORBIDDEN.finditer(txt):
            bad.append(f"{p.relative_to(COQ)}: {m.group(0)}")
    return bad


# --------------------------------------------------------------------------- model runner


class Model:
    """Runs the extracted model on batches of integer-list cases."""

    def __init__(self, name="lang"):
        self.exe = OCAML / name / "model_driver"

    def run_batch(self, cases, timeout=1200):
        if not cases:
            return []
        data = "\n".join(" ".join(map(str, c)) for c in cases) + "\n"
        p = subprocess.run([str(self.exe)], input=data, capture_output=True, text=True,
                           timeout=timeout)
        if p.returncode != 0:
            raise RuntimeError(f"model driver failed: {p.stderr[:500]}")
        lines = p.stdout.split("\n")
        if lines and lines[-1] == "":
            lines.pop()
        if len(lines) != len(cases):
            raise RuntimeError(f"model driver returned {len(lines)} lines for {len(cases)} cases")
        return [[int(x) for x in ln.split()] for ln in lines]


def cps(s: str):
    """Python str -> code point list."""
    return [ord(c) for c in s]


def from_cps(l):
    return "".join(chr(c) for c in l)


# --------------------------------------------------------------------------- verdicts


class Check:
    """Collects results of one check run, applies known findings, writes evidence."""

    def __init__(self, pid: str, tier: str, level="proof"):
        self.pid, self.tier, self.level = pid, tier, level
        self.t0 = time.time()
        self.seed = seed()
        self.rng = random.Random(self.seed * 7919 + sum(map(ord, pid)))
        self.violations = []  # (key, what, replay dict)
        self.proof_breaks = []  # names
        self.evaluations = 0
        self.nontrivial = set()
        self.samples = []
        self.dist = {}
        self.extra = {}
        self.assumptions = []
        self.obligations = 0
        self.discharged = 0
        self.theorems = []
        self.print_assumptions = []
        self.checker_cmd = ""
        self.partial = []
        self.degraded = []
        self.rule = ""
        self.exhaustive = None
        self.known = load_known(pid)
        self.known_seen = []
        self._nrep = 0

    # -- bookkeeping
    def count(self, kind, n=1):
        self.dist[kind] = self.dist.get(kind, 0) + n

    def note_case(self, canon, nontrivial=True, sample=None):
        self.evaluations += 1
        if nontrivial:
            h = hashlib.blake2b(repr(canon).encode("utf-8", "surrogatepass"), digest_size=8).digest()
            self.nontrivial.add(h)
        if sample is not None and len(self.samples) < 8:
            self.samples.append(sample)

    # -- proofs
    def proofs(self, build_res: BuildResult, extra_files=()):
        """Account for the proof obligations of Properties/<pid>.v (and of further theorem-only files
        Properties/<name>.v given in extra_files)."""
        files = [self.pid, *extra_files]
        self.checker_cmd = ("cd /verif/coq && coq_makefile -f _CoqProject <all theories/*.v> -o Makefile"
                            " && make -j16 && " + " && ".join(
                                f"coqc -Q theories GV theories/Properties/{n}.v" for n in files))
        deps = dep_closure([f"Properties/{n}.v" for n in files])
        bad = scan_forbidden(deps)
        self.extra["coq_files"] = deps
        self.extra["property_files"] = [f"Properties/{n}.v" for n in files]
        if bad:
            self.proof_breaks.append("forbidden construct: " + "; ".join(bad[:5]))
        names = []
        for n in files:
            f = COQ / "theories" / "Properties" / f"{n}.v"
            if f.exists():
                names += re.findall(r"^\s*(?:Theorem|Lemma|Corollary)\s+(\w+)", f.read_text(), re.M)
            else:
                self.proof_breaks.append(f"missing theorem file Properties/{n}.v")
        self.theorems = names
        self.obligations = len(names)
        self.partial = [n for n in names if n.endswith("_partial")]
        if not build_res.ok:
            self.discharged = 0
            self.proof_breaks.append(
                f"build failed at {build_res.failed_file}: " + build_res.log[-800:])
            return False
        self.print_assumptions = []
        self.discharged = 0
        allok = True
        for n in files:
            ok, names2, assumptions, out = check_property_file(n)
            self.print_assumptions += assumptions
            if ok:
                self.discharged += len(names2)
            else:
                allok = False
                self.proof_breaks.append(f"coqc Properties/{n}.v failed: " + out[-800:])
        if not allok:
            self.discharged = 0
        return allok

    # -- violations
    def violation(self, key: str, what: str, replay: dict):
        """key: canonical identity of the failing input (matched against known findings)."""
        for kf in self.known:
            if kf.get("status") == "known" and kf.get("key") == key:
                if key not in [k for k, _ in self.known_seen]:
                    self.known_seen.append((key, kf.get("what", what)))
                return
        if len(self.violations) < 50:
            self.violations.append((key, what, replay))

    def finish(self):
        """Write replay files, print lines, write evidence, return the exit code."""
        REPLAYS.mkdir(exist_ok=True)
        for old in REPLAYS.glob(f"{self.pid}-*.json"):
            try:
                old.unlink()  # replay files of earlier runs would be misleading
            except OSError:
                pass
        lines = []
        for key, what in self.known_seen:
            lines.append(f"KNOWN-FINDING: property={self.pid} {what}")
        nviol = 0
        # a broken proof/correspondence with no failing input is still a violation
        if self.proof_breaks and not self.violations:
            path = REPLAYS / f"{self.pid}-proof-break.json"
            path.write_text(json.dumps({
                "property": self.pid, "kind": "proof-or-correspondence-break",
                "no_longer_checks": self.proof_breaks,
                "note": "no input on which the property itself fails was found by the search",
            }, indent=1))
            lines.append(f"VIOLATION property={self.pid} replay={path} no-failing-input-found")
            nviol += 1
        for i, (key, what, replay) in enumerate(self.violations[:10]):
            path = REPLAYS / f"{self.pid}-{i}.json"
            replay = dict(replay)
            replay.update({"property": self.pid, "key": key, "what": what,
                           "seed": self.seed, "tier": self.tier,
                           "proof_breaks": self.proof_breaks,
                           "replay_cmd": f"./check {self.pid} --replay {path}"})
            path.write_text(json.dumps(replay, indent=1, default=repr))
            lines.append(f"VIOLATION property={self.pid} replay={path}")
            nviol += 1
        cov = {
            "obligations": self.obligations,
            "discharged": self.discharged,
            "checker_cmd": self.checker_cmd or "n/a",
            "trusted_base": TRUSTED_BASE_COMMON + self.assumptions
            + [f"Print Assumptions {n}: {a}" for n, a in zip(self.theorems, self.print_assumptions)],
            "theorems": self.theorems,
            "partial": self.partial,
            "evaluations": self.evaluations,
            "distinct_nontrivial": len(self.nontrivial),
            "rule": self.rule,
            "samples": self.samples or ["(none)"],
            "distribution": self.dist,
            "degraded": self.degraded,
            "known_findings_seen": [k for k, _ in self.known_seen],
        }
        if self.exhaustive is not None:
            cov["exhaustive"] = self.exhaustive
        cov.update(self.extra)
        ev = {
            "property_id": self.pid, "tier": self.tier, "seed": self.seed, "level": self.level,
            "coverage": cov, "assumptions": self.assumptions,
            "wall_s": round(time.time() - self.t0, 2), "violations": nviol,
        }
        EVID.mkdir(exist_ok=True)
        (EVID / f"{self.pid}.json").write_text(json.dumps(ev, indent=1, default=repr))
        for ln in lines:
            print(ln)
        print(f"[{self.pid}] tier={self.tier} seed={self.seed} evaluations={self.evaluations} "
              f"distinct_nontrivial={len(self.nontrivial)} theorems={self.discharged}/{self.obligations} "
              f"violations={nviol} wall={ev['wall_s']}s")
        sys.stdout.flush()
        return 1 if nviol else 0


def load_known(pid):
    p = VERIF / "known_findings.json"
    if not p.exists():
        return []
    try:
        d = json.loads(p.read_text())
    except Exception:
        return []
    return [e for e in d.get("findings", []) if e.get("property") == pid]


# --------------------------------------------------------------------------- generators


def strings_upto(alphabet, n):
    """All strings over alphabet of length <= n (as lists of items)."""
    level = [[]]
    yield []
    for _ in range(n):
        nxt = []
        for s in level:
            for a in alphabet:
                t = s + [a]
                nxt.append(t)
                yield t
        level = nxt


def load_corpus(pid):
    d = CORPUS / pid
    out = []
    if d.exists():
        for p in sorted(d.glob("*.json")):
            try:
                out.append(json.loads(p.read_text()))
            except Exception:
                pass
    return out
