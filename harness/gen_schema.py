"""Shared schema generator for C17/C18/C19.

* `gen_spec(rng, ...)`  - type-directed *valid* abstract schema (all type kinds, interface
  hierarchies, recursive and OneOf inputs, custom directives incl. repeatable, non-default
  root names, adversarial descriptions / deprecation reasons, defaults of every input type).
* `spec_to_sdl(spec)`   - independent SDL writer (own string escaper), for the "built from SDL" path.
* `spec_to_schema(spec, rng)` - the same schema assembled programmatically (GraphQLObjectType(...)).
* `dump(schema)`        - canonical field-by-field dump of a real GraphQLSchema.
* `encode_schema(schema)` - wire encoding (flat ints) of a real GraphQLSchema for the Coq model.

All randomness comes from the rng that is passed in.
"""
from __future__ import annotations

import re

# --------------------------------------------------------------------------- strings

ADVERSARIAL = ["\r", "\n", "\r\n", "\x0b", "\x0c", "\x1c", "\x1d", "\x1e", "\x85", " ", " ",
               '"', '""', '"""', "\\", '\\"""', "\\n", "\\u0041", " ", "  ", "\t", "a", "b", "Z", "#", ",",
               "\x00", "\x7f", "﻿", "é", "\U0001f600", "{", "}", "'", "/"]
FIXED_TEXTS = ["", " ", "\n", "a", " a", "a ", "a\n b", " a\n b", "a\n\n b", "\na", "a\n", '"', 'a"', '"""', "\\",
               "a\\", "a\rb", "a\r\nb", "a\x0bb", "a\x0cb", "a b", "a  b", "a\x85 b", "  a\n  b",
               "a\n\tb", "\ta", "l1\nl2\nl3", "x" * 75, "No longer supported", "a\x1cb\n c", "\x1d", "a\n \x1e",
               'say "hi"', 'ends with ""', "tab\there", "﻿bom", "a\n b\n  c", " \n a", "a\n "]


def adversarial_text(rng, maxlen=6):
    r = rng.random()
    if r < 0.35:
        return rng.choice(FIXED_TEXTS)
    n = rng.randint(0, maxlen)
    return "".join(rng.choice(ADVERSARIAL) for _ in range(n))


def plain_text(rng):
    return rng.choice(["doc", "a description", "x y", "Z"])


def quote(s: str) -> str:
    """Own quoted-string writer (never the block form)."""
    out = ['"']
    for ch in s:
        o = ord(ch)
        if ch == '"':
            out.append('\\"')
        elif ch == "\\":
            out.append("\\\\")
        elif o < 0x20 or o == 0x7F:
            out.append("\\u%04x" % o)
        elif 0xD800 <= o <= 0xDFFF:
            out.append("\\u%04x" % o)
        else:
            out.append(ch)
    out.append('"')
    return "".join(out)


# --------------------------------------------------------------------------- spec

NAME_POOLS = {
    "type": ["T1", "T2", "T10", "T02", "Ta", "Tb", "A", "B", "Node", "Item2", "Item10", "_U", "Zed", "aLow", "X9y1",
             "X9y01", "X10y1", "Foo", "Bar", "Baz", "T1a", "T1b", "Tz9", "M", "N1", "N01", "N001"],
    "field": ["f1", "f2", "f10", "f02", "a", "b", "c", "id", "name", "x9", "x10", "_p", "Z", "z", "f1a", "f1b", "aa",
              "ab", "a1", "a01", "k", "q7", "q07", "q70"],
    "enum": ["A", "B", "C", "V1", "V2", "V10", "V02", "RED", "GREEN", "_X", "a", "b1", "b01"],
    "dir": ["d1", "d2", "d10", "tag", "auth", "D", "_d", "d02", "key", "meta"],
}
BUILTIN_SCALARS = ["Int", "Float", "String", "Boolean", "ID"]
LOCATIONS = ["QUERY", "MUTATION", "SUBSCRIPTION", "FIELD", "FRAGMENT_DEFINITION", "FRAGMENT_SPREAD",
             "INLINE_FRAGMENT", "VARIABLE_DEFINITION", "SCHEMA", "SCALAR", "OBJECT", "FIELD_DEFINITION",
             "ARGUMENT_DEFINITION", "INTERFACE", "UNION", "ENUM", "ENUM_VALUE", "INPUT_OBJECT",
             "INPUT_FIELD_DEFINITION"]


def N(name):
    return ("n", name)


def L(t):
    return ("l", t)


def NN(t):
    return ("nn", t)


def tref_str(t):
    if t[0] == "n":
        return t[1]
    if t[0] == "l":
        return "[" + tref_str(t[1]) + "]"
    return tref_str(t[1]) + "!"


def tref_named(t):
    while t[0] != "n":
        t = t[1]
    return t[1]


class Arg:
    def __init__(self, name, type_, default=None, desc=None, depr=None):
        self.name, self.type, self.default, self.desc, self.depr = name, type_, default, desc, depr
        # default: None or ("v", external python value)


class Field:
    def __init__(self, name, type_, args=(), desc=None, depr=None):
        self.name, self.type, self.args, self.desc, self.depr = name, type_, list(args), desc, depr

    def copy(self):
        return Field(self.name, self.type, [Arg(a.name, a.type, a.default, a.desc, a.depr) for a in self.args],
                     self.desc, self.depr)


class EnumVal:
    def __init__(self, name, desc=None, depr=None, py=None):
        self.name, self.desc, self.depr, self.py = name, desc, depr, py


class Type:
    def __init__(self, kind, name, desc=None):
        self.kind, self.name, self.desc = kind, name, desc
        self.fields, self.ifaces, self.members, self.values, self.inputs = [], [], [], [], []
        self.specified_by, self.one_of = None, False


class Directive:
    def __init__(self, name, locs, args=(), repeatable=False, desc=None, depr=None):
        self.name, self.locs, self.args, self.repeatable, self.desc, self.depr = \
            name, list(locs), list(args), repeatable, desc, depr


class Spec:
    def __init__(self):
        self.desc = None
        self.query = self.mutation = self.subscription = None
        self.types, self.directives = [], []
        self.std_overrides = []   # own definitions of specified directives (@skip, @deprecated, ...)

    def type(self, name):
        for t in self.types:
            if t.name == name:
                return t
        return None


class _G:
    """One generation run."""

    def __init__(self, rng, size=2, adversarial=True, directive_deprecation=False, plain_names=False,
                 override_specified=False, incremental=False):
        self.rng, self.size, self.adv = rng, size, adversarial
        self.dir_depr = directive_deprecation
        self.override_specified = override_specified
        self.incremental = incremental
        self.used = set(BUILTIN_SCALARS) | {"Query", "Mutation", "Subscription"}
        self.plain_names = plain_names
        self.counter = 0

    def fresh(self, pool, avoid=()):
        rng = self.rng
        for _ in range(50):
            n = rng.choice(NAME_POOLS[pool])
            if pool == "type":
                if n in self.used:
                    continue
                self.used.add(n)
                return n
            if n not in avoid:
                return n
        self.counter += 1
        n = {"type": "Ty", "field": "g", "enum": "E", "dir": "dd"}[pool] + str(self.counter)
        if pool == "type":
            self.used.add(n)
        return n

    def text(self, p=0.45):
        if self.rng.random() > p:
            return None
        return adversarial_text(self.rng) if self.adv else plain_text(self.rng)

    def reason(self, p=0.25):
        if self.rng.random() > p:
            return None
        r = self.rng.random()
        if r < 0.3:
            return "No longer supported"
        if r < 0.42:
            return ""          # deprecated with an empty reason is still deprecated
        return adversarial_text(self.rng) if self.adv else "use other"

    # ---- type references
    def wrap(self, name, allow_nn_top=True):
        rng = self.rng
        t = N(name)
        r = rng.random()
        if r < 0.45:
            pass
        elif r < 0.6:
            t = NN(t)
        elif r < 0.75:
            t = L(t)
        elif r < 0.85:
            t = L(NN(t))
        elif r < 0.92:
            t = NN(L(NN(t)))
        elif r < 0.97:
            t = L(L(t))
        else:
            t = NN(L(L(NN(t))))
        if not allow_nn_top and t[0] == "nn" and t[1][0] == "n":
            t = t[1]
        return t

    # ---- values
    def value(self, spec, t, depth=0, earlier=None):
        """External python value valid for tref t (None = null).  `earlier`: set of input object names whose
        object literals may be used (None = all)."""
        rng = self.rng
        if t[0] == "nn":
            v = self.value(spec, t[1], depth, earlier)
            if v is None:
                return self.nonnull_value(spec, t[1], depth, earlier)
            return v
        if rng.random() < 0.12:
            return None
        if t[0] == "l":
            if rng.random() < 0.15 and t[1][0] != "l":
                v = self.value(spec, t[1], depth + 1, earlier)  # single item coerced to a list
                if v is not None:
                    return v
            n = rng.randint(0, 2 if depth < 2 else 0)
            return [self.value(spec, t[1], depth + 1, earlier) for _ in range(n)]
        return self.nonnull_value(spec, t, depth, earlier)

    def nonnull_value(self, spec, t, depth, earlier):
        rng = self.rng
        if t[0] == "nn":
            return self.nonnull_value(spec, t[1], depth, earlier)
        if t[0] == "l":
            n = rng.randint(0, 2 if depth < 2 else 0)
            return [self.value(spec, t[1], depth + 1, earlier) for _ in range(n)]
        name = t[1]
        if name == "Int":
            return rng.choice([0, 1, -1, 42, 2147483647, -2147483648, 7])
        if name == "Float":
            return rng.choice([0.5, -1.25, 1e20, 3.0, 1, -7, 1.5e-7, 0.0, 123456789.125])
        if name == "String":
            return adversarial_text(rng) if self.adv else rng.choice(["s", "hello world", ""])
        if name == "Boolean":
            return rng.random() < 0.5
        if name == "ID":
            return rng.choice(["id1", "123", 45, "", "a b", "007", "-5", "123\n", "-5\n", "0\n", "\n12", "1 "])
        ty = spec.type(name)
        if ty is None:
            return SKIP
        if ty.kind == "enum":
            return EnumName(rng.choice(ty.values).name)
        if ty.kind == "scalar":
            return rng.choice([1, "s", True, 2.5, [1, "a"], {"k": 1, "j": [True]}, {}, []])
        # input object
        if (earlier is not None and name not in earlier) or depth >= 3:
            return SKIP
        out = {}
        if ty.one_of:
            f = rng.choice(ty.inputs)
            v = self.nonnull_value(spec, f.type, depth + 1, earlier)
            if v is SKIP:
                return SKIP
            out[f.name] = v
            return out
        for f in ty.inputs:
            required = f.type[0] == "nn" and f.default is None
            if required or (depth < 2 and rng.random() < 0.5):
                v = self.value(spec, f.type, depth + 1, earlier)
                if v is SKIP or (isinstance(v, list) and has_skip(v)):
                    if required:
                        return SKIP
                    continue
                out[f.name] = v
        return out

    def default(self, spec, t, p=0.4, earlier=None):
        if self.rng.random() > p:
            return None
        v = self.value(spec, t, 0, earlier)
        if has_skip(v):
            return None
        return ("v", v)

    # ---- members
    def args(self, spec, nmax=2, earlier=None, pdesc=0.3):
        rng = self.rng
        out, names = [], set()
        for _ in range(rng.randint(0, nmax)):
            n = self.fresh("field", names)
            names.add(n)
            tname = rng.choice(self.input_names)
            t = self.wrap(tname)
            d = self.default(spec, t, earlier=earlier)
            required = t[0] == "nn" and d is None
            depr = None if required else self.reason(0.2)
            out.append(Arg(n, t, d, self.text(pdesc), depr))
        return out

    def out_field(self, spec, names):
        rng = self.rng
        n = self.fresh("field", names)
        tname = rng.choice(self.output_names)
        return Field(n, self.wrap(tname), self.args(spec), self.text(0.35), self.reason(0.2))

    def build(self):
        rng, size = self.rng, self.size
        spec = Spec()
        k = lambda lo, hi: rng.randint(lo, hi)
        n_scalar, n_enum = k(0, size), k(0 if size < 2 else 1, size)
        n_input, n_iface, n_obj, n_union = k(0, size + 1), k(0, size + 1), k(1, size + 2), k(0, size)
        scalars = [Type("scalar", self.fresh("type"), self.text()) for _ in range(n_scalar)]
        for s in scalars:
            if rng.random() < 0.5:
                s.specified_by = rng.choice(["https://example.com/spec", "https://e.org/a?b=c&d=\"q\"", "urn:x",
                                             adversarial_text(rng) if self.adv else "https://x"])
        enums = []
        for _ in range(n_enum):
            e = Type("enum", self.fresh("type"), self.text())
            names = set()
            style = rng.choice(["name", "int"])
            for i in range(k(1, size + 2)):
                vn = self.fresh("enum", names | {"true", "false", "null"})
                names.add(vn)
                e.values.append(EnumVal(vn, self.text(0.3), self.reason(0.25), vn if style == "name" else 100 + i))
            enums.append(e)
        inputs = [Type("input", self.fresh("type"), self.text()) for _ in range(n_input)]
        ifaces = [Type("interface", self.fresh("type"), self.text()) for _ in range(n_iface)]
        objs = [Type("object", self.fresh("type"), self.text()) for _ in range(n_obj)]
        unions = [Type("union", self.fresh("type"), self.text()) for _ in range(n_union)]
        # roots
        mode = rng.random()
        query = Type("object", "Query", self.text(0.2))
        roots = [query]
        spec.query = "Query"
        if mode < 0.35:
            pass
        elif mode < 0.6:
            query.name = self.fresh("type")       # non-default root names
            spec.query = query.name
        if rng.random() < 0.5:
            m = Type("object", "Mutation" if rng.random() < 0.6 else self.fresh("type"), self.text(0.2))
            roots.append(m)
            spec.mutation = m.name
        if rng.random() < 0.35:
            s = Type("object", "Subscription" if rng.random() < 0.6 else self.fresh("type"), self.text(0.2))
            roots.append(s)
            spec.subscription = s.name
        if rng.random() < 0.15:
            # a conventional name used by an object type that is not that root
            cand = [n for n in ("Query", "Mutation", "Subscription") if n not in [r.name for r in roots]]
            if cand:
                objs.append(Type("object", rng.choice(cand), self.text(0.2)))
        if rng.random() < 0.3:
            # ... or by a type of any other kind (build_ast_schema assigns roots purely by name)
            taken = [r.name for r in roots] + [t.name for t in objs]
            cand = [n for n in ("Query", "Mutation", "Subscription") if n not in taken]
            pools = [l for l in (scalars, enums, inputs, ifaces, unions) if l]
            if cand and pools:
                rng.choice(rng.choice(pools)).name = rng.choice(cand)
        if rng.random() < 0.3:
            spec.desc = adversarial_text(rng) if self.adv else "schema doc"
        self.input_names = BUILTIN_SCALARS + [t.name for t in scalars + enums + inputs]
        all_objs = objs + roots
        self.output_names = BUILTIN_SCALARS + [t.name for t in scalars + enums + ifaces + unions + all_objs]
        spec.types = scalars + enums + inputs + ifaces + unions + all_objs  # provisional order (lookup only)
        # input objects (field i may use object literals of inputs[:i] only; no required cycles)
        for i, t in enumerate(inputs):
            earlier = {x.name for x in inputs[:i]}
            t.one_of = rng.random() < 0.25
            names = set()
            for _ in range(k(1, size + 2)):
                n = self.fresh("field", names)
                names.add(n)
                tname = rng.choice(self.input_names)
                later = tname in {x.name for x in inputs[i:]}
                tr = self.wrap(tname, allow_nn_top=not later)
                if t.one_of:
                    if tr[0] == "nn":
                        tr = tr[1]
                    t.inputs.append(Arg(n, tr, None, self.text(0.3), self.reason(0.2)))
                    continue
                d = self.default(spec, tr, earlier=earlier)
                required = tr[0] == "nn" and d is None
                t.inputs.append(Arg(n, tr, d, self.text(0.3), None if required else self.reason(0.2)))
        # interfaces: hierarchy over earlier ones, closed under ancestors
        for i, t in enumerate(ifaces):
            parents = []
            for p in ifaces[:i]:
                if rng.random() < 0.4:
                    for a in p.ifaces + [p.name]:
                        if a not in parents:
                            parents.append(a)
            rng.shuffle(parents)
            t.ifaces = parents
            self.inherit(spec, t, tweak=False)
            names = {f.name for f in t.fields}
            raw = set()
            for _ in range(k(0 if t.fields else 1, size + 1)):
                f = self.out_field(spec, raw)
                raw.add(f.name)
                f.name = f.name + "_" + str(i)  # declared names are unique per interface
                if f.name in names:
                    continue
                names.add(f.name)
                t.fields.append(f)
        for t in all_objs:
            parents = []
            for p in ifaces:
                if rng.random() < 0.3:
                    for a in p.ifaces + [p.name]:
                        if a not in parents:
                            parents.append(a)
            rng.shuffle(parents)
            t.ifaces = parents
            self.inherit(spec, t)
            names = {f.name for f in t.fields}
            for _ in range(k(0 if t.fields else 1, size + 2)):
                f = self.out_field(spec, names)
                names.add(f.name)
                t.fields.append(f)
            if rng.random() < 0.3:
                rng.shuffle(t.fields)
        for u in unions:
            cand = list(all_objs)
            rng.shuffle(cand)
            u.members = [o.name for o in cand[:k(1, min(len(cand), size + 1))]]
        # directives
        dnames = set()
        for _ in range(k(0, size + 1)):
            n = self.fresh("dir", dnames | {"skip", "include", "deprecated", "specifiedBy", "oneOf", "defer", "stream"})
            dnames.add(n)
            locs = list(LOCATIONS)
            rng.shuffle(locs)
            d = Directive(n, locs[:k(1, 4)], self.args(spec, 3), rng.random() < 0.4, self.text(),
                          self.reason(0.3) if self.dir_depr else None)
            spec.directives.append(d)
        if self.incremental:
            # the schema lists the incremental-delivery directives @defer / @stream (not specified directives:
            # they are printed and rebuilt like any other directive)
            for d in (Directive("defer", ["FRAGMENT_SPREAD", "INLINE_FRAGMENT"],
                                [Arg("if", NN(N("Boolean")), ("v", True), self.text(0.5)), Arg("label", N("String"))],
                                False, self.text(0.7)),
                      Directive("stream", ["FIELD"],
                                [Arg("if", NN(N("Boolean")), ("v", True)), Arg("label", N("String"), None, self.text(0.5)),
                                 Arg("initialCount", N("Int"), ("v", 0))], False, self.text(0.7))):
                if rng.random() < 0.8:
                    d.incremental = True
                    spec.directives.insert(rng.randint(0, len(spec.directives)), d)
        if self.override_specified:
            spec.std_overrides = self.overrides(spec)
        # final type order
        order = scalars + enums + inputs + ifaces + unions + all_objs
        if rng.random() < 0.7:
            rng.shuffle(order)
        spec.types = order
        return spec

    def overrides(self, spec):
        """The schema's own definitions of some specified directives (build_schema and GraphQLSchema accept
        them; print_schema never shows a directive carrying a specified name).  They stay compatible with every
        use the generated SDL makes of them."""
        rng = self.rng
        used = set()
        for t in spec.types:
            for f in t.fields:
                if f.depr is not None:
                    used.add("FIELD_DEFINITION")
                if any(a.depr is not None for a in f.args):
                    used.add("ARGUMENT_DEFINITION")
            if any(a.depr is not None for a in t.inputs):
                used.add("INPUT_FIELD_DEFINITION")
            if any(v.depr is not None for v in t.values):
                used.add("ENUM_VALUE")
        for d in spec.directives:
            if d.depr is not None:
                used.add("DIRECTIVE_DEFINITION")
            if any(a.depr is not None for a in d.args):
                used.add("ARGUMENT_DEFINITION")
        names = ["skip", "include", "deprecated", "specifiedBy", "oneOf"]
        rng.shuffle(names)
        out = []
        for n in names[:rng.randint(1, 3)]:
            if n in ("skip", "include"):
                locs = [l for l in ("FIELD", "FRAGMENT_SPREAD", "INLINE_FRAGMENT") if rng.random() < 0.6] or ["FIELD"]
                if rng.random() < 0.3:
                    locs.append(rng.choice(["QUERY", "FRAGMENT_DEFINITION", "VARIABLE_DEFINITION"]))
                rng.shuffle(locs)
                out.append(Directive(n, locs, [Arg("if", NN(N("Boolean")), None, self.text(0.4))],
                                     rng.random() < 0.15, self.text(0.8)))
            elif n == "deprecated":
                locs = sorted(used) + [l for l in ("FIELD_DEFINITION", "ARGUMENT_DEFINITION", "INPUT_FIELD_DEFINITION",
                                                     "ENUM_VALUE") if l not in used and rng.random() < 0.4]
                locs = locs or ["FIELD_DEFINITION", "ENUM_VALUE"]   # the legacy definition
                rng.shuffle(locs)
                ty = N("String") if rng.random() < 0.6 else NN(N("String"))
                out.append(Directive(n, locs, [Arg("reason", ty, ("v", "No longer supported"), self.text(0.4))],
                                     False, self.text(0.8)))
            elif n == "specifiedBy":
                out.append(Directive(n, ["SCALAR"], [Arg("url", NN(N("String")), None, self.text(0.4))], False,
                                     self.text(0.9)))
            else:
                out.append(Directive(n, ["INPUT_OBJECT"], [], False, self.text(0.9) or "own oneOf"))
        return out

    def inherit(self, spec, t, tweak=True):
        """Copy the fields of every implemented interface (covariant tweaks, extra optional args)."""
        rng = self.rng
        have = {}
        for iname in t.ifaces:
            it = spec.type(iname)
            for f in it.fields:
                if f.name in have:
                    continue
                c = f.copy()
                if not tweak:
                    have[c.name] = c
                    continue
                r = rng.random()
                if r < 0.15 and c.type[0] != "nn":
                    c.type = NN(c.type)  # covariant: nullable -> non-null
                if rng.random() < 0.15:
                    nm = self.fresh("field", {a.name for a in c.args})
                    tn = rng.choice(self.input_names)
                    c.args.append(Arg(nm, N(tn), None, self.text(0.2), None))
                if rng.random() < 0.3:
                    c.desc = self.text(0.7)
                have[c.name] = c
        t.fields = list(have.values())


class EnumName(str):
    """External enum value (printed bare)."""


class _Skip:
    def __repr__(self):
        return "SKIP"


SKIP = _Skip()


def has_skip(v):
    if v is SKIP:
        return True
    if isinstance(v, list):
        return any(has_skip(x) for x in v)
    if isinstance(v, dict):
        return any(has_skip(x) for x in v.values())
    return False


def gen_spec(rng, size=2, adversarial=True, directive_deprecation=False, override_specified=False,
             incremental=False):
    return _G(rng, size, adversarial, directive_deprecation, override_specified=override_specified,
              incremental=incremental).build()


# --------------------------------------------------------------------------- spec -> SDL


def value_sdl(v):
    if v is None:
        return "null"
    if isinstance(v, EnumName):
        return str(v)
    if isinstance(v, bool):
        return "true" if v else "false"
    if isinstance(v, int):
        return str(v)
    if isinstance(v, float):
        r = repr(v)
        return r
    if isinstance(v, str):
        return quote(v)
    if isinstance(v, list):
        return "[" + ", ".join(value_sdl(x) for x in v) + "]"
    if isinstance(v, dict):
        return "{" + ", ".join(f"{k}: {value_sdl(x)}" for k, x in v.items()) + "}"
    raise TypeError(v)


def _desc(d, ind=""):
    return "" if d is None else ind + quote(d) + "\n"


def _depr(r):
    if r is None:
        return ""
    if r == "No longer supported":
        return " @deprecated"
    return " @deprecated(reason: " + quote(r) + ")"


def _arg_sdl(a):
    s = f"{a.name}: {tref_str(a.type)}"
    if a.default is not None:
        s += " = " + value_sdl(a.default[1])
    return s + _depr(a.depr)


def _args_sdl(args, ind):
    if not args:
        return ""
    if all(a.desc is None for a in args):
        return "(" + ", ".join(_arg_sdl(a) for a in args) + ")"
    return "(\n" + "\n".join(_desc(a.desc, ind + "  ") + ind + "  " + _arg_sdl(a) for a in args) + "\n" + ind + ")"


def field_sdl(f, ind="  "):
    return _desc(f.desc, ind) + ind + f.name + _args_sdl(f.args, ind) + ": " + tref_str(f.type) + _depr(f.depr)


def input_field_sdl(a, ind="  "):
    return _desc(a.desc, ind) + ind + _arg_sdl(a)


def enum_value_sdl(v, ind="  "):
    return _desc(v.desc, ind) + ind + v.name + _depr(v.depr)


def type_sdl(t, extend=False):
    kw = ("extend " if extend else "")
    head = "" if extend else _desc(t.desc)
    if t.kind == "scalar":
        s = head + kw + "scalar " + t.name
        if t.specified_by is not None:
            s += " @specifiedBy(url: " + quote(t.specified_by) + ")"
        return s
    if t.kind in ("object", "interface"):
        s = head + kw + ("type " if t.kind == "object" else "interface ") + t.name
        if t.ifaces:
            s += " implements " + " & ".join(t.ifaces)
        if t.fields:
            s += " {\n" + "\n".join(field_sdl(f) for f in t.fields) + "\n}"
        return s
    if t.kind == "union":
        s = head + kw + "union " + t.name
        if t.members:
            s += " = " + " | ".join(t.members)
        return s
    if t.kind == "enum":
        s = head + kw + "enum " + t.name
        if t.values:
            s += " {\n" + "\n".join(enum_value_sdl(v) for v in t.values) + "\n}"
        return s
    s = head + kw + "input " + t.name + (" @oneOf" if t.one_of and not extend else "")
    if t.inputs:
        s += " {\n" + "\n".join(input_field_sdl(a) for a in t.inputs) + "\n}"
    return s


def directive_sdl(d):
    return (_desc(d.desc) + "directive @" + d.name + _args_sdl(d.args, "") + _depr(d.depr)
            + (" repeatable" if d.repeatable else "") + " on " + " | ".join(d.locs))


def needs_schema_block(spec):
    names = {t.name for t in spec.types}
    conv = lambda root, n: root == (n if n in names else None)
    return not (spec.desc is None and conv(spec.query, "Query") and conv(spec.mutation, "Mutation")
                and conv(spec.subscription, "Subscription"))


def schema_block_sdl(spec, extend=False, ops=None):
    ops = ops if ops is not None else [(k, getattr(spec, k)) for k in ("query", "mutation", "subscription")]
    body = "".join(f"  {k}: {v}\n" for k, v in ops if v)
    return ("extend " if extend else _desc(spec.desc)) + "schema {\n" + body + "}"


def spec_to_defs(spec):
    """List of SDL definition strings (schema block first when needed)."""
    out = []
    if needs_schema_block(spec):
        out.append(schema_block_sdl(spec))
    out += [directive_sdl(d) for d in spec.std_overrides]
    out += [directive_sdl(d) for d in spec.directives]
    out += [type_sdl(t) for t in spec.types]
    return out


def spec_to_sdl(spec):
    return "\n\n".join(spec_to_defs(spec))


# --------------------------------------------------------------------------- spec -> objects


_SUBCLASSES = {}


def trivial_subclass(cls):
    """A trivial subclass (class SubX(X): pass) of a library class, one per class."""
    if cls not in _SUBCLASSES:
        _SUBCLASSES[cls] = type("Sub" + cls.__name__, (cls,), {})
    return _SUBCLASSES[cls]


def spec_to_schema(spec, rng, subclasses=False):
    """Assemble the schema programmatically (no SDL involved).
    subclasses: build about half of the types, wrappers, fields, arguments, enum values and directives as instances
    of trivial SUBCLASSES of the library classes (applications do: class ModelType(GraphQLObjectType))."""
    from graphql import (DirectiveLocation, GraphQLArgument, GraphQLBoolean, GraphQLDirective, GraphQLEnumType,
                         GraphQLEnumValue, GraphQLField, GraphQLFloat, GraphQLID, GraphQLInputField,
                         GraphQLInputObjectType, GraphQLInt, GraphQLInterfaceType, GraphQLList, GraphQLNonNull,
                         GraphQLObjectType, GraphQLScalarType, GraphQLSchema, GraphQLString, GraphQLUnionType,
                         parse_const_value, specified_directives)
    from graphql.type import GraphQLDefaultInput
    std = {"Int": GraphQLInt, "Float": GraphQLFloat, "String": GraphQLString, "Boolean": GraphQLBoolean,
           "ID": GraphQLID}
    objs = {}
    if subclasses:
        def pick(cls):
            return lambda *a, **k: (trivial_subclass(cls) if rng.random() < 0.5 else cls)(*a, **k)
        (GraphQLScalarType, GraphQLObjectType, GraphQLInterfaceType, GraphQLUnionType, GraphQLEnumType,
         GraphQLInputObjectType, GraphQLList, GraphQLNonNull, GraphQLField, GraphQLArgument, GraphQLInputField,
         GraphQLEnumValue, GraphQLDirective) = map(pick, (
            GraphQLScalarType, GraphQLObjectType, GraphQLInterfaceType, GraphQLUnionType, GraphQLEnumType,
            GraphQLInputObjectType, GraphQLList, GraphQLNonNull, GraphQLField, GraphQLArgument, GraphQLInputField,
            GraphQLEnumValue, GraphQLDirective))

    def ref(t):
        if t[0] == "n":
            return std.get(t[1]) or objs[t[1]]
        if t[0] == "l":
            return GraphQLList(ref(t[1]))
        return GraphQLNonNull(ref(t[1]))

    def internal(v, t):
        """external value -> internal python value (enum names -> enum python values)."""
        if v is None:
            return None
        if t[0] == "nn":
            return internal(v, t[1])
        if t[0] == "l":
            if isinstance(v, list):
                return [internal(x, t[1]) for x in v]
            return internal(v, t[1])
        ty = spec.type(t[1])
        if ty is None:
            return v
        if ty.kind == "enum":
            return next(x.py for x in ty.values if x.name == v)
        if ty.kind == "input" and isinstance(v, dict):
            ft = {a.name: a.type for a in ty.inputs}
            return {k: internal(x, ft[k]) for k, x in v.items()}
        return v

    def plain(v):
        if isinstance(v, EnumName):
            return str(v)
        if isinstance(v, list):
            return [plain(x) for x in v]
        if isinstance(v, dict):
            return {k: plain(x) for k, x in v.items()}
        return v

    def vary(v, t):
        """Another Python representation of the same default value that the type's value_to_literal / serialize
        accepts: integral floats for Int, ints for integral Floats, int <-> numeric string for ID, tuples for lists,
        input-object dicts in another key order - at every nesting level."""
        if v is None:
            return None
        if t[0] == "nn":
            return vary(v, t[1])
        if t[0] == "l":
            if isinstance(v, (list, tuple)):
                items = [vary(x, t[1]) for x in v]
                return tuple(items) if rng.random() < 0.4 else items
            return vary(v, t[1])
        name = t[1]
        if name == "Int":
            if type(v) is int and rng.random() < 0.4:
                return float(v)
        elif name == "Float":
            if type(v) is float and v.is_integer() and abs(v) < 1e15 and rng.random() < 0.4:
                return int(v)
        elif name == "ID":
            if type(v) is int and rng.random() < 0.4:
                return str(v)
            if type(v) is str and re.fullmatch(r"-?(0|[1-9][0-9]*)", v) and rng.random() < 0.4:
                return int(v)
        else:
            ty = spec.type(name)
            if ty is not None and ty.kind == "input" and isinstance(v, dict):
                ft = {a.name: a.type for a in ty.inputs}
                keys = list(v)
                rng.shuffle(keys)
                return {k: vary(v[k], ft[k]) for k in keys}
        return v

    def default_kwargs(a):
        if a.default is None:
            return {}
        v = a.default[1]
        r = rng.random()
        if r < 0.4:
            return {"default": GraphQLDefaultInput(value=vary(plain(v), a.type))}
        if r < 0.7:
            return {"default": GraphQLDefaultInput(literal=parse_const_value(value_sdl(v)))}
        iv = vary(internal(plain(v), a.type), a.type)
        try:
            from graphql.utilities import ast_from_value
            if ast_from_value(iv, ref(a.type)) is None:
                raise TypeError
        except Exception:  # noqa: BLE001  (legacy default_value cannot hold this value)
            return {"default": GraphQLDefaultInput(value=plain(v))}
        return {"default_value": iv}

    def mk_args(args, cls=GraphQLArgument):
        return {a.name: cls(ref(a.type), description=a.desc, deprecation_reason=a.depr, **default_kwargs(a))
                for a in args}

    def mk_fields(t):
        return {f.name: GraphQLField(ref(f.type), args=mk_args(f.args), description=f.desc,
                                     deprecation_reason=f.depr) for f in t.fields}

    for t in spec.types:
        if t.kind == "scalar":
            objs[t.name] = GraphQLScalarType(t.name, description=t.desc, specified_by_url=t.specified_by)
        elif t.kind == "enum":
            objs[t.name] = GraphQLEnumType(t.name, {v.name: GraphQLEnumValue(v.py, description=v.desc,
                                                                               deprecation_reason=v.depr)
                                                     for v in t.values}, description=t.desc)
        elif t.kind == "input":
            objs[t.name] = GraphQLInputObjectType(
                t.name, (lambda t=t: mk_args(t.inputs, GraphQLInputField)), description=t.desc, is_one_of=t.one_of)
        elif t.kind == "interface":
            objs[t.name] = GraphQLInterfaceType(
                t.name, (lambda t=t: mk_fields(t)), interfaces=(lambda t=t: [objs[i] for i in t.ifaces]),
                description=t.desc)
        elif t.kind == "object":
            objs[t.name] = GraphQLObjectType(
                t.name, (lambda t=t: mk_fields(t)), interfaces=(lambda t=t: [objs[i] for i in t.ifaces]),
                description=t.desc)
        else:
            objs[t.name] = GraphQLUnionType(t.name, (lambda t=t: [objs[m] for m in t.members]), description=t.desc)
    mk_dir = lambda d: GraphQLDirective(d.name, [DirectiveLocation[x] for x in d.locs], args=mk_args(d.args),
                                        is_repeatable=d.repeatable, description=d.desc, deprecation_reason=d.depr)
    from graphql import GraphQLDeferDirective, GraphQLStreamDirective
    real = {"defer": GraphQLDeferDirective, "stream": GraphQLStreamDirective}
    # the incremental-delivery directives: the library's own objects half of the time
    dirs = [real[d.name] if getattr(d, "incremental", False) and rng.random() < 0.5 else mk_dir(d)
            for d in spec.directives]
    own = {d.name: mk_dir(d) for d in spec.std_overrides}   # the schema's own @skip, @deprecated, ...
    std_dirs = [own.get(d.name, d) for d in specified_directives]
    r = rng.random()
    if r < 0.5:
        directives = std_dirs + dirs
    else:
        directives = dirs + std_dirs
    return GraphQLSchema(
        query=objs[spec.query] if spec.query else None,
        mutation=objs[spec.mutation] if spec.mutation else None,
        subscription=objs[spec.subscription] if spec.subscription else None,
        types=[objs[t.name] for t in spec.types], directives=directives, description=spec.desc)


# --------------------------------------------------------------------------- dump of a real schema


def is_std_type_name(name):
    return name in BUILTIN_SCALARS or name.startswith("__")


def default_text(arg):
    from graphql import print_ast
    from graphql.utilities import get_default_value_ast
    ast = get_default_value_ast(arg)
    return None if ast is None else print_ast(ast)


def _canon_py(v):
    """Python value -> canonical JSON-able form (integral floats as ints, tuples as lists)."""
    if isinstance(v, bool) or v is None or isinstance(v, (int, str)):
        return v
    if isinstance(v, float):
        return int(v) if v == v and v not in (float("inf"), float("-inf")) and v.is_integer() else repr(v)
    if isinstance(v, (list, tuple)):
        return [_canon_py(x) for x in v]
    if isinstance(v, dict):
        return {str(k): _canon_py(x) for k, x in v.items()}
    return repr(v)


def external_value(value, type_):
    """The VALUE a default stands for, in external form, independent of how it was given: enum members by
    name, IDs as strings, absent input-object members filled with the member's own default (what coercion does),
    a single item for a list type wrapped.  Used to compare default values semantically."""
    from graphql import (Undefined, is_enum_type, is_input_object_type, is_list_type, is_non_null_type)
    if value is Undefined:
        return "<undefined>"
    if is_non_null_type(type_):
        return external_value(value, type_.of_type)
    if value is None:
        return None
    if is_list_type(type_):
        if isinstance(value, (list, tuple)):
            return [external_value(x, type_.of_type) for x in value]
        return [external_value(value, type_.of_type)]
    if is_enum_type(type_):
        try:
            return type_.serialize(value)
        except Exception:  # noqa: BLE001
            return "<enum " + repr(value) + ">"
    if is_input_object_type(type_) and isinstance(value, dict):
        out = {}
        for fname, f in type_.fields.items():
            if fname in value:
                out[fname] = external_value(value[fname], f.type)
            else:
                d = coerced_default(f)
                if d != "<undefined>":
                    out[fname] = d
        return out
    if type_.name == "ID" and isinstance(value, (int, float)) and not isinstance(value, bool):
        return str(_canon_py(value))
    return _canon_py(value)


def coerced_default(arg):
    """Coerced default of an argument / input field in external canonical form ("<undefined>" when it has none)."""
    try:
        from graphql.utilities.coerce_input_value import coerce_default_value
    except Exception:  # noqa: BLE001  (internal helper moved: the semantic comparison is skipped)
        return "<unavailable>"
    try:
        return external_value(coerce_default_value(arg), arg.type)
    except Exception as e:  # noqa: BLE001
        return f"<raised {type(e).__name__}>"


def dump_arg(name, a):
    import json as _json
    return {"name": name, "type": str(a.type), "default": default_text(a), "desc": a.description,
            "depr": a.deprecation_reason,
            # the default VALUE (a wrong literal for a Python default re-prints identically; the values differ)
            "default_value": _json.dumps(coerced_default(a), sort_keys=True, default=repr)}


def dump_type(t, builtin_too=False):
    from graphql import (is_enum_type, is_input_object_type, is_interface_type, is_object_type, is_scalar_type,
                         is_union_type)
    d = {"name": t.name, "desc": t.description}
    if is_scalar_type(t):
        d.update(kind="scalar", specified_by=t.specified_by_url)
    elif is_object_type(t) or is_interface_type(t):
        d.update(kind="object" if is_object_type(t) else "interface",
                 ifaces=[i.name for i in t.interfaces],
                 fields=[{"name": n, "type": str(f.type), "args": [dump_arg(an, a) for an, a in f.args.items()],
                          "desc": f.description, "depr": f.deprecation_reason} for n, f in t.fields.items()])
    elif is_union_type(t):
        d.update(kind="union", members=[m.name for m in t.types])
    elif is_enum_type(t):
        d.update(kind="enum", values=[{"name": n, "desc": v.description, "depr": v.deprecation_reason}
                                      for n, v in t.values.items()])
    elif is_input_object_type(t):
        d.update(kind="input", one_of=bool(t.is_one_of), inputs=[dump_arg(n, a) for n, a in t.fields.items()])
    return d


def dump_directive(d):
    return {"name": d.name, "desc": d.description, "locs": [l.name for l in d.locations],
            "repeatable": bool(d.is_repeatable), "depr": d.deprecation_reason,
            "args": [dump_arg(n, a) for n, a in d.args.items()]}


def dump(schema):
    """Field-by-field canonical dump (ordered), defined types and non-specified directives in order;
    standard scalars / specified directives as name sets."""
    from graphql import is_specified_directive
    root = lambda t: None if t is None else t.name
    return {
        "desc": schema.description,
        "roots": [root(schema.query_type), root(schema.mutation_type), root(schema.subscription_type)],
        "types": [dump_type(t) for n, t in schema.type_map.items() if not is_std_type_name(n)],
        "std_types": sorted(n for n in schema.type_map if is_std_type_name(n)),
        "directives": [dump_directive(d) for d in schema.directives if not is_specified_directive(d)],
        "specified_directives": sorted(d.name for d in schema.directives if is_specified_directive(d)),
        # full definitions of the directives carrying a specified name (a schema may define its own)
        "specified_directive_defs": sorted((dump_directive(d) for d in schema.directives if is_specified_directive(d)),
                                           key=lambda x: x["name"]),
    }


def first_diff(a, b, path="$"):
    """Path of the first difference between two dumps (None if equal)."""
    if type(a) is not type(b):
        return f"{path}: {a!r} != {b!r}"
    if isinstance(a, dict):
        for k in a:
            if k not in b:
                return f"{path}.{k}: missing"
            d = first_diff(a[k], b[k], f"{path}.{k}")
            if d:
                return d
        for k in b:
            if k not in a:
                return f"{path}.{k}: extra"
        return None
    if isinstance(a, list):
        if len(a) != len(b):
            na = [x.get("name") if isinstance(x, dict) else x for x in a]
            nb = [x.get("name") if isinstance(x, dict) else x for x in b]
            return f"{path}: length {len(a)} != {len(b)} ({na!r} vs {nb!r})"
        for i, (x, y) in enumerate(zip(a, b)):
            nm = x.get("name") if isinstance(x, dict) else None
            d = first_diff(x, y, f"{path}[{nm if nm is not None else i}]")
            if d:
                return d
        return None
    return None if a == b else f"{path}: {a!r} != {b!r}"


# --------------------------------------------------------------------------- wire encoding


def w_text(s):
    return [len(s)] + [ord(c) for c in s]


def w_opt(s):
    return [0] if s is None else [1] + w_text(s)


def w_tref(t):
    from graphql import is_list_type, is_non_null_type
    if is_list_type(t):
        return [1] + w_tref(t.of_type)
    if is_non_null_type(t):
        return [2] + w_tref(t.of_type)
    return [0] + w_text(t.name)


CANON_DEFAULTS = [False]  # True: object literals inside default values are encoded with sorted field names


def w_value(node):
    """ConstValueNode -> wire."""
    k = node.kind
    if k == "null_value":
        return [0]
    if k == "int_value":
        return [1] + w_text(node.value)
    if k == "float_value":
        # a FloatValueNode made from a Python value may carry integer text ("0"); it prints (and re-parses) as an int
        is_int_text = not any(c in node.value for c in ".eE")
        return [1 if is_int_text else 2] + w_text(node.value)
    if k == "string_value":
        return [3] + w_text(node.value)
    if k == "boolean_value":
        return [4, 1 if node.value else 0]
    if k == "enum_value":
        return [5] + w_text(node.value)
    if k == "list_value":
        out = [6, len(node.values)]
        for v in node.values:
            out += w_value(v)
        return out
    if k == "object_value":
        out = [7, len(node.fields)]
        fields = node.fields
        if CANON_DEFAULTS[0]:
            from graphql.pyutils import natural_comparison_key
            fields = sorted(fields, key=lambda f: natural_comparison_key(f.name.value))
        for f in fields:
            out += w_text(f.name.value) + w_value(f.value)
        return out
    raise TypeError(k)


DEFAULT_TEXT = [False]  # True: a default value is encoded as one leaf carrying its printed text (print_ast)


def w_arg(name, a):
    from graphql.utilities import get_default_value_ast
    ast = get_default_value_ast(a)
    if ast is None:
        dv = [0]
    elif DEFAULT_TEXT[0]:
        from graphql import print_ast
        dv = [1, 3] + w_text(print_ast(ast))
    else:
        dv = [1] + w_value(ast)
    return w_text(name) + w_tref(a.type) + dv + w_opt(a.description) + w_opt(a.deprecation_reason)


def w_args(args):
    out = [len(args)]
    for n, a in args.items():
        out += w_arg(n, a)
    return out


KIND_CODE = {"scalar": 0, "object": 1, "interface": 2, "union": 3, "enum": 4, "input": 5}


def w_type(t):
    from graphql import (is_enum_type, is_input_object_type, is_interface_type, is_object_type, is_scalar_type,
                         is_union_type)
    kind = ("scalar" if is_scalar_type(t) else "object" if is_object_type(t) else "interface"
            if is_interface_type(t) else "union" if is_union_type(t) else "enum" if is_enum_type(t) else "input")
    out = [KIND_CODE[kind]] + w_text(t.name) + w_opt(t.description)
    if kind in ("object", "interface"):
        out.append(len(t.fields))
        for n, f in t.fields.items():
            out += w_text(n) + w_args(f.args) + w_tref(f.type) + w_opt(f.description) + w_opt(f.deprecation_reason)
        out.append(len(t.interfaces))
        for i in t.interfaces:
            out += w_text(i.name)
    else:
        out += [0, 0]
    if kind == "union":
        out.append(len(t.types))
        for m in t.types:
            out += w_text(m.name)
    else:
        out.append(0)
    if kind == "enum":
        out.append(len(t.values))
        for n, v in t.values.items():
            out += w_text(n) + w_opt(v.description) + w_opt(v.deprecation_reason)
    else:
        out.append(0)
    if kind == "input":
        out += w_args(t.fields)
    else:
        out.append(0)
    out += w_opt(t.specified_by_url if kind == "scalar" else None)
    out.append(1 if kind == "input" and t.is_one_of else 0)
    return out


def w_directive(d):
    out = w_text(d.name) + w_opt(d.description) + w_args(d.args) + [len(d.locations)]
    for l in d.locations:
        out += w_text(l.name)
    out.append(1 if d.is_repeatable else 0)
    out += w_opt(d.deprecation_reason)
    return out


def encode_schema(schema, all_types=False, canon_defaults=False, default_text=False):
    """Real GraphQLSchema -> wire.  all_types=False: only defined types and non-specified directives
    (what print_schema shows); True: the whole type map and every directive (for introspection).
    canon_defaults: sort the fields of object literals in default values (a default held as a Python value is
    printed in the field order of its input type, which sorting the schema changes)."""
    from graphql import is_specified_directive
    CANON_DEFAULTS[0] = canon_defaults
    DEFAULT_TEXT[0] = default_text
    try:
        return _encode_schema(schema, all_types)
    finally:
        CANON_DEFAULTS[0] = False
        DEFAULT_TEXT[0] = False


def _encode_schema(schema, all_types):
    from graphql import is_specified_directive
    root = lambda t: None if t is None else t.name
    types = [t for n, t in schema.type_map.items() if all_types or not is_std_type_name(n)]
    dirs = [d for d in schema.directives if all_types or not is_specified_directive(d)]
    out = w_opt(schema.description) + w_opt(root(schema.query_type)) + w_opt(root(schema.mutation_type)) \
        + w_opt(root(schema.subscription_type)) + [len(types)]
    for t in types:
        if is_std_type_name(t.name) and not CANON_DEFAULTS[0]:
            c = _STD_CACHE.get((id(t), DEFAULT_TEXT[0]))
            if c is None:
                c = _STD_CACHE[(id(t), DEFAULT_TEXT[0])] = (t, w_type(t))
            out += c[1]
        else:
            out += w_type(t)
    out.append(len(dirs))
    for d in dirs:
        out += w_directive(d)
    return out


_STD_CACHE = {}


# --------------------------------------------------------------------------- wire decoding (model answers)


class Reader:
    def __init__(self, l, i=0):
        self.l, self.i = l, i

    def n(self):
        v = self.l[self.i]
        self.i += 1
        return v

    def text(self):
        k = self.n()
        s = "".join(chr(c) for c in self.l[self.i:self.i + k])
        self.i += k
        return s

    def opt(self):
        return self.text() if self.n() else None

    def done(self):
        return self.i == len(self.l)


# --------------------------------------------------------------------------- SDL AST -> wire (definition lists)


def _w_tref_ast(node):
    k = node.kind
    if k == "list_type":
        return [1] + _w_tref_ast(node.type)
    if k == "non_null_type":
        return [2] + _w_tref_ast(node.type)
    return [0] + w_text(node.name.value)


def _desc_ast(node):
    d = getattr(node, "description", None)
    return w_opt(None if d is None else d.value)


def _w_input_value_ast(node, depr):
    return (w_text(node.name.value) + _w_tref_ast(node.type)
            + ([0] if node.default_value is None else [1] + w_value(node.default_value))
            + _desc_ast(node) + w_opt(depr(node)))


def _w_inputs_ast(nodes, depr):
    nodes = nodes or ()
    out = [len(nodes)]
    for n in nodes:
        out += _w_input_value_ast(n, depr)
    return out


SPECIFIED_NAMES = ("skip", "include", "deprecated", "specifiedBy", "oneOf")


def w_defs(document, drop_specified=False):
    """Parsed SDL document -> wire list of definitions (the model's `definition` type).
    drop_specified: leave out definitions of directives carrying a specified name (the schema encoding used with it
    leaves those directives out as well: the implementation passes them through unmapped and never prints them)."""
    if drop_specified:
        keep = [d for d in document.definitions
                if not (d.kind == "directive_definition" and d.name.value in SPECIFIED_NAMES)]
        if len(keep) != len(document.definitions):
            class _Doc:
                definitions = keep
            document = _Doc
    from graphql.utilities.extend_schema import get_deprecation_reason as depr, get_specified_by_url, is_one_of
    opk = {"query": 0, "mutation": 1, "subscription": 2}
    out = [len(document.definitions)]
    for d in document.definitions:
        k = d.kind
        if k in ("schema_definition", "schema_extension"):
            ops = d.operation_types or ()
            out += ([0] + _desc_ast(d) if k == "schema_definition" else [1]) + [len(ops)]
            for o in ops:
                out += [opk[o.operation.value]] + w_text(o.type.name.value)
        elif k == "directive_definition":
            out += [2] + w_text(d.name.value) + _desc_ast(d) + _w_inputs_ast(d.arguments, depr) + [len(d.locations)]
            for l in d.locations:
                out += w_text(l.value)
            out += [1 if d.repeatable else 0] + w_opt(depr(d))
        elif k.endswith("_type_definition") or k.endswith("_type_extension"):
            ext = k.endswith("_type_extension")
            base = k.rsplit("_type_", 1)[0]
            kind = {"scalar": 0, "object": 1, "interface": 2, "union": 3, "enum": 4, "input_object": 5}[base]
            out += [4 if ext else 3, kind] + w_text(d.name.value) + (w_opt(None) if ext else _desc_ast(d))
            if kind in (1, 2):
                fs = d.fields or ()
                out.append(len(fs))
                for f in fs:
                    out += (w_text(f.name.value) + _w_inputs_ast(f.arguments, depr) + _w_tref_ast(f.type)
                            + _desc_ast(f) + w_opt(depr(f)))
                ifs = d.interfaces or ()
                out.append(len(ifs))
                for i in ifs:
                    out += w_text(i.name.value)
            else:
                out += [0, 0]
            if kind == 3:
                ms = d.types or ()
                out.append(len(ms))
                for m in ms:
                    out += w_text(m.name.value)
            else:
                out.append(0)
            if kind == 4:
                vs = d.values or ()
                out.append(len(vs))
                for v in vs:
                    out += w_text(v.name.value) + _desc_ast(v) + w_opt(depr(v))
            else:
                out.append(0)
            out += _w_inputs_ast(d.fields, depr) if kind == 5 else [0]
            out += w_opt(get_specified_by_url(d) if kind == 0 else None)
            out.append(1 if kind == 5 and not ext and is_one_of(d) else 0)
        else:
            out.append(5)
    return out


# --------------------------------------------------------------------------- JSON <-> wire


def w_json(j):
    if j is None:
        return [0]
    if isinstance(j, bool):
        return [1, 1 if j else 0]
    if isinstance(j, str):
        return [2] + w_text(j)
    if isinstance(j, (list, tuple)):
        out = [3, len(j)]
        for x in j:
            out += w_json(x)
        return out
    if isinstance(j, dict):
        out = [4, len(j)]
        for k, v in j.items():
            out += w_text(k) + w_json(v)
        return out
    raise TypeError(f"not a JSON value of the introspection result: {j!r}")


def r_json(r):
    t = r.n()
    if t == 0:
        return None
    if t == 1:
        return bool(r.n())
    if t == 2:
        return r.text()
    if t == 3:
        return [r_json(r) for _ in range(r.n())]
    out = {}
    for _ in range(r.n()):
        k = r.text()
        out[k] = r_json(r)
    return out


# --------------------------------------------------------------------------- default-value representation probes


def representation_probes():
    """Minimal programmatic schemas whose default values use every Python representation the scalars accept
    (integral floats for Int, ints for Float/ID, numeric strings for ID, tuples for lists, dicts in another key
    order), at every nesting: argument, list, input-object field, input field default, directive argument;
    each given as GraphQLDefaultInput(value=...) and as the legacy default_value.  -> [(key, schema)]"""
    from graphql import (DirectiveLocation, GraphQLArgument, GraphQLBoolean, GraphQLDirective, GraphQLField,
                         GraphQLFloat, GraphQLID, GraphQLInputField, GraphQLInputObjectType, GraphQLInt, GraphQLList,
                         GraphQLNonNull, GraphQLObjectType, GraphQLSchema, GraphQLString, specified_directives)
    from graphql.type import GraphQLDefaultInput
    out = []

    def kw(style, v):
        return {"default": GraphQLDefaultInput(value=v)} if style == "value" else {"default_value": v}

    simple = [(GraphQLInt, v) for v in [100.0, 2e3, -7.0, -0.0, 0.0, 2147483647.0]] \
        + [(GraphQLFloat, v) for v in [3, -2, 0, 10 ** 15]] \
        + [(GraphQLID, v) for v in [7, -3, 12.0, "12", "-0", "1e3"]] \
        + [(GraphQLBoolean, v) for v in [True, False]] \
        + [(GraphQLList(GraphQLInt), v) for v in [(1, 2.0), [3.0], 5.0, (), (None, 4.0)]] \
        + [(GraphQLList(GraphQLNonNull(GraphQLID)), v) for v in [("1", 2, 3.0), 9]] \
        + [(GraphQLList(GraphQLList(GraphQLFloat)), v) for v in [((1, 2.5), [3]), [(4,)]]] \
        + [(GraphQLNonNull(GraphQLInt), 8.0)]
    for style in ("value", "legacy"):
        for ty, v in simple:
            q = GraphQLObjectType("Query", {"f": GraphQLField(GraphQLInt, args={"a": GraphQLArgument(ty, **kw(style, v))})})
            out.append((f"repr-probe:{ty}:{v!r}:{style}", GraphQLSchema(q)))
        # nested: input object fields, input field defaults, list of input objects, directive arguments
        inp = GraphQLInputObjectType("In", lambda style=style: {
            "i": GraphQLInputField(GraphQLInt, **kw(style, 5.0)),
            "l": GraphQLInputField(GraphQLList(GraphQLNonNull(GraphQLInt)), **kw(style, (1.0, 2))),
            "f": GraphQLInputField(GraphQLFloat, **kw(style, 2)),
            "id": GraphQLInputField(GraphQLID, **kw(style, 7)),
            "n": GraphQLInputField(inp),
            "s": GraphQLInputField(GraphQLString)})
        obj_default = {"s": "x", "n": {"i": 4.0, "l": (6.0,)}, "id": 12, "f": 3, "l": (1.0, 2), "i": 3.0}
        list_default = ({"i": 1.0}, {"id": "8", "f": -1}, {"l": [2.0, 3]})
        q = GraphQLObjectType("Query", {"f": GraphQLField(GraphQLInt, args={
            "o": GraphQLArgument(inp, **kw(style, obj_default)),
            "os": GraphQLArgument(GraphQLList(inp), **kw(style, list_default)),
            "single": GraphQLArgument(GraphQLList(inp), **kw(style, {"i": 9.0}))})})
        d = GraphQLDirective("d", [DirectiveLocation.FIELD], args={
            "a": GraphQLArgument(GraphQLInt, **kw(style, 100.0)),
            "b": GraphQLArgument(inp, **kw(style, {"l": (7.0,), "i": 1.0})),
            "c": GraphQLArgument(GraphQLList(GraphQLInt), **kw(style, (1.0, 2.0)))})
        out.append((f"repr-probe:nested:{style}", GraphQLSchema(q, directives=list(specified_directives) + [d])))
    out += shared_default_probes()
    out += member_probes()
    return out


def member_probes():
    """Input-object default VALUES with explicit null members (with / without a member default, nested, in lists)
    and values that omit members carrying their own default (nullable and non-null) - on arguments, input field
    defaults and directive arguments."""
    from graphql import (DirectiveLocation, GraphQLArgument, GraphQLDirective, GraphQLField, GraphQLInputField,
                         GraphQLInputObjectType, GraphQLInt, GraphQLList, GraphQLNonNull, GraphQLObjectType,
                         GraphQLSchema, GraphQLString, specified_directives)
    from graphql.type import GraphQLDefaultInput
    out = []
    values = [("null-member-with-default", {"limit": None}),
              ("null-member-without-default", {"name": None}),
              ("null-members", {"limit": None, "name": None, "req": 7}),
              ("nested-null-member", {"sub": {"limit": None, "sub": {"name": None}}}),
              ("null-members-in-list", [{"limit": None}, {}, {"name": None, "limit": 3}]),
              ("omits-defaulted-nonnull", {"name": "x"}),
              ("omits-everything", {}),
              ("nested-omits", {"sub": {}, "limit": 2}),
              ("list-omits", [{}, {"req": 1}]),
              ("null-sub", {"sub": None})]
    for tag, v in values:
        for style in ("value", "legacy"):
            kw = (lambda x: {"default": GraphQLDefaultInput(value=x)}) if style == "value" \
                else (lambda x: {"default_value": x})
            inp = GraphQLInputObjectType("In", lambda: {
                "limit": GraphQLInputField(GraphQLInt, **kw(10)),
                "name": GraphQLInputField(GraphQLString),
                "req": GraphQLInputField(GraphQLNonNull(GraphQLInt), **kw(5)),
                "sub": GraphQLInputField(inp)})
            ty = GraphQLList(inp) if isinstance(v, list) else inp
            holder = GraphQLInputObjectType("Holder", {"h": GraphQLInputField(ty, **kw(v))})
            d = GraphQLDirective("d", [DirectiveLocation.FIELD], args={"a": GraphQLArgument(ty, **kw(v))})
            q = GraphQLObjectType("Query", {"f": GraphQLField(GraphQLInt, args={
                "a": GraphQLArgument(ty, **kw(v)), "h": GraphQLArgument(holder)})})
            out.append((f"member-probe:{tag}:{style}", GraphQLSchema(q, directives=list(specified_directives) + [d])))
    return out


def shared_default_probes():
    """ONE GraphQLDefaultInput(value=...) object reused on inputs of different types (the literal of a default
    depends on the type of the input it sits on): both print orders, and with a history (the same default object was
    already printed and introspected as part of another schema, on an input of the other type)."""
    from graphql import (GraphQLArgument, GraphQLEnumType, GraphQLField, GraphQLFloat, GraphQLID, GraphQLInputField,
                         GraphQLInputObjectType, GraphQLInt, GraphQLList, GraphQLObjectType, GraphQLSchema,
                         GraphQLString, print_schema)
    from graphql.type import GraphQLDefaultInput
    from graphql.utilities import introspection_from_schema
    enum = GraphQLEnumType("E", {"NAME": "NAME", "OTHER": "OTHER"})
    in1 = GraphQLInputObjectType("In1", {"x": GraphQLInputField(GraphQLID), "y": GraphQLInputField(GraphQLFloat)})
    in2 = GraphQLInputObjectType("In2", {"y": GraphQLInputField(GraphQLInt), "x": GraphQLInputField(GraphQLString)})
    pairs = [("enum-string", enum, GraphQLString, "NAME"),
             ("float-int", GraphQLFloat, GraphQLInt, 1.0),
             ("id-string", GraphQLID, GraphQLString, "123"),
             ("idlist-stringlist", GraphQLList(GraphQLID), GraphQLList(GraphQLString), ("1", "2")),
             ("list-scalar", GraphQLList(GraphQLID), GraphQLString, "7"),
             ("input-objects", in1, in2, {"x": "12", "y": 3})]

    def schema(args):
        return GraphQLSchema(GraphQLObjectType("Query", {"f": GraphQLField(GraphQLInt, args=args)}))

    out = []
    for name, ta, tb, v in pairs:
        for order in ("ab", "ba"):
            d = GraphQLDefaultInput(value=v)
            args = {"a": GraphQLArgument(ta, default=d), "b": GraphQLArgument(tb, default=d)}
            if order == "ba":
                args = {"b": args["b"], "a": args["a"]}
            out.append((f"shared-default-probe:{name}:{order}", schema(args)))
        for first, second, tag in ((ta, tb, "history-a-then-b"), (tb, ta, "history-b-then-a")):
            d = GraphQLDefaultInput(value=v)
            try:   # history: the default object has been printed and introspected on an input of the other type
                earlier = schema({"z": GraphQLArgument(first, default=d)})
                print_schema(earlier)
                introspection_from_schema(earlier)
            except Exception:  # noqa: BLE001  (what the history does is not what this probe judges)
                pass
            out.append((f"shared-default-probe:{name}:{tag}", schema({"a": GraphQLArgument(second, default=d)})))
    return out


# --------------------------------------------------------------------------- class / directive-set probes


def class_probes():
    """Minimal schemas (a) whose types, wrappers, fields and directives are instances of trivial SUBCLASSES of the
    library classes, one kind at a time and all together; (b) that list the incremental-delivery directives
    @defer / @stream (the library's objects, or their own SDL definitions).  -> [(key, schema)]"""
    from graphql import (DirectiveLocation, GraphQLArgument, GraphQLDeferDirective, GraphQLDirective, GraphQLEnumType,
                         GraphQLEnumValue, GraphQLField, GraphQLInputField, GraphQLInputObjectType, GraphQLInt,
                         GraphQLInterfaceType, GraphQLList, GraphQLNonNull, GraphQLObjectType, GraphQLScalarType,
                         GraphQLSchema, GraphQLStreamDirective, GraphQLString, GraphQLUnionType, build_schema,
                         specified_directives)
    base = {c.__name__: c for c in (GraphQLScalarType, GraphQLObjectType, GraphQLInterfaceType, GraphQLUnionType,
                                    GraphQLEnumType, GraphQLInputObjectType, GraphQLList, GraphQLNonNull, GraphQLField,
                                    GraphQLArgument, GraphQLInputField, GraphQLEnumValue, GraphQLDirective)}

    def make(subs):
        C = {n: (trivial_subclass(c) if n in subs else c) for n, c in base.items()}
        sc = C["GraphQLScalarType"]("DateTime", description="a scalar", specified_by_url="https://x/dt")
        en = C["GraphQLEnumType"]("Color", {"RED": C["GraphQLEnumValue"]("RED"), "BLUE": C["GraphQLEnumValue"]("BLUE")})
        inp = C["GraphQLInputObjectType"]("Filter", {
            "c": C["GraphQLInputField"](C["GraphQLList"](C["GraphQLNonNull"](en))),
            "d": C["GraphQLInputField"](sc)})
        iface = C["GraphQLInterfaceType"]("Node", {"id": C["GraphQLField"](C["GraphQLNonNull"](GraphQLString))})
        obj = C["GraphQLObjectType"]("Item", {"id": C["GraphQLField"](C["GraphQLNonNull"](GraphQLString)),
                                              "at": C["GraphQLField"](sc)}, interfaces=[iface])
        un = C["GraphQLUnionType"]("Any", [obj])
        q = C["GraphQLObjectType"]("Query", {
            "items": C["GraphQLField"](C["GraphQLList"](un), args={"f": C["GraphQLArgument"](inp)}),
            "node": C["GraphQLField"](iface), "n": C["GraphQLField"](GraphQLInt)})
        d = C["GraphQLDirective"]("tag", [DirectiveLocation.FIELD], args={"c": C["GraphQLArgument"](en)})
        return GraphQLSchema(q, types=[obj], directives=list(specified_directives) + [d])

    out = [(f"subclass-probe:{n}", make({n})) for n in base]
    out.append(("subclass-probe:all", make(set(base))))
    q = lambda: GraphQLObjectType("Query", {"a": GraphQLField(GraphQLList(GraphQLInt))})
    out.append(("incremental-probe:listed", GraphQLSchema(
        q(), directives=[*specified_directives, GraphQLDeferDirective, GraphQLStreamDirective])))
    out.append(("incremental-probe:listed-first", GraphQLSchema(
        q(), directives=[GraphQLStreamDirective, GraphQLDeferDirective, *specified_directives])))
    out.append(("incremental-probe:only-defer", GraphQLSchema(q(), directives=[*specified_directives, GraphQLDeferDirective])))
    out.append(("incremental-probe:sdl", build_schema(
        '"own defer"\ndirective @defer(if: Boolean! = true, label: String) on FRAGMENT_SPREAD | INLINE_FRAGMENT\n'
        'directive @stream(if: Boolean! = true, label: String, initialCount: Int = 0) on FIELD\n'
        'type Query { a: [Int] }')))
    return out
