"""C09 - ignored tokens are ignored: token stream = grammar's, layout never changes the AST."""
from __future__ import annotations

import json

from . import common, gen_doc, lexcorr
from .astutil import norm, parse_opts
from .common import Check, Model, cps

ASSUMPTIONS = [
    "C09 model: Lang/Lexer.v written from the lexical grammar of the specification; theorems: lex_total/spans/ordered (Properties/C09.v); character-class tables regenerated from the implementation and proved equal to the spec's (Gen/TableChecks.v)",
    "parser model (Lang/Parser.v): layout independence and the token limit are theorems; insertion of ignored sequences into real documents is additionally checked metamorphically",
    *__import__("harness.cstrip", fromlist=["ASSUMPTIONS"]).ASSUMPTIONS,
]


def parse_or_err(text, **kw):
    from graphql import parse
    from graphql.error import GraphQLSyntaxError
    try:
        return ("ok", parse(text, **kw))
    except GraphQLSyntaxError as e:
        return ("syntax", e.positions[0] if e.positions else None)
    except RecursionError:
        return ("recursion", None)
    except Exception as e:  # noqa: BLE001
        return ("raised", type(e).__name__)


def sig_tokens(text):
    """Significant tokens (kind, value) of a source, or None if it does not lex."""
    enc = lexcorr.impl_lex(text)
    if enc[0] != 0:
        return None
    return [(k, v) for (k, s, e, ln, c, v) in lexcorr.decode_tokens(enc) if k != 22]


def run(tier):
    from graphql.utilities import strip_ignored_characters
    from graphql.error import GraphQLSyntaxError

    ck = Check("C09", tier)
    ck.assumptions += ASSUMPTIONS
    br = common.build("C09", models=("lang", "parser", "strip"), extra_targets=("theories/Properties/C09strip.vo",))
    ck.proofs(br, extra_files=("C09strip",))
    if not br.ok:
        # tables changed or a proof broke: search the implementation for a failing input below
        m = None
    else:
        m = Model()
    quick = tier == "quick"
    n = 4 if quick else 5
    ck.rule = (f"(A) all strings of length <= {n} over the 16-symbol lexical alphabet {lexcorr.LEX_ALPHA16!r} and "
               "mutated/generated sources: implementation Lexer vs extracted grammar model (kinds, spans, values, "
               "line/column, reject position); (B) generated documents x random ignored-sequence insertion at every "
               "boundary and stripping: parse trees equal, strip idempotent, significant tokens preserved, reject stays "
               "reject; (C) max_tokens = n-1, n, n+1 against token_count. non-trivial = at least 3 tokens or a "
               "rejection after a non-empty accepted prefix")
    rng = ck.rng
    # ---- (A) lexer vs grammar model
    strs = ["".join(s) for s in common.strings_upto(lexcorr.LEX_ALPHA16, n)]
    for c in common.load_corpus("C09"):
        strs.insert(0, c["body"])
    extra = []
    fx = gen_doc.fixtures()
    subs = list('"\\u{}#\n\r.e-0x \ud800\udc00\U0001F600') + ['"""', "\\u{1F600}", "\\uD83D\\uDE00", "\ufeff"]
    for f in fx:
        extra.append(f)
        for _ in range(150 if quick else 1500):
            i = rng.randrange(len(f))
            k = rng.random()
            if k < 0.4:
                extra.append(f[:i])
            elif k < 0.8:
                extra.append(f[:i] + rng.choice(subs) + f[i + 1:])
            else:
                extra.append(f[:i] + rng.choice(subs) + f[i:])
    # string/escape/block-string heavy sources
    esc_alpha = ['"', "\\", "u", "{", "}", "D", "8", "0", "C", "n", "\n", " ", "\ud83d", "\ude00", "a"]
    for _ in range(2000 if quick else 30000):
        k = rng.randint(1, 14)
        body = "".join(rng.choice(esc_alpha) for _ in range(k))
        extra.append(rng.choice(['"', '"""', '""" ', '"\\u', '"\\u{', '"\\uD83D\\u']) + body)
    docs = []
    for i in range(300 if quick else 4000):
        exp = i % 3 == 0
        g = gen_doc.Gen(rng, depth=2, experimental=exp)
        lx = g.document()
        docs.append((lx, exp))
        extra.append(gen_doc.join_random(lx, rng))
    if m is not None:
        lexcorr.compare(ck, m, strs, relation="tokens = the specification's lexical grammar")
        lexcorr.compare(ck, m, extra, relation="tokens = the specification's lexical grammar", key_prefix="lexgen")
        lexcorr.compare(ck, m, lexcorr.escape_family(rng, 0 if quick else 40),
                        relation="tokens = the specification's lexical grammar", key_prefix="lexesc")
        ck.exhaustive = True
    ck.samples.append({"source": strs[len(strs) // 3]})
    ck.samples.append({"source": extra[-1][:200]})

    # ---- (B) layout rewrites on documents
    for lx, exp in docs:
        opts = parse_opts(exp)
        t0 = gen_doc.join_min(lx)
        r0 = parse_or_err(t0, **opts)
        variants = [gen_doc.join_random(lx, rng, p) for p in (0.3, 0.9)]
        key = f"layout:{t0!r}"
        ck.note_case(("doc", t0), nontrivial=len(lx) >= 3)
        s0 = sig_tokens(t0)
        for tv in variants:
            rv = parse_or_err(tv, **opts)
            if r0[0] != rv[0] or (r0[0] == "ok" and norm(r0[1]) != norm(rv[1])):
                ck.violation(key, f"inserting ignored characters changed the parse result of {t0!r}",
                             {"relation": "parse(s) == parse(rewrite(s))", "source": t0, "variant": tv,
                              "impl": [r0[0], rv[0]]})
            if sig_tokens(tv) != s0:
                ck.violation(key, f"inserting ignored characters changed the significant tokens of {t0!r}",
                             {"relation": "sig(lex(s)) == sig(lex(rewrite(s)))", "source": t0, "variant": tv})
            # stripping
            try:
                st = strip_ignored_characters(tv)
            except GraphQLSyntaxError:
                st = None
            except Exception as e:  # noqa: BLE001
                ck.violation(key, f"strip_ignored_characters raised {type(e).__name__} on {tv!r}",
                             {"relation": "strip total", "source": tv})
                continue
            if (st is None) != (s0 is None):
                ck.violation(key, f"strip accepts/rejects differently from the lexer on {tv!r}",
                             {"relation": "unlexable stays unlexable", "source": tv})
                continue
            if st is None:
                continue
            if sig_tokens(st) != s0:
                ck.violation(key, f"stripping changed the significant tokens of {tv!r}",
                             {"relation": "sig(lex(strip s)) == sig(lex s)", "source": tv, "stripped": st})
            if strip_ignored_characters(st) != st:
                ck.violation(key, f"strip is not idempotent on {tv!r}",
                             {"relation": "strip(strip s) == strip s", "source": tv, "stripped": st})
            rs = parse_or_err(st, **opts)
            if rs[0] != r0[0] or (r0[0] == "ok" and norm(rs[1]) != norm(r0[1])):
                ck.violation(key, f"stripping changed the parse result of {tv!r}",
                             {"relation": "parse(strip s) == parse(s)", "source": tv, "stripped": st})
        # ---- (C) token limit
        if r0[0] == "ok" and s0 is not None:
            ntok = len(s0) - 1  # without EOF
            tc = getattr(r0[1], "token_count", None)
            if tc != ntok:
                ck.violation(f"token_count:{t0!r}", f"token_count={tc} but the document has {ntok} tokens: {t0!r}",
                             {"relation": "token_count = number of tokens", "source": t0, "impl": tc, "model": ntok})
            for lim in (ntok - 1, ntok, ntok + 1):
                if lim < 0:
                    continue
                rl = parse_or_err(variants[0], max_tokens=lim, **opts)
                want = "ok" if ntok <= lim else "syntax"
                if rl[0] != want:
                    ck.violation(f"max_tokens:{t0!r}:{lim - ntok}",
                                 f"max_tokens={lim} on a document of {ntok} tokens gave {rl[0]}, expected {want}",
                                 {"relation": "limit n accepts exactly documents with <= n tokens", "source": variants[0],
                                  "limit": lim, "tokens": ntok, "impl": rl[0]})
            ck.count("token_limit_docs")
        ck.count("layout_docs")
    # block strings: every raw content over a small alphabet, stripped (minimized printing)
    import itertools
    balpha = ["a", " ", "\n", "\t", '"', "\\", "\r"]
    nblk = 0
    raws = itertools.chain(common.strings_upto(balpha[:3] + balpha[4:6], 6 if quick else 8),
                           common.strings_upto(balpha, 4 if quick else 6))
    for raw in raws:
        src = '"""' + "".join(raw) + '""" a'
        s0 = sig_tokens(src)
        if s0 is None:
            continue
        nblk += 1
        ck.note_case(("blk", src), nontrivial=len(raw) >= 2)
        try:
            st = strip_ignored_characters(src)
            ok = sig_tokens(st) == s0 and strip_ignored_characters(st) == st
        except Exception as e:  # noqa: BLE001
            st, ok = f"raised {type(e).__name__}", False
        if not ok:
            ck.violation(f"strip-block:{src!r}", f"stripping {src!r} gives {st!r}: tokens not preserved or not idempotent",
                         {"relation": "sig(lex(strip s)) == sig(lex s) and strip idempotent", "source": src, "stripped": st})
    ck.count("block_string_strips", nblk)
    # strip on short exhaustive strings (rejects stay rejects, idempotent)
    for s in strs if not quick else strs[:20000]:
        s0 = sig_tokens(s)
        try:
            st = strip_ignored_characters(s)
        except GraphQLSyntaxError:
            st = None
        except Exception as e:  # noqa: BLE001
            ck.violation(f"strip:{s!r}", f"strip_ignored_characters raised {type(e).__name__} on {s!r}",
                         {"relation": "strip total", "source": s})
            continue
        ck.evaluations += 1
        if (st is None) != (s0 is None):
            ck.violation(f"strip:{s!r}", f"strip accepts/rejects differently from the lexer on {s!r}",
                         {"relation": "unlexable stays unlexable", "source": s})
        elif st is not None:
            if sig_tokens(st) != s0 or strip_ignored_characters(st) != st:
                ck.violation(f"strip:{s!r}", f"strip not token-preserving/idempotent on {s!r}",
                             {"relation": "strip laws", "source": s, "stripped": st})
    if m is not None:
        # parser model (layout independence, token limit theorems) vs the implementation: token-alphabet
        # sequences and generated documents incl. max_tokens n-1/n/n+1 and token_count
        from . import cparser
        rule0 = ck.rule
        cparser.core(ck, tier, ("B", "D"))
        ck.rule = rule0 + " (D) parser model correspondence: see coverage.parser_rule"
    from . import cstrip
    rule1 = ck.rule
    cstrip.core(ck, tier, m is not None)
    ck.extra["strip_rule"] = ck.rule
    ck.rule = rule1 + " (E) strip_ignored_characters vs the model Lang/Strip.v: see coverage.strip_rule"
    return ck.finish()


def replay(path):
    d = json.loads(open(path).read())
    print(json.dumps(d, indent=1)[:3000])
    if "body" in d:
        print("impl now:", lexcorr.describe(lexcorr.impl_lex(common.from_cps(d["body"]))))
    return 0
