"""CVISITM - the explicit-stack loop of visit(): implementation vs the Coq machine Lang/VisitMachine.v.

Theorems: coq/theories/Properties/C11mach.v (the machine refines the recursive model Lang/Visit.v for
every visitor; step bound; no-edit identity, enter/leave order and parallel projection on the machine).
Correspondence: the extracted machine (`visitm`) against the real visit()/ParallelVisitor on the
generated ASTs x scripted visitors of harness/c11.py (same generator and encoder functions, same wire
format as ops 20/21): call logs (phase, node, key, path, #ancestors, decision), returned value (root
identity / REMOVE / edited tree / tuple), per-visitor call sequences under ParallelVisitor; plus the
extracted machine against the extracted recursive model on every case (op 22, the theorem's instance).
"""
from __future__ import annotations

import json
import re

from . import c11, common, gen_doc
from .astutil import parse_opts
from .common import Check, Model

PID = "CVISITM"
THMS = "C11mach"
MODEL = "visitm"

ASSUMPTIONS = [
    "machine model: Lang/VisitMachine.v, one `step` per iteration of the `while True` loop of visitor.py "
    "(Stack frames, idx, len(keys), edits, in_array, node, key, parent, path, ancestors); `keys` is kept as its "
    "length only (the idx-th key name of a node is idx in the generic tree type); Python exceptions are the outcome Stuck",
    "visitor method dispatch by name (enter_field vs enter) is Python reflection and not modelled; the scripted "
    "visitors define both enter and leave (visit_fn is never None)",
    "nodes are identified by (kind, loc.start, loc.end); replacement subtrees carry synthetic locations and are "
    "never themselves scripted (a script that re-replaces inside its own replacement makes the real loop run forever)",
    "the value returned after a BREAK that follows an edit is not fixed by C11; the machine models it (last edit of "
    "the level broken in, else root) and disagreements there are counted (break_value_mismatch), not reported as violations",
]


# --------------------------------------------------------------------------- proofs accounting

def account_proofs(ck, br):
    f = common.COQ / "theories" / "Properties" / f"{THMS}.v"
    ck.checker_cmd = ("cd /verif/coq && coq_makefile -f _CoqProject <all theories/*.v> -o Makefile && make -j16 "
                      f"theories/Properties/{THMS}.vo theories/Extract/ExtractVisitm.vo && "
                      f"coqc -Q theories GV theories/Properties/{THMS}.v")
    deps = common.dep_closure([f"Properties/{THMS}.v", "Extract/ExtractVisitm.v"])
    ck.extra["coq_files"] = deps
    bad = common.scan_forbidden(deps)
    if bad:
        ck.proof_breaks.append("forbidden construct: " + "; ".join(bad[:5]))
    names = re.findall(r"^\s*(?:Theorem|Lemma|Corollary)\s+(\w+)", f.read_text(), re.M) if f.exists() else []
    ck.theorems = names
    ck.obligations = len(names)
    ck.partial = [n for n in names if n.endswith("_partial")]
    if not br.ok:
        ck.proof_breaks.append(f"build failed at {br.failed_file}: " + br.log[-800:])
        return False
    ok, names2, assumptions, out = common.check_property_file(THMS, timeout=900)
    ck.print_assumptions = assumptions
    if ok and len(assumptions) == len(names2):
        ck.discharged = len(names2)
        for n, a in zip(names2, assumptions):
            if not a.startswith("Closed under"):
                ck.proof_breaks.append(f"{n} depends on axioms: {a}")
    else:
        ck.proof_breaks.append(f"coqc Properties/{THMS}.v failed: " + out[-800:])
    return ok


# --------------------------------------------------------------------------- machine answers

def decode_machine(out):
    """-> dict(status, broke, res=(tag, payload), log, subs)."""
    if len(out) == 1 and out[0] in (3, 4):
        return {"status": "out_of_steps" if out[0] == 3 else "raised"}
    if out and out[0] >= 999990:
        return {"status": f"undecodable({out[0]})"}
    broke, i = out[0], 1
    if out[i] == 1:
        res, i = ("root", None), i + 1
    elif out[i + 1] == 0:
        res, i = ("removed", None), i + 2
    elif out[i + 1] == 1:
        j = c11.tree_end(out, i + 2)
        res, i = ("edit", out[i + 2:j]), j
    else:
        n, j = out[i + 2], i + 3
        for _ in range(n):
            j = c11.tree_end(out, j)
        res, i = ("tuple", [n] + out[i + 3:j]), j
    _, log, subs = c11.decode_model([1] + out[i:])
    return {"status": "ok", "broke": bool(broke), "res": res, "log": log, "subs": subs}


def step_budget(case):
    """every wire int pays for at least one loop iteration (3 per node, 1 per absent/single slot, 2 per
    array vs. 2 iterations per node, 1 per absent slot, 2 per array), replacements included"""
    return len(case) + 8


def enc_value(res, ids, kc, keys):
    """implementation return value -> the machine's result encoding"""
    from graphql.language import REMOVE, Node
    if res is REMOVE or res is None or res is Ellipsis:
        return ("removed", None)
    if isinstance(res, Node):
        return ("edit", c11.to_tree(res, ids, kc, keys))
    if isinstance(res, (tuple, list)):
        out = [len(res)]
        for c in res:
            out += c11.to_tree(c, ids, kc, keys)
        return ("tuple", out)
    return ("other", type(res).__name__)


# --------------------------------------------------------------------------- case generation (c11's functions)

def generate(ck, tier, kc, keys):
    """The case families of harness/c11.py: -> (cases, meta); cases are ops 20/21 wire lists, meta is
    (mode, root, ids, script(s))."""
    from graphql.language import parse, parse_type, parse_value
    rng = ck.rng
    quick = tier == "quick"
    counter = [0]
    snippets = [parse("{ r1 r2 { r3 } }").definitions[0].selection_set.selections[1],
                parse("{ q(a: [1, {b: $c}]) }").definitions[0].selection_set.selections[0],
                parse_value("[1, {k: ENUM}]"), parse_type("[T!]"),
                parse("type R { f(a: Int = 1): [S] @d }").definitions[0]]
    repl_pool = [c11.retag(s, keys, counter) for s in snippets]
    roots = []
    for i in range(150 if quick else 2500):
        exp = i % 3 == 0
        g = gen_doc.Gen(rng, depth=2, experimental=exp)
        try:
            roots.append(parse(gen_doc.join_min(g.document()), **parse_opts(exp)))
        except Exception:  # noqa: BLE001
            ck.count("skipped_out_of_fragment")
    for f in gen_doc.fixtures():
        roots.append(parse(f))
    roots += [parse_value('[1, {a: "x", b: [$v, null]}]'), parse_type("[[T!]!]"), parse("{ a }"),
              parse("{ a b c }"), parse("query ($v: [Int] = [1, 2, 3]) { f(x: $v) @d(y: {k: [$v]}) }")]
    cases, meta = [], []
    for root in roots:
        ids = c11.Ids()
        tree = c11.to_tree(root, ids, kc, keys)
        nodes = c11.all_nodes(root, keys, [])
        nscripts = 5 if len(nodes) < 400 else 2
        for j in range(nscripts):
            if j == 0:
                sc = []
            elif j == 1:
                a = rng.choice([1, 2, 3, 4])
                sc = [(ids.of(root), rng.randint(0, 1), a, rng.choice(repl_pool) if a == 4 else None)]
            elif j == 4:
                sc = c11.make_script(rng, nodes, ids, repl_pool, editing=True, density=0.9)
            else:
                sc = c11.make_script(rng, nodes, ids, repl_pool, editing=True)
            cases.append([20, c11.FUEL] + tree + c11.enc_script(sc, ids, kc, keys))
            meta.append(("solo", root, ids, sc))
        for j in range(2):
            scs = [c11.make_script(rng, nodes, ids, repl_pool, editing=False) for _ in range(rng.randint(2, 4))]
            enc = [len(scs)]
            for sc in scs:
                enc += c11.enc_script(sc, ids, kc, keys)
            cases.append([21, c11.FUEL] + tree + enc)
            meta.append(("par", root, ids, scs))
    ck.count("machine_roots", len(roots))
    return cases, meta


def run_parallel_impl(root, scs, ids):
    """Real visit(root, ParallelVisitor(scripted non-editing visitors)) -> (status, result, per-visitor logs)."""
    from graphql.language import BREAK, SKIP, ParallelVisitor, Visitor, visit
    logs = [[] for _ in scs]

    def mk(i, table):
        def h(ph):
            def fn(self, node, *a):
                nid = ids.of(node)
                logs[i].append([ph, nid])
                return [None, SKIP, BREAK][table.get((nid, ph), 0)]
            return fn
        return type("V", (Visitor,), {"enter": h(0), "leave": h(1)})()
    tables = [{(i, ph): a for (i, ph, a, _) in reversed(s)} for s in scs]
    try:
        res = visit(root, ParallelVisitor([mk(i, t) for i, t in enumerate(tables)]))
    except Exception as e:  # noqa: BLE001
        return "raised", type(e).__name__, logs
    return "ok", res, logs


# --------------------------------------------------------------------------- the check

def run(tier):
    ck = Check(PID, tier)
    ck.assumptions += ASSUMPTIONS
    br = common.build(PID, models=(MODEL,), extra_targets=(f"theories/Properties/{THMS}.vo",))
    account_proofs(ck, br)
    core(ck, tier, br.ok)
    return ck.finish()


def core(ck, tier, model_ok, cases=None, meta=None):
    """Machine correspondence, reporting into `ck` (used by ./check CVISITM and as the machine part of
    ./check C11, which passes the cases/meta it generated itself)."""
    if not model_ok:
        ck.degraded.append("extracted machine (visitm) not built: machine correspondence not run")
        return
    kc, keys = c11.kinds_table()
    c11.kc_global = kc
    own = cases is None
    if own:
        cases, meta = generate(ck, tier, kc, keys)
        ck.rule = ("generated ASTs over the full grammar (all node kinds; value and type roots) x scripted visitors (random "
                   "decisions idle/skip/break/remove/replace on enter/leave, root included, sparse and dense tables) x groupings "
                   "of 2-4 non-editing visitors run in parallel - the generator functions of harness/c11.py: real "
                   "visit()/ParallelVisitor vs the extracted explicit-stack machine: call log (phase, node, key, path, "
                   "#ancestors, decision), returned value (root identity, REMOVE, edited tree, tuple), per-visitor call "
                   "sequences; and extracted machine vs extracted recursive model on every solo case. non-trivial = a "
                   "script that hits at least one non-idle decision during the traversal")
    m = Model(MODEL)
    mcases = [[c[0], step_budget(c)] + c[2:] for c in cases]
    outs = m.run_batch(mcases)
    solo_idx = [i for i, mt in enumerate(meta) if mt[0] == "solo"]
    agree = m.run_batch([[22, step_budget(cases[i])] + cases[i][2:] for i in solo_idx])
    agree = dict(zip(solo_idx, agree))
    from graphql.language import print_ast
    for ci, ((mode, root, ids, sc), out) in enumerate(zip(meta, outs)):
        try:
            src = print_ast(root)[:300]
        except Exception:  # noqa: BLE001
            src = repr(root)[:300]
        mo = decode_machine(out)
        if mode == "solo":
            script = [(a, b, c) for a, b, c, _ in sc]
            key = f"machine:{src!r}:{script!r}"
            rep = {"relation": "visit() = explicit-stack machine", "document": src, "script": script,
                   "wire": mcases[ci] if len(mcases[ci]) < 4000 else None}
            (st, res), log, _problems = c11.run_impl(root, sc, ids, keys, check_context=False)
            if mo["status"] != "ok":
                ck.note_case(("m-solo", src, repr(script)), nontrivial=True)
                ck.count("machine_" + mo["status"])
                if st == "raised" and mo["status"] == "raised":
                    continue  # both raise: agreement (the property-level alarm is C11's)
                ck.violation(key, f"machine {mo['status']} but visit() {'raised ' + str(res) if st == 'raised' else 'returned'} "
                                  f"for script {script} on {src!r}", dict(rep, impl=st, model=mo["status"]))
                continue
            hit = any(e[-1] != 0 for e in mo["log"])
            ck.note_case(("m-solo", src, repr(script)), nontrivial=hit)
            ck.count("machine_solo")
            if agree.get(ci) == [0]:
                ck.violation("agree:" + key, f"extracted machine and extracted recursive model differ on {src!r} script {script} "
                                             "(contradicts C11_machine_refines_model: extraction or wire problem)", dict(rep))
            elif agree.get(ci) == [2]:
                ck.count("recursive_model_out_of_fuel")
            else:
                ck.count("machine_equals_recursive_model")
            if st == "raised":
                ck.violation(key, f"visit() raised {res} for script {script} on {src!r}; the machine returns",
                             dict(rep, impl=res, model=mo["res"][0]))
                continue
            if log != mo["log"]:
                d = next((i for i, (a, b) in enumerate(zip(log, mo["log"])) if a != b), min(len(log), len(mo["log"])))
                ck.violation(key, f"call sequence differs from the machine at call {d} on {src!r} script {script}",
                             dict(rep, impl_call=log[d] if d < len(log) else None,
                                  model_call=mo["log"][d] if d < len(mo["log"]) else None,
                                  n_impl=len(log), n_model=len(mo["log"])))
                continue
            edited = any(e[-1] in (3, 4) for e in mo["log"])
            tag, payload = mo["res"]
            if tag == "root":
                same = res is root
                got = "the root object" if same else type(res).__name__
            else:
                try:
                    got = enc_value(res, ids, kc, keys)
                except Exception as e:  # noqa: BLE001
                    got = ("unencodable", type(e).__name__)
                same = got[0] == tag and (payload is None or got[1] == payload) and res is not root
            ck.count("result_" + tag + ("_after_break" if mo["broke"] else ""))
            if not same:
                if mo["broke"] and edited:
                    ck.count("break_value_mismatch")
                else:
                    ck.violation(key, f"returned value differs from the machine ({tag}) on {src!r} script {script}",
                                 dict(rep, impl=str(got)[:200], model=[tag, str(payload)[:200]]))
        else:
            scs = sc
            scripts = [[(a, b, c) for a, b, c, _ in s] for s in scs]
            key = f"machine-parallel:{src!r}:{scripts!r}"
            rep = {"relation": "visit(ParallelVisitor) = explicit-stack machine with the parallel visitor", "document": src,
                   "scripts": scripts}
            ck.note_case(("m-par", src, repr(scripts)), nontrivial=any(scripts))
            ck.count("machine_parallel")
            st, res, logs = run_parallel_impl(root, scs, ids)
            if mo["status"] != "ok":
                ck.count("machine_" + mo["status"])
                ck.violation(key, f"machine {mo['status']} on a parallel run on {src!r}", dict(rep, model=mo["status"]))
                continue
            if st == "raised":
                ck.violation(key, f"visit(ParallelVisitor) raised {res} on {src!r}; the machine returns", dict(rep, impl=res))
                continue
            if res is not root or mo["res"][0] != "root":
                ck.violation(key, f"non-editing parallel visitors: implementation returned "
                                  f"{'the root' if res is root else type(res).__name__}, machine {mo['res'][0]}", dict(rep))
            for i in range(len(scs)):
                if logs[i] != [e[1:] for e in (mo["subs"] or []) if e[0] == i]:
                    ck.violation(key, f"visitor {i}: call sequence under ParallelVisitor differs from the machine on {src!r}",
                                 dict(rep, visitor=i, n_impl=len(logs[i])))
                    break
    if own and meta:
        ck.samples.append({"document": print_ast(meta[0][1])[:200], "script": "[(node id, phase, action)]",
                           "machine_answer": str(decode_machine(outs[0]))[:300]})


def replay(path):
    d = json.loads(open(path).read())
    print(json.dumps({k: v for k, v in d.items() if k != "wire"}, indent=1)[:3000])
    if d.get("wire"):
        br = common.build(PID, models=(MODEL,))
        if br.ok:
            out = Model(MODEL).run_batch([d["wire"]])[0]
            print("machine now:", str(decode_machine(out))[:2000])
    return 0
