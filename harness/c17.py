"""C17 - a schema survives printing to SDL and rebuilding."""
from __future__ import annotations

import json

from . import common
from . import gen_schema as G
from .common import Check, Model

ASSUMPTIONS = [
    "C17 model: SchemaOps/{Schema,Sdl,Build}.v - print_schema as an SDL definition list (schema definition omission "
    "rule, directives, types with all members) and build_ast_schema over definition lists; descriptions, deprecation "
    "reasons and default literals are the values the lexer/parser deliver (the text level - block vs quoted string "
    "form, escapes - is property C08's string printer/lexer round trip and is exercised here by the direct laws on "
    "the real print_schema/build_schema over adversarial strings)",
    "programmatic schemas list the specified directives (print_schema omits them and build_schema always adds them)",
    "a deprecated *directive definition* prints as `directive @d @deprecated ...`, which only parses with "
    "experimental_directives_on_directive_definitions=True; such schemas are rebuilt with that parser flag",
    "texts contain no lone surrogates (not valid Unicode text)",
]

# hand-written fixtures: block-string descriptions in the SDL source, nested indentation, unusual layouts
FIXTURES = [
    '"""\nMulti\n  line\n"""\nschema { query: Q }\n"""a"""\ntype Q {\n  """\n  field\n    doc\n  """\n  f(\n    """arg\n doc"""\n    a: Int = 1\n  ): Int\n}',
    'type Query { f(a: [Int] = [1, 2], b: In = {x: "s", y: [E1]}, c: String = "\\u2028 \\n"): Int @deprecated(reason: """\n  two\n    lines\n  """) }\ninput In { x: String = "q\\"uote", y: [E!] = [E1, E2], z: In }\nenum E { E1 E2 @deprecated }',
    'directive @a(x: Int = 3 @deprecated) repeatable on FIELD | OBJECT\ndirective @b on SCHEMA\ntype Query { a: Int }\nscalar S @specifiedBy(url: "https://x/\\"y\\"")\ninput O @oneOf { a: Int b: S }\nunion U = Query\ninterface I { a: Int }\ninterface J implements I { a: Int }\ntype T implements J & I { a: Int }',
    'schema { query: Query mutation: M subscription: Mutation }\ntype Query { a: Int }\ntype M { a: Int }\ntype Mutation { a: Int }',
    'type Query { a: Int }\ntype Mutation { a: Int }\ntype Subscription { a: Int }',
    'schema { query: Query }\ntype Query { a: Int }\nenum Subscription { FREE PAID }',
    'schema { query: Query }\ntype Query { a: Int }\ninput Mutation { a: Int }\nscalar Subscription',
    'schema { query: Q }\ntype Q { a: Query }\nenum Query { A }\ninterface Mutation { a: Int }\nunion Subscription = Q',
    'schema { query: Q mutation: Mutation }\ntype Q { a: Int }\ntype Mutation { a: Int }\ninput Query { a: Int }',
    'type Query { f(a: ID = "123\\n", b: ID = "-5\\n", c: [ID] = ["0\\n", 7, "x"]): Int }',
    '""" """\ntype Query {\n  "  "\n  a: Int\n  "\\t"\n  b: Int\n  """x\n\n\n  y"""\n  c: Int\n}',
]


def build_again(text, has_deprecated_directive):
    from graphql import build_schema
    if has_deprecated_directive:
        return build_schema(text, experimental_directives_on_directive_definitions=True)
    return build_schema(text)


def check_roundtrip(ck, s, key, rep, mode):
    """The direct laws of the property on one valid schema.  Returns (printed text, rebuilt schema) or None."""
    from graphql import print_schema, validate_schema
    from graphql.utilities import find_schema_changes
    dd = any(d.deprecation_reason is not None for d in s.directives)
    try:
        t = print_schema(s)
    except Exception as e:  # noqa: BLE001
        ck.violation(key, f"print_schema raised {type(e).__name__}: {e}", rep)
        return None
    rep = dict(rep, printed=t)
    try:
        s2 = build_again(t, dd)
    except Exception as e:  # noqa: BLE001
        ck.violation(key, f"build_schema(print_schema(s)) raised {type(e).__name__}: {str(e)[:300]}", rep)
        return None
    errs = validate_schema(s2)
    if errs:
        ck.violation(key, f"rebuilt schema is invalid: {errs[0].message}", rep)
        return None
    t2 = print_schema(s2)
    if t2 != t:
        ck.violation(key, "print_schema(build_schema(print_schema(s))) differs from print_schema(s)", dict(rep, reprinted=t2))
    for a, b, nm in ((s, s2, "(s, rebuilt)"), (s2, s, "(rebuilt, s)")):
        try:
            ch = find_schema_changes(a, b)
        except Exception as e:  # noqa: BLE001
            ck.violation(key, f"find_schema_changes{nm} raised {type(e).__name__}: {e}", rep)
            continue
        if ch:
            ck.violation(key, f"find_schema_changes{nm} reports {ch[0].type.name}: {ch[0].description}",
                         dict(rep, changes=[c.description for c in ch[:5]]))
    d = G.first_diff(G.dump(s), G.dump(s2))
    if d:
        ck.violation(key, f"rebuilt schema differs from the original: {d}", rep)
    return t, s2


def run(tier):
    from graphql import build_schema, parse, print_schema, validate_schema

    ck = Check("C17", tier)
    ck.assumptions += ASSUMPTIONS
    br = common.build("C17", models=("schemaops",))
    ck.proofs(br)
    if not br.ok:
        return ck.finish()
    m = Model("schemaops")
    quick = tier == "quick"
    rng = ck.rng
    ck.rule = ("type-directed generated valid schemas, each built from SDL AND assembled programmatically "
               "(GraphQLObjectType(...), defaults as Python values / GraphQLDefaultInput(value|literal) / legacy "
               "default_value, enum values with internal Python values): all type kinds, interface hierarchies, recursive "
               "and OneOf inputs, custom directives incl. repeatable and deprecated, non-default root names, conventional "
               "names used by non-root types, descriptions/deprecation reasons/specifiedBy URLs/string defaults over "
               "adversarial texts (CR, VT, FF, U+001C-1E, U+0085, U+2028/9, quotes, backslashes, triple quotes, leading/"
               "trailing blanks, empty), defaults of every input type; plus hand-written block-string fixtures and "
               "single-description probes (every adversarial text at every description site). Laws: t = print_schema(s); "
               "build_schema(t) succeeds and is valid; print again == t; find_schema_changes both ways == []; field-by-field "
               "dump equal; model: parse(t) as definition list == extracted sdl_of(enc s), extracted build(enc parse(t)) == "
               "enc(rebuilt). non-trivial = a generated schema that has descriptions and default values and deprecations (probes and fixtures count as non-trivial)")

    cases, meta = [], []

    def one(s, key, rep, mode, nontrivial):
        ck.note_case((mode, key), nontrivial=nontrivial)
        r = check_roundtrip(ck, s, key, rep, mode)
        if r is None:
            return
        t, s2 = r
        dd = any(d.deprecation_reason is not None for d in s.directives)
        try:
            doc = parse(t, experimental_directives_on_directive_definitions=True) if dd else parse(t)
            cases.append([5] + G.encode_schema(s))
            meta.append((key, rep, "Sdl.sdl_of(enc s) vs parse(print_schema(s))", G.w_defs(doc), False))
            cases.append([6] + G.w_defs(doc))
            meta.append((key, rep, "Build.build(enc parse(t)) vs build_schema(t)", G.encode_schema(s2), True))
        except Exception as e:  # noqa: BLE001
            ck.count("model_encoding_failed")
            ck.extra.setdefault("model_encoding_failed_sample", f"{type(e).__name__}: {e}"[:200])

    # ---- fixtures ------------------------------------------------------------------------
    for f in FIXTURES:
        try:
            s = build_schema(f)
            if validate_schema(s):
                raise ValueError("fixture invalid")
        except Exception as e:  # noqa: BLE001
            raise RuntimeError(f"bad fixture {f!r}: {e}")
        one(s, "fixture:" + f, {"relation": "print/build round trip", "mode": "fixture", "sdl": f}, "fixture", True)
    # ---- single-description probes: every adversarial text at every description site ----
    from graphql import (DirectiveLocation, GraphQLArgument, GraphQLDirective, GraphQLEnumType, GraphQLEnumValue,
                         GraphQLField, GraphQLInputField, GraphQLInputObjectType, GraphQLInt, GraphQLObjectType,
                         GraphQLScalarType, GraphQLSchema, GraphQLString, specified_directives)
    texts = list(G.FIXED_TEXTS) + [a + b for a in G.ADVERSARIAL[:14] for b in ("", "a", "\n b")] \
        + ["a" + x + "b" for x in G.ADVERSARIAL] + [x + "a" for x in G.ADVERSARIAL] + ["a" + x for x in G.ADVERSARIAL]
    if not quick:
        texts += ["".join(t) for t in common.strings_upto(["a", " ", "\n", "\r", '"', "\\", "\x0b", " "], 4)]
    texts = list(dict.fromkeys(texts))
    for tx in texts:
        e = GraphQLEnumType("E", {"V": GraphQLEnumValue("V", description=tx, deprecation_reason=tx)}, description=tx)
        inp = GraphQLInputObjectType("In", {"i": GraphQLInputField(GraphQLString, default_value=tx, description=tx,
                                                                     deprecation_reason=tx)}, description=tx)
        sc = GraphQLScalarType("S", description=tx, specified_by_url=tx)
        q = GraphQLObjectType("Query", {"f": GraphQLField(e, args={"a": GraphQLArgument(inp, description=tx),
                                                                    "b": GraphQLArgument(sc)},
                                                         description=tx, deprecation_reason=tx)}, description=tx)
        d = GraphQLDirective("d", [DirectiveLocation.FIELD], args={"x": GraphQLArgument(GraphQLInt, description=tx)},
                             description=tx)
        s = GraphQLSchema(q, directives=list(specified_directives) + [d], description=tx)
        if validate_schema(s):
            ck.count("probe_invalid")
            continue
        one(s, "probe:" + repr(tx), {"relation": "print/build round trip", "mode": "description probe",
                                     "text": tx, "text_codepoints": [ord(c) for c in tx]}, "probe", True)
    ck.count("description_probes", len(texts))
    # ---- default-value probes: one argument, one Python default value, three ways of giving it ----
    from graphql import GraphQLBoolean, GraphQLFloat, GraphQLID, GraphQLList
    from graphql.type import GraphQLDefaultInput
    vals = [(GraphQLID, v) for v in ["123", "123\n", "-5\n", "0\n", "\n1", "1 ", "007", "", "a", 5, -3, "9" * 30]] \
        + [(GraphQLString, v) for v in ["", "123\n", "\n", '"', "\\", "a\u2028b", "\x0b"]] \
        + [(GraphQLInt, v) for v in [0, -1, 2147483647, -2147483648]] \
        + [(GraphQLFloat, v) for v in [0.0, -0.0, 1.5, 1e20, 1e-7, 5e-324, 1.7976931348623157e308, 3, -2]] \
        + [(GraphQLBoolean, v) for v in [True, False]] \
        + [(GraphQLList(GraphQLID), v) for v in [[], ["1\n", 2], ["x", None], "7\n"]]
    for ty, v in vals:
        for style in ("value", "legacy"):
            kw = {"default": GraphQLDefaultInput(value=v)} if style == "value" else {"default_value": v}
            q = GraphQLObjectType("Query", {"f": GraphQLField(GraphQLInt, args={"a": GraphQLArgument(ty, **kw)})})
            s = GraphQLSchema(q)
            try:
                if validate_schema(s):
                    ck.count("probe_invalid")
                    continue
            except Exception:  # noqa: BLE001
                ck.count("probe_invalid")
                continue
            one(s, f"default-probe:{ty}:{v!r}:{style}",
                {"relation": "print/build round trip", "mode": "default value probe", "type": str(ty),
                 "python_default": repr(v), "given_as": "GraphQLDefaultInput(value=...)" if style == "value" else "default_value=...",
                 "programmatic": True}, "probe", True)
    ck.count("default_value_probes", 2 * len(vals))
    # ---- every Python representation of a default value, at every nesting (see gen_schema.representation_probes)
    for key, s in G.class_probes() + G.representation_probes():
        try:
            if validate_schema(s):
                ck.count("probe_invalid")
                continue
        except Exception:  # noqa: BLE001
            ck.count("probe_invalid")
            continue
        one(s, key, {"relation": "print/build round trip", "mode": "default value representation probe",
                     "schema": key, "programmatic": True}, "probe", True)
        ck.count("representation_probes")
    # ---- generated schemas --------------------------------------------------------------
    n = 700 if quick else 6000
    for i in range(n):
        spec = G.gen_spec(rng, size=rng.randint(1, 3), adversarial=i % 5 != 0, directive_deprecation=i % 4 == 0,
                          incremental=i % 3 == 1)
        sdl = G.spec_to_sdl(spec)
        dd = any(d.depr is not None for d in spec.directives)
        # non-trivial: descriptions AND default values AND deprecations are all present
        rich = ('"' in sdl) and (" = " in sdl) and ("@deprecated" in sdl)
        for mode in ("sdl", "prog"):
            try:
                s = build_again(sdl, dd) if mode == "sdl" else G.spec_to_schema(spec, rng, subclasses=i % 3 == 0)
                if validate_schema(s):
                    raise ValueError("invalid")
            except Exception as e:  # noqa: BLE001
                ck.count("generator_invalid")
                ck.extra.setdefault("generator_invalid_sample", f"{type(e).__name__}: {e}"[:200])
                continue
            ck.count("schemas_" + mode)
            one(s, f"{mode}:{sdl}", {"relation": "print/build round trip", "mode": mode, "sdl": sdl,
                                      "programmatic": mode == "prog"}, mode, rich)
    # ---- model answers -----------------------------------------------------------------
    outs = m.run_batch(cases)
    for (key, rep, what, want, _), o in zip(meta, outs):
        if o != [1] + want:
            j = next((j for j, (a, b) in enumerate(zip(o, [1] + want)) if a != b), min(len(o), len(want) + 1))
            ck.violation(key, f"model disagrees: {what} (wire offset {j})",
                         dict(rep, impl_around=want[max(0, j - 21):j + 9], model_around=o[max(0, j - 20):j + 10]))
    ck.count("model_cases", len(cases))
    ck.samples.append({"sdl": FIXTURES[1]})
    return ck.finish()


def replay(path):
    from graphql import build_schema, print_schema
    d = json.loads(open(path).read())
    print(json.dumps({k: v for k, v in d.items() if k not in ("printed",)}, indent=1)[:3000])
    if "sdl" in d and not d.get("programmatic"):
        try:
            s = build_schema(d["sdl"], experimental_directives_on_directive_definitions=True)
            t = print_schema(s)
            s2 = build_schema(t, experimental_directives_on_directive_definitions=True)
            ok = print_schema(s2) == t and G.dump(s) == G.dump(s2)
            print("round trip holds:", ok)
            return 0 if ok else 1
        except Exception as e:  # noqa: BLE001
            print("replay raised", type(e).__name__, e)
            return 1
    return 1
