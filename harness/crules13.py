"""CRULES13 - the schema-dependent validation rules C13 relies on: implementation vs Valid/Rules13.v.

Theorems: coq/theories/Properties/C13rules.v (rules silent => the typing judgment of Exec/Typing.v
on the translated document; corollary with C13's soundness theorem).
Correspondence: per generated schema (gen_exec.GSchema) type-directed documents and mutants; each of
the ten real rules ALONE (validate(schema, doc, [Rule])) vs the extracted model as multisets of
(rule, paths of the error's AST nodes); Valid/ToExec.to_exec vs gen_exec.enc_doc; and directly:
all modelled rules silent => extracted well_typed (schema_ok evaluated per schema).

`run(tier)` = ./check CRULES13; `core(ck, tier, model_ok, budget_s)` is the part ./check C13 calls."""
from __future__ import annotations

import json
import re
import time
from collections import Counter

from . import c13, common, crules, gen_exec as G
from . import parsecorr as pc
from .common import Check, Model, cps, from_cps

PID = "CRULES13"
THMS = "C13rules"
MODEL = "rules13"
BIG = 10 ** 9
OVERLAP_MAX = 3000

RULES = [
    (13, "FieldsOnCorrectTypeRule"), (14, "ScalarLeafsRule"), (15, "KnownArgumentNamesRule"),
    (16, "ProvidedRequiredArgumentsRule"), (17, "ValuesOfCorrectTypeRule"), (18, "VariablesAreInputTypesRule"),
    (19, "VariablesInAllowedPositionRule"), (20, "KnownTypeNamesRule"), (21, "FragmentsOnCompositeTypesRule"),
    (22, "PossibleFragmentSpreadsRule"),
    # re-modelled over the typed descent (the typing theorem uses these formulations)
    (9, "NoUndefinedVariablesRule"), (12, "UniqueInputFieldNamesRule"),
]
RULE_NAME = {c: n for c, n in RULES}
# rules of Valid/Rules.v the typing theorem needs in addition
EXTRA = ["KnownFragmentNamesRule", "NoFragmentCyclesRule", "UniqueFragmentNamesRule", "UniqueVariableNamesRule",
         "NoUndefinedVariablesRule", "UniqueInputFieldNamesRule", "UniqueArgumentNamesRule"]

ASSUMPTIONS = [
    "CRULES13 model: Valid/Rules13.v - ten schema-dependent rules as functions of the parser AST and the execution "
    "model's schema (Exec/Schema.v) plus a table of directive definitions; TypeInfo is the explicit descent of "
    "Rules13.sel_evs / val_uses; an error is (rule, paths of GraphQLError.nodes)",
    "fragment of the correspondence: schemas of gen_exec.GSchema (objects, interfaces incl. interfaces implementing "
    "interfaces, unions, enums, input objects incl. OneOf, the specified scalars, one custom directive); documents "
    "without __schema/__type, introspection type names, fragment arguments (classified and counted when met)",
    "schema.type_map is modelled as: named types of the schema, String, Boolean, and the specified scalars some "
    "field / argument / input field / directive argument mentions (Rules13.in_map)",
    "float literals: the translation to the execution model is parameterised by the denotation of a float literal; the "
    "comparison with gen_exec.enc_doc ignores the ratio of float literals (no theorem depends on it)",
]


def account_proofs(ck, br):
    f = common.COQ / "theories" / "Properties" / f"{THMS}.v"
    ck.checker_cmd = ("cd /verif/coq && coq_makefile -f _CoqProject <all theories/*.v> -o Makefile && make -j16 "
                      f"theories/Properties/{THMS}.vo theories/Extract/ExtractRules13.vo && "
                      f"coqc -Q theories GV theories/Properties/{THMS}.v")
    if not f.exists():
        ck.degraded.append(f"Properties/{THMS}.v not present: correspondence only")
        if not br.ok:
            ck.proof_breaks.append(f"build failed at {br.failed_file}: " + br.log[-800:])
        return br.ok
    deps = common.dep_closure([f"Properties/{THMS}.v", "Extract/ExtractRules13.v"])
    ck.extra["coq_files"] = deps
    bad = common.scan_forbidden(deps)
    if bad:
        ck.proof_breaks.append("forbidden construct: " + "; ".join(bad[:5]))
    names = re.findall(r"^\s*(?:Theorem|Lemma|Corollary)\s+(\w+)", f.read_text(), re.M)
    ck.theorems = names
    ck.obligations = len(names)
    ck.partial = [n for n in names if n.endswith("_partial")]
    if not br.ok:
        ck.proof_breaks.append(f"build failed at {br.failed_file}: " + br.log[-800:])
        return False
    ok, names2, assumptions, out = common.check_property_file(THMS, timeout=1200)
    ck.print_assumptions = assumptions
    if ok:
        ck.discharged = len(names2)
        for n, a in zip(names2, assumptions):
            if not a.startswith("Closed under"):
                ck.proof_breaks.append(f"{n} depends on axioms: {a}")
    else:
        ck.proof_breaks.append(f"coqc Properties/{THMS}.v failed: " + out[-800:])
    return ok


# --------------------------------------------------------------------------- encoders

def enc_dirtable(schema):
    """schema.directives -> tree: name, argument definitions (only the presence of a default matters)."""
    from graphql.pyutils import Undefined
    out = []
    for d in schema.directives:
        args = []
        for an, a in d.args.items():
            has_default = getattr(a, "default", None) is not None or getattr(a, "default_value", Undefined) is not Undefined
            args.append(G.W(30, [], [G.w_str(an), G.enc_type(a.type), G.w_opt(G.W(10) if has_default else None)]))
        out.append(G.W(58, [], [G.w_str(d.name), G.w_list(args)]))
    return G.w_list(out)


def norm_floats(ints):
    """the document tree with every float literal's ratio replaced by 0/1"""
    t = G.unflatten(ints)

    def go(w):
        tag, i, k = w
        if tag == 12:
            return (12, [0, 0, 1], [])
        return (tag, i, [go(x) for x in k])

    def flat(w, out):
        tag, i, k = w
        out += [tag, len(i)] + list(i) + [len(k)]
        for x in k:
            flat(x, out)
        return out
    try:
        return flat(go(_as_tuple(t)), [])
    except Exception:  # noqa: BLE001
        return list(ints)


def _as_tuple(t):
    # gen_exec trees are W(tag, ints, kids) objects or tuples depending on the helper: normalise
    if isinstance(t, tuple) and len(t) == 3:
        return (t[0], list(t[1]), [_as_tuple(x) for x in t[2]])
    return (t.tag, list(t.ints), [_as_tuple(x) for x in t.kids])


# --------------------------------------------------------------------------- implementation side

def rule_classes(names):
    import graphql.validation as v
    return {n: getattr(v, n) for n in names}


def impl_rule(schema, doc, cls, code, paths):
    from graphql.validation import validate
    from graphql.validation.validate import ValidationAbortedError
    try:
        errs = validate(schema, doc, [cls], max_errors=BIG)
    except RecursionError:
        return ("raised", "RecursionError")
    except Exception as e:  # noqa: BLE001
        return ("raised", type(e).__name__)
    if any(isinstance(e, ValidationAbortedError) for e in errs):
        return ("raised", "aborted")
    return [(code, tuple(paths.get(id(n)) for n in (e.nodes or ()))) for e in errs]


OUT_NAMES = re.compile(r"(?<![\w$@])__(?!typename\b)\w+")


def out_of_fragment(text, doc):
    from graphql.language import ast as A
    if OUT_NAMES.search(text):
        return "introspection_name"
    for d in doc.definitions:
        if not isinstance(d, (A.OperationDefinitionNode, A.FragmentDefinitionNode)):
            return "type_system_definition"
        if isinstance(d, A.FragmentDefinitionNode) and d.variable_definitions:
            return "fragment_variables"
    return None


# --------------------------------------------------------------------------- extra mutants

def mutate13(rng, text):
    """Edits aimed at the modelled rules, in addition to c13.mutate."""
    k = rng.randrange(10)

    def sub_random(pattern, repl):
        ms = list(re.finditer(pattern, text))
        if not ms:
            return None
        m = rng.choice(ms)
        r = repl(m) if callable(repl) else repl
        return text[:m.start()] + r + text[m.end():]

    if k == 0:      # an unknown directive with arguments (typed through the enclosing field definition)
        return sub_random(r"(?<=[\w)])(?= [{a-z])", lambda m: rng.choice([' @zz(x: 1)', ' @zz(a: "s", n: {})', ' @tag(n: "s")',
                                                                              ' @tag(s: [1], q: 2)', ' @skip', ' @include(if: 1)',
                                                                              ' @skip(if: $v0)', ' @tag(n: $v0)']))
    if k == 1:      # type condition on a leaf / input / unknown type
        return sub_random(r"(?<=\.\.\. on )\w+|(?<=\) on )\w+|(?<=\w on )\w+",
                          lambda m: rng.choice(["Int", "Color", "In0", "Pick", "Nope", "String", "T0", "I0", "U0", "Float"]))
    if k == 2:      # wrap / unwrap a literal
        return sub_random(r"(?<=: )(-?\d[\d.e]*|\"[^\"]*\"|true|false|null|\$\w+|[A-Z]+)(?=[,)\] }])",
                          lambda m: rng.choice(["[" + m.group(0) + "]", "{a: " + m.group(0) + "}", "[[" + m.group(0) + "]]",
                                                "{a: " + m.group(0) + ", a: 1}", "{zz: " + m.group(0) + "}"]))
    if k == 3:      # a variable inside an input object field
        return sub_random(r"(?<=\w: )(-?\d+|\"[^\"]*\"|true|false|[A-Z]+)(?=[,} ])", lambda m: rng.choice(["$v0", "$v1", "$v2", "null"]))
    if k == 4:      # another variable type incl. unknown and unused scalars
        return sub_random(r"(?<=\$v\d: )[\[\]\w!]+", lambda m: rng.choice(["Float", "ID", "Nope", "[Nope!]", "T0", "[I0]", "U0!", "Int", "Color!"]))
    if k == 5:      # remove an inline fragment's type condition / add one
        return sub_random(r"\.\.\. on \w+", "...") if rng.random() < 0.5 else sub_random(r"\.\.\.(?= \{)", lambda m: "... on " + rng.choice(["T0", "I0", "U0", "T1"]))
    if k == 6:      # drop one argument
        return sub_random(r"\w+: (-?\d[\d.e]*|\"[^\"]*\"|true|false|null|\$\w+|[A-Z]+)(, )?(?=[\w)])", "")
    if k == 9:      # a trailing (unused) variable definition of OneOf / input object / list type: whatever type information
        #                 the traversal of the variable definitions leaves behind must not reach the usages
        try:
            from graphql import parse as _parse
            from graphql.language import ast as _A
            ops = [d for d in _parse(text).definitions if isinstance(d, _A.OperationDefinitionNode) and d.variable_definitions]
            if not ops:
                return None
            end = rng.choice(ops).variable_definitions[-1].loc.end
            return text[:end] + ", $vz: " + rng.choice(["Pick", "Pick", "In0", "[Int!]", "Pick!"]) + text[end:]
        except Exception:  # noqa: BLE001
            return None
    if k == 7:      # a spread of another fragment
        return sub_random(r"\.\.\.F\d+", lambda m: "...F" + str(rng.randrange(4)))
    return sub_random(r"(?<=\$)v\d+(?=[,)\] }])", lambda m: "v" + str(rng.randrange(4)))


# --------------------------------------------------------------------------- the check

def fmt(obs):
    return [(RULE_NAME.get(c, c), [list(map(list, p)) if p is not None else None for p in ps]) for c, ps in obs]


def core(ck, tier, model_ok, budget_s=None):
    from graphql import build_schema, parse
    from graphql.type import validate_schema

    quick = tier == "quick"
    rng = ck.rng
    t0 = time.time()
    budget = budget_s if budget_s is not None else (20 if quick else 300)
    m = Model(MODEL) if model_ok else None
    if m is None:
        ck.degraded.append("rules13 model not built: nothing compared")
        return
    raise_stack_limit()
    rule_text = (
        "per generated schema (gen_exec.GSchema, accepted by validate_schema): type-directed documents (gen_exec.DocGen) and "
        "for each two mutants of c13.mutate and two of crules13.mutate13 (unknown/ill-typed directives, type conditions on "
        "leaf/input/unknown types, wrapped literals, variables in input object fields, other variable types, dropped "
        "arguments, other spreads / variables).  Per document: each of the ten rules ALONE (validate(schema, doc, [Rule])) vs "
        "the extracted Rules13 model as multisets of (rule, paths of the error's AST nodes); to_exec vs gen_exec.enc_doc "
        "(float ratios ignored); and: the ten rules and the five needed rules of Valid/Rules.v all silent on the "
        "implementation => extracted well_typed on the translated document. non-trivial = at least one error of a modelled "
        "rule, or a document with fragments / variables / directives accepted by all of them")
    ck.extra["rules13_rule"] = rule_text
    if not ck.rule:
        ck.rule = rule_text
    classes = rule_classes([n for _, n in RULES] + EXTRA)
    n_docs = 12 if quick else 40
    nschemas = 0
    corpus = [c for c in common.load_corpus(PID) if "sdl" in c and "text" in c]
    while True:
        if time.time() - t0 > budget:
            ck.count("rules13_stopped_on_time_budget")
            break
        if corpus:
            c = corpus.pop()
            sdl, texts, gs = c["sdl"], [(from_cps(c["text"]), None, "corpus")], None
        else:
            gs = G.GSchema(rng)
            sdl, texts = gs.sdl(), []
        try:
            schema = build_schema(sdl)
            if validate_schema(schema):
                ck.count("generator_invalid_schema")
                continue
            wschema = G.flatten(G.enc_schema(schema))
            wdirs = G.flatten(enc_dirtable(schema))
        except G.OutOfFragment:
            ck.count("skipped_schema_out_of_fragment")
            continue
        except Exception:  # noqa: BLE001
            ck.count("generator_invalid_schema")
            continue
        nschemas += 1
        if gs is not None:
            for _ in range(n_docs):
                dg = G.DocGen(rng, gs, max_depth=rng.choice([2, 3, 3, 4]))
                text = dg.document()
                texts.append((text, dg.operation_name, "generated"))
                for _ in range(2):
                    t2 = c13.mutate(rng, text)
                    if t2 and t2 != text:
                        texts.append((t2, dg.operation_name, "mutant"))
                for _ in range(2):
                    t2 = mutate13(rng, text)
                    if t2 and t2 != text:
                        texts.append((t2, dg.operation_name, "mutant13"))
        items = []
        for text, opname, label in texts:
            try:
                doc = parse(text)
            except Exception:  # noqa: BLE001
                ck.count("skipped_unparseable")
                continue
            why = out_of_fragment(text, doc)
            if why:
                ck.count("skipped_out_of_fragment")
                ck.count("out_" + why)
                continue
            try:
                w = pc.enc_node(doc)
            except Exception:  # noqa: BLE001
                ck.count("skipped_out_of_fragment")
                continue
            items.append((text, opname, label, doc, w))
        if not items:
            continue
        head = wschema + wdirs
        hdr = [([0] if o is None else [len(o) + 1] + cps(o)) for (_, o, _, _, _) in items]
        o0 = m.run_batch([[0] + head + it[4] for it in items])
        o1 = m.run_batch([[1] + h + head + it[4] for h, it in zip(hdr, items)])
        o2 = m.run_batch([[2] + h + head + it[4] for h, it in zip(hdr, items)])
        # the un-memoized specification function is evaluated on documents up to OVERLAP_MAX characters
        small = [len(it[0]) <= OVERLAP_MAX for it in items]
        ck.count("overlap_skipped_large_document", small.count(False))
        r5 = iter(safe_batch(ck, m, [[5] + h + head + it[4] for h, it, ok in zip(hdr, items, small) if ok],
                             [it[0] for it, ok in zip(items, small) if ok], sdl))
        o5 = [next(r5) if ok else None for ok in small]
        r14 = iter(c14_verdicts(schema, [it[3] for it, ok in zip(items, small) if ok]))
        c14outs = [next(r14) if ok else None for ok in small]
        for (text, opname, label, doc, w), a0, a1, a2, a5, c14v in zip(items, o0, o1, o2, o5, c14outs):
            judge(ck, schema, sdl, classes, text, opname, label, doc, a0, a1, a2, a5, c14v)
    ck.count("rules13_schemas", nschemas)
    ck.extra["rules13_t_s"] = round(time.time() - t0, 1)


def raise_stack_limit():
    """the extracted functions recurse as deep as the document is long: give the drivers the hard stack limit"""
    try:
        import resource
        soft, hard = resource.getrlimit(resource.RLIMIT_STACK)
        if soft != hard:
            resource.setrlimit(resource.RLIMIT_STACK, (hard, hard))
    except Exception:  # noqa: BLE001
        pass


def safe_batch(ck, m, inputs, texts, sdl):
    """run_batch; when the driver dies (stack overflow ...) the inputs are run one by one and the culprit
    is reported as a violation (the model must answer on every input)"""
    try:
        return m.run_batch(inputs)
    except RuntimeError:
        out = []
        for i, t in zip(inputs, texts):
            try:
                out.append(m.run_batch([i])[0])
            except RuntimeError as e:
                out.append(None)
                ck.violation(f"model13-crash:{t!r}", f"the extracted model dies ({str(e)[:120]}) on {t[:200]!r}",
                             {"sdl": sdl, "text": cps(t), "operation_name": None,
                              "relation": "the extracted model answers on every input"})
        return out


def c14_verdicts(schema, docs):
    """verdict of C14's extracted specification function on harness/c14.py's own encoding (None: outside its
    fragment or model not built)"""
    from . import c14
    exe = common.OCAML / "overlap" / "model_driver"
    out = [None] * len(docs)
    if not exe.exists():
        return out
    wires, idx = [], []
    for i, doc in enumerate(docs):
        try:
            w, _ = c14.encode_case(schema, doc)
        except Exception:  # noqa: BLE001
            continue
        wires.append(w)
        idx.append(i)
    if wires:
        try:
            res = Model("overlap").run_batch(wires)
        except Exception:  # noqa: BLE001
            return out
        for i, r in zip(idx, res):
            out[i] = r[0] if r else None
    return out


def judge(ck, schema, sdl, classes, text, opname, label, doc, a0, a1, a2, a5=None, c14v=None):
    paths = crules.node_paths(doc)
    replay = {"sdl": sdl, "text": cps(text), "operation_name": opname}
    model = crules.dec_errors(a0)
    ck.count(label)
    if not isinstance(model, dict):
        ck.violation(f"model13:{text!r}", f"the rules13 model gives no answer ({model}) for {text[:100]!r}",
                     dict(replay, relation="fuel is sufficient / the input decodes"))
        return
    nerr = 0
    impl_silent = True
    for code, name in RULES:
        a = impl_rule(schema, doc, classes[name], code, paths)
        if not isinstance(a, list):
            ck.count("skipped_rule_raised")
            ck.count(f"raised_{name}_{a[1]}")
            impl_silent = False
            if model.get(code):
                ck.violation(f"model13-raised:{name}:{text!r}",
                             f"{name} raised {a[1]} where the model reports {fmt(model.get(code))} on {text[:160]!r}",
                             dict(replay, relation="rule = Valid/Rules13.v: the rule raises instead of reporting", rule=name))
            continue
        if a:
            impl_silent = False
            nerr += len(a)
            ck.count(f"docs_with_{name}")
        mm = model.get(code, [])
        if code == 17 and any(None in ps for _, ps in a):
            # a list / object literal where a scalar or enum is expected: the implementation's error points at a
            # location-less copy made by replace_variables (reported as a finding; not C13's subject): such errors
            # are matched against the model's errors at list / object literals
            a, mm = match_foreign(ck, doc, a, mm)
        if Counter(a) != Counter(mm):
            ck.violation(f"model13:{name}:{text!r}",
                         f"{name} reports {fmt(a)} but the model {fmt(mm)} on {text[:160]!r}",
                         dict(replay, relation="rule = Valid/Rules13.v (multiset of (rule, node paths))", rule=name,
                              impl=str(a), model=str(mm)))
    extra_silent = True
    for name in EXTRA:
        a = impl_rule(schema, doc, classes[name], 0, paths)
        if a:
            extra_silent = False
    # to_exec vs the harness's encoding for the execution model
    try:
        want = G.flatten(G.enc_doc(doc, opname))
    except G.OutOfFragment:
        want = None
        ck.count("to_exec_harness_out_of_fragment")
    except Exception:  # noqa: BLE001
        want = None
    if want is not None:
        ck.count("to_exec_compared")
        got = a1[1:] if a1 and a1[0] == 0 else None
        if got is None or _nf(got) != _nf(want):
            ck.violation(f"to_exec:{text!r}",
                         f"to_exec differs from gen_exec.enc_doc on {text[:160]!r}: model {'undefined' if got is None else 'another tree'}",
                         dict(replay, relation="Valid/ToExec.to_exec = gen_exec.enc_doc (float ratios ignored)"))
    # silent => well_typed
    if a2 and len(a2) == 9:
        m_silent, m_extra, m_def, m_wt, m_sok, m_hyp, m_allsilent, m_concl, m_locdef = a2
        ck.count("schema_hypotheses_hold" if m_hyp == 1 else "schema_hypotheses_fail")
        if m_hyp == 1 and m_sok == 1 and m_allsilent == 1 and m_concl != 2:
            ck.count("theorem_instances")
            if m_concl != 1:
                ck.violation(f"theorem-instance:{text!r}",
                             f"extracted model: all rules silent and the schema hypotheses hold but the static typing "
                             f"conclusion of C13_rules_static is false on {text[:160]!r}",
                             dict(replay, relation="theorem instance C13_rules_static on the extracted model"))
        if m_locdef:
            ck.count("finding_location_default_ignored_in_fragment", m_locdef)
            ck.count("docs_with_finding_location_default_ignored_in_fragment")
        if m_sok != 1:
            ck.count("schema_not_schema_ok")
        if (m_silent == 1) != impl_silent and not any(k.startswith("raised_") for k in ()):
            ck.count("silent_flag_differs")   # covered by the per-rule comparison
        if impl_silent and extra_silent and m_def == 1 and m_sok == 1:
            ck.count("silent_documents")
            from graphql.language import ast as A
            op = [d for d in doc.definitions if isinstance(d, A.OperationDefinitionNode)
                  and (opname is None or (d.name and d.name.value == opname))]
            root_missing = bool(op) and schema.get_root_type(op[0].operation) is None
            if m_wt != 1:
                if root_missing:
                    ck.count("silent_but_no_root_type")
                else:
                    # the remaining gap: overlapping fields (not among the modelled rules)
                    from graphql.validation import OverlappingFieldsCanBeMergedRule, validate
                    ov = validate(schema, doc, [OverlappingFieldsCanBeMergedRule])
                    if ov:
                        ck.count("silent_but_overlap_conflict")
                    else:
                        ck.violation(f"typed:{text!r}",
                                     f"all modelled rules and OverlappingFieldsCanBeMerged are silent but the typing judgment "
                                     f"rejects {text[:160]!r}",
                                     dict(replay, relation="rules silent => well_typed (to_exec d)"))
            else:
                ck.count("silent_and_well_typed")
    # the field-merge specification function on the translated operation
    if a5 and len(a5) == 2:
        from . import c14
        from graphql.language import ast as A
        mv, ids_ok = a5
        nops = sum(isinstance(dd, A.OperationDefinitionNode) for dd in doc.definitions)
        if ids_ok != 1:
            ck.violation(f"overlap-ids:{text!r}", f"to_overlap numbers two field occurrences alike on {text[:160]!r}",
                         dict(replay, relation="occurrence numbers of the translated document are distinct"))
        if mv == 2:
            ck.count("overlap_untyped")
        elif nops == 1 and '"""' not in text and "-0" not in text:
            st = c14.impl_conflicts(schema, doc)
            if st[0] == "ok":
                ck.count("overlap_compared_with_rule")
                if st[1] != (mv == 1):
                    ck.violation(f"overlap:{text!r}",
                                 f"OverlappingFieldsCanBeMergedRule reports {'a' if st[1] else 'no'} conflict, the specification "
                                 f"function on to_overlap (to_exec d) {'finds one' if mv == 1 else 'finds none'}: {text[:160]!r}",
                                 dict(replay, relation="rule reports a conflict <-> Overlap.spec_verdict (to_overlap) = conflict"))
            if c14v is not None and c14v in (0, 1):
                ck.count("overlap_compared_with_c14_encoder")
                if c14v != mv:
                    ck.violation(f"overlap-c14:{text!r}",
                                 f"specification function: verdict {mv} on to_overlap, {c14v} on harness/c14.py's encoding of {text[:160]!r}",
                                 dict(replay, relation="Overlap.spec_verdict (to_overlap (to_exec d)) = spec_verdict (c14 encoding)"))
        if mv == 0 and a2 and len(a2) == 9 and a2[2] == 1 and a2[4] == 1 and impl_silent and extra_silent:
            ck.count("all_silent_documents")
            if a2[3] != 1:
                from graphql.language import ast as A2
                op = [dd for dd in doc.definitions if isinstance(dd, A2.OperationDefinitionNode)
                      and (opname is None or (dd.name and dd.name.value == opname))]
                if op and schema.get_root_type(op[0].operation) is not None:
                    ck.violation(f"typed-all:{text!r}",
                                 f"all modelled rules and the field-merge function are silent but well_typed is false on {text[:160]!r}",
                                 dict(replay, relation="rules + overlap silent => well_typed (to_exec d)"))
            else:
                ck.count("all_silent_and_well_typed")
        # instance of C13_rules_typed evaluated on the extracted model alone: every hypothesis true => the
        # boolean checker of the judgment accepts
        if (mv == 0 and opname is None and a2 and len(a2) == 9 and a2[0] == 1 and a2[1] == 1 and a2[4] == 1
                and a2[5] == 1 and a2[6] == 1 and a2[7] == 1):
            ck.count("typed_theorem_instances")
            if a2[3] != 1:
                ck.violation(f"thm-instance:{text!r}",
                             f"hypotheses of C13_rules_typed hold in the model but well_typed is false on {text[:160]!r}",
                             dict(replay, relation="C13_rules_typed instance: hypotheses => well_typed (to_exec d)"))
    nontrivial = nerr > 0 or (impl_silent and any(x in text for x in ("...", "$", "@")))
    ck.note_case(("crules13", sdl, text), nontrivial=nontrivial,
                 sample={"text": text[:200], "errors": nerr} if nerr and label != "generated" else None)


# --------------------------------------------------------------------------- 27 StreamDirectiveOnListField

STREAM_CODE = 27
STREAM_NAME = "StreamDirectiveOnListField"
STREAM_ARGS = ["@stream", "@stream(initialCount: 1)", '@stream(label: "s", if: true)', "@stream(if: $v0)"]


def mutate_stream(rng, text):
    """insert one to three @stream directives where directives may stand: after a field (with or without
    arguments / before its selection set), after a spread, on an inline fragment with or without type
    condition, on the operation, on a fragment definition, on a variable definition"""
    for _ in range(rng.choice([1, 1, 2, 3])):
        pats = [r"(?<=[a-z0-9_)])(?=( \{|\n| \}|, | [a-z_]))", r"(?<=\.\.\.F\d)(?=\b)", r"(?<=\.\.\. on \w\w)(?= )", r"\.\.\.(?= \{)",
                r"(?<=\))(?= \{)", r"(?<=on \w\w)(?= \{)", r"(?<=: Int)(?=[,)])"]
        ms = []
        for pat in rng.sample(pats, 3):
            ms += list(re.finditer(pat, text))
        if not ms:
            return None
        m = rng.choice(ms)
        ins = rng.choice(STREAM_ARGS)
        text = text[:m.end()] + " " + ins + text[m.end():]
    return text


def stream_together(schema, doc, paths, order):
    """the errors StreamDirectiveOnListField reports inside validate() with all specified rules"""
    from graphql.validation import validate
    tags = {}
    try:
        errs = validate(schema, doc, crules.tagged_rules(tags, order), max_errors=BIG)
    except RecursionError:
        return ("raised", "RecursionError")
    except Exception as e:  # noqa: BLE001
        return ("raised", type(e).__name__)
    return [(STREAM_CODE, tuple(paths.get(id(n)) for n in (e.nodes or ()))) for e in errs
            if tags.get(id(e)) == STREAM_NAME]


def core_stream(ck, tier, model_ok, budget_s=None):
    """StreamDirectiveOnListField: the real rule alone and inside validate() (specified order, reversed) vs the
    extracted Valid/RulesStream.v (model rules13, op 6), as multisets of (rule, path of the directive)."""
    from graphql import build_schema, parse
    from graphql.type import validate_schema
    from graphql.validation import specified_rules
    import graphql.validation as V

    quick = tier == "quick"
    rng = ck.rng
    t0 = time.time()
    budget = budget_s if budget_s is not None else (10 if quick else 120)
    m = Model(MODEL) if model_ok else None
    cls = getattr(V, STREAM_NAME, None)
    if m is None or cls is None:
        ck.degraded.append("stream rule: model not built or rule class absent: nothing compared")
        return
    raise_stack_limit()
    ck.extra["stream_rule"] = (
        "per generated schema (gen_exec.GSchema): type-directed documents with @stream inserted at one to three directive "
        "positions (fields of list / non-list / unknown type, __typename, spreads, inline fragments with and without type "
        "condition nested in fields, operations, fragment and variable definitions), plus c13.mutate mutants of them "
        "(unknown fields, leaf types with selection sets). StreamDirectiveOnListField alone, and inside validate() with all "
        "specified rules in specified and reversed order, vs Valid/RulesStream.v as multisets of (rule, directive path)")
    corpus = [c for c in common.load_corpus("CSTREAM") if "sdl" in c and "text" in c]
    n_docs = 10 if quick else 30
    orders = [None, list(reversed(specified_rules))]
    while True:
        if not corpus and time.time() - t0 > budget:
            break
        if corpus:
            c = corpus.pop()
            sdl, texts = c["sdl"], [from_cps(c["text"])]
        else:
            gs = G.GSchema(rng)
            sdl, texts = gs.sdl(), []
            for _ in range(n_docs):
                dg = G.DocGen(rng, gs, max_depth=rng.choice([2, 3, 3, 4]))
                base = dg.document()
                for _ in range(3):
                    t2 = mutate_stream(rng, base)
                    if t2:
                        texts.append(t2)
                        t3 = c13.mutate(rng, t2)
                        if t3 and t3 != t2 and "@stream" in t3:
                            texts.append(t3)
        try:
            schema = build_schema(sdl)
            if validate_schema(schema):
                continue
            head = G.flatten(G.enc_schema(schema)) + G.flatten(enc_dirtable(schema))
        except Exception:  # noqa: BLE001
            ck.count("stream_skipped_schema")
            continue
        items = []
        for text in texts:
            try:
                doc = parse(text)
                if out_of_fragment(text, doc):
                    ck.count("stream_skipped_out_of_fragment")
                    continue
                items.append((text, doc, pc.enc_node(doc)))
            except Exception:  # noqa: BLE001
                ck.count("stream_skipped_unparseable")
        if not items:
            continue
        outs = m.run_batch([[6] + head + it[2] for it in items])
        for (text, doc, _), a6 in zip(items, outs):
            paths = crules.node_paths(doc)
            replay = {"sdl": sdl, "text": cps(text), "kind": "stream"}
            model = crules.dec_errors(a6)
            if not isinstance(model, dict):
                ck.violation(f"stream-model:{text!r}", f"the stream rule model gives no answer for {text[:100]!r}",
                             dict(replay, relation="the input decodes"))
                continue
            mm = model.get(STREAM_CODE, [])
            alone = impl_rule(schema, doc, cls, STREAM_CODE, paths)
            ck.count("stream_docs")
            if not isinstance(alone, list):
                ck.count("stream_rule_raised")
                if mm:
                    ck.violation(f"stream-raised:{text!r}", f"{STREAM_NAME} raised {alone[1]} where the model reports {mm} on {text[:160]!r}",
                                 dict(replay, relation="rule = Valid/RulesStream.v: the rule raises instead of reporting"))
                continue
            if alone:
                ck.count("stream_docs_with_error")
                ck.count("stream_errors", len(alone))
            if Counter(alone) != Counter(mm):
                ck.violation(f"stream:{text!r}",
                             f"{STREAM_NAME} reports {alone} but the model {mm} on {text[:160]!r}",
                             dict(replay, relation="rule alone = Valid/RulesStream.v (multiset of (rule, directive path))",
                                  impl=str(alone), model=str(mm)))
                continue
            for order in orders:
                tg = stream_together(schema, doc, paths, order)
                if not isinstance(tg, list):
                    ck.count("stream_together_raised")
                    continue
                ck.count("stream_together_runs")
                if Counter(tg) != Counter(alone):
                    ck.violation(f"stream-together:{text!r}",
                                 f"{STREAM_NAME} reports {tg} inside validate() with all rules "
                                 f"({'specified' if order is None else 'reversed'} order) but {alone} alone on {text[:160]!r}",
                                 dict(replay, relation="rule together = rule alone (multiset)", together=str(tg), alone=str(alone)))
                    break
            ck.note_case(("cstream", sdl, text), nontrivial=bool(alone) or "@stream" in text,
                         sample={"text": text[:200], "errors": len(alone)} if alone and rng.random() < 0.01 else None)
    ck.extra["stream_t_s"] = round(time.time() - t0, 1)


def replay_stream(d):
    """re-run the stream rule comparison on the (sdl, text) of a replay file"""
    import os
    import tempfile
    br = common.build("C12", models=(MODEL,))
    if not br.ok:
        print("build failed:", br.log[-400:])
        return 2
    ck = Check("C12", "replay")
    ck.known = []
    tmp = tempfile.mkdtemp()
    saved = common.CORPUS
    try:
        os.makedirs(os.path.join(tmp, "CSTREAM"))
        with open(os.path.join(tmp, "CSTREAM", "r.json"), "w") as f:
            json.dump({"sdl": d["sdl"], "text": d["text"]}, f)
        from pathlib import Path
        common.CORPUS = Path(tmp)
        print("schema:\n" + d["sdl"][:1500])
        print("document:", from_cps(d["text"]))
        core_stream(ck, "quick", True, budget_s=0)
    finally:
        common.CORPUS = saved
        import shutil
        shutil.rmtree(tmp, ignore_errors=True)
    for key, what, _ in ck.violations:
        print("VIOLATION:", what)
    print("STILL FAILING" if ck.violations else "passes now")
    return 1 if ck.violations else 0


def match_foreign(ck, doc, a, mm):
    from graphql.language import ast as A
    ca, cm = Counter(a), Counter(mm)
    common_ = ca & cm
    ra, rm = list((ca - common_).elements()), list((cm - common_).elements())
    foreign = [x for x in ra if None in x[1]]
    ra = [x for x in ra if None not in x[1]]
    keep = []
    for x in rm:
        try:
            n = crules.node_at(doc, x[1][0])
        except Exception:  # noqa: BLE001
            n = None
        if foreign and isinstance(n, (A.ListValueNode, A.ObjectValueNode)):
            foreign.pop()
            ck.count("finding_error_without_location")
        else:
            keep.append(x)
    return ra + foreign, keep


def _nf(ints):
    return norm_floats(list(ints))


def run(tier):
    ck = Check(PID, tier)
    ck.assumptions += ASSUMPTIONS
    has_thms = (common.COQ / "theories" / "Properties" / f"{THMS}.v").exists()
    br = common.build(PID, models=(MODEL, "overlap"),
                      extra_targets=(f"theories/Properties/{THMS}.vo",) if has_thms else ())
    account_proofs(ck, br)
    core(ck, tier, br.ok, budget_s=70 if tier == "quick" else 800)
    core_stream(ck, tier, br.ok, budget_s=15 if tier == "quick" else 200)
    return ck.finish()


def replay(path):
    from graphql import build_schema, parse
    d = json.loads(open(path).read())
    br = common.build(PID, models=(MODEL,))
    if not br.ok:
        print("build failed:", br.log[-400:])
        return 2
    ck = Check(PID, "replay")
    ck.known = []
    m = Model(MODEL)
    raise_stack_limit()
    schema = build_schema(d["sdl"])
    text, opname = from_cps(d["text"]), d.get("operation_name")
    print("schema:\n" + d["sdl"][:1500])
    print("document:", text, "operation:", opname)
    doc = parse(text)
    head = G.flatten(G.enc_schema(schema)) + G.flatten(enc_dirtable(schema))
    hdr = [0] if opname is None else [len(opname) + 1] + cps(opname)
    w = pc.enc_node(doc)
    a0, a1, a2, a5 = (m.run_batch([[0] + head + w])[0], m.run_batch([[1] + hdr + head + w])[0],
                      m.run_batch([[2] + hdr + head + w])[0], m.run_batch([[5] + hdr + head + w])[0])
    classes = rule_classes([n for _, n in RULES] + EXTRA)
    judge(ck, schema, d["sdl"], classes, text, opname, "replay", doc, a0, a1, a2, a5, c14_verdicts(schema, [doc])[0])
    for key, what, _ in ck.violations:
        print("VIOLATION:", what)
    print("STILL FAILING" if ck.violations else "passes now")
    return 1 if ck.violations else 0
