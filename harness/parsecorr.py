"""Parser correspondence: implementation parse entry points vs the extracted model
(coq/theories/Lang/Parser.v, Run/RunParser.v).  Generic AST wire codec shared with Lang/Ast.v."""
from __future__ import annotations

import dataclasses

from .common import cps
from .gen_tables import KIND_CODE

# kind strings of the concrete node classes, sorted: the wire code is the index (Lang/Ast.v nkind)
KINDS = sorted([
    "argument", "argument_coordinate", "boolean_value", "directive",
    "directive_argument_coordinate", "directive_coordinate", "directive_definition",
    "directive_extension", "document", "enum_type_definition", "enum_type_extension",
    "enum_value", "enum_value_definition", "field", "field_definition", "float_value",
    "fragment_argument", "fragment_definition", "fragment_spread", "inline_fragment",
    "input_object_type_definition", "input_object_type_extension", "input_value_definition",
    "int_value", "interface_type_definition", "interface_type_extension", "list_type",
    "list_value", "member_coordinate", "name", "named_type", "non_null_type", "null_value",
    "object_field", "object_type_definition", "object_type_extension", "object_value",
    "operation_definition", "operation_type_definition", "scalar_type_definition",
    "scalar_type_extension", "schema_definition", "schema_extension", "selection_set",
    "string_value", "type_coordinate", "union_type_definition", "union_type_extension",
    "variable", "variable_definition"])
KIND_INDEX = {k: i for i, k in enumerate(KINDS)}

ENTRIES = ["document", "value", "const_value", "type", "coordinate"]
K_LEXERR = 23


class OutOfFragment(Exception):
    pass


_FIELDS = {}


def node_fields(cls):
    f = _FIELDS.get(cls)
    if f is None:
        f = _FIELDS[cls] = [x.name for x in dataclasses.fields(cls) if x.name != "loc"]
    return f


def enc_node(n):
    """Implementation node -> wire (Ast.enc_node)."""
    from graphql.language import Node
    from graphql.language.ast import OperationType
    k = KIND_INDEX.get(getattr(n, "kind", None))
    if k is None:
        raise OutOfFragment(f"node kind {getattr(n, 'kind', None)!r}")
    fs = node_fields(type(n))
    out = [k, len(fs)]
    for f in fs:
        v = getattr(n, f)
        if v is None:
            out.append(0)
        elif isinstance(v, Node):
            out.append(1)
            out += enc_node(v)
        elif isinstance(v, (tuple, list)):
            out += [2, len(v)]
            for c in v:
                if not isinstance(c, Node):
                    raise OutOfFragment("non-node in tuple")
                out += enc_node(c)
        elif isinstance(v, bool):
            out += [4, 1 if v else 0]
        elif isinstance(v, OperationType):
            out += [5, list(OperationType).index(v)]
        elif isinstance(v, str):
            out += [3, len(v)] + cps(v)
        else:
            raise OutOfFragment(f"attribute {f}={v!r}")
    return out


def dec_node(w, i=0):
    """wire -> (readable nested tuple, next index); for messages only."""
    k, n = w[i], w[i + 1]
    i += 2
    attrs = []
    for _ in range(n):
        t = w[i]
        i += 1
        if t == 0:
            attrs.append(None)
        elif t == 1:
            x, i = dec_node(w, i)
            attrs.append(x)
        elif t == 2:
            m = w[i]
            i += 1
            l = []
            for _ in range(m):
                x, i = dec_node(w, i)
                l.append(x)
            attrs.append(tuple(l))
        elif t == 3:
            m = w[i]
            attrs.append("".join(map(chr, w[i + 1:i + 1 + m])))
            i += 1 + m
        elif t == 4:
            attrs.append(bool(w[i]))
            i += 1
        else:
            attrs.append(("enum", w[i]))
            i += 1
    return (KINDS[k] if k < len(KINDS) else k, *attrs), i


def describe(enc):
    if not enc:
        return {"other": enc}
    if enc[0] == 0:
        try:
            return {"token_count": enc[1], "tree": dec_node(enc, 2)[0]}
        except Exception:  # noqa: BLE001
            return {"ok": enc[:40]}
    if enc[0] == 1:
        return {"syntax_error_at": enc[1]}
    if enc[0] == 2:
        return {"raised": enc[1]}
    if enc[0] == 3:
        return {"model": "out of fuel"}
    return {"other": enc[:40]}


def impl_fn(which):
    from graphql.language import parse, parse_const_value, parse_type, parse_value
    from graphql.language.parser import parse_schema_coordinate
    return [parse, parse_value, parse_const_value, parse_type, parse_schema_coordinate][which]


def impl_call(which, text, max_tokens=None, xfa=False, xdd=False, no_location=True):
    kw = dict(no_location=no_location, max_tokens=max_tokens)
    if which != 4:
        kw.update(experimental_fragment_arguments=xfa,
                  experimental_directives_on_directive_definitions=xdd)
    return impl_fn(which)(text, **kw)


def impl_parse(which, text, max_tokens=None, xfa=False, xdd=False):
    """-> wire like RunParser op 0: [0, token_count|-1, tree] | [1, pos] | [2, exc name]."""
    from graphql.error import GraphQLSyntaxError
    try:
        d = impl_call(which, text, max_tokens, xfa, xdd)
    except GraphQLSyntaxError as e:
        return [1, e.positions[0]]
    except RecursionError:
        raise OutOfFragment("recursion limit")
    except Exception as e:  # noqa: BLE001
        return [2, type(e).__name__]
    return [0, d.token_count if which == 0 else -1] + enc_node(d)


def model_case(op, which, text, max_tokens=None, xfa=False, xdd=False):
    return [op, which, 0 if max_tokens is None else 1, max_tokens or 0,
            1 if xfa else 0, 1 if xdd else 0] + cps(text)


def same_result(which, impl, model):
    """Compare op-0 results; token_count only for documents."""
    if impl[0] == 0 and model and model[0] == 0 and which != 0:
        return impl[2:] == model[2:]
    return impl == model


def sig_tokens(text, coord=False):
    """(kind code, value code points) of the significant tokens of `text` (EOF excluded) via the
    implementation's lexer."""
    from graphql.language import Lexer, Source, TokenKind
    if coord:
        from graphql.language.schema_coordinate_lexer import SchemaCoordinateLexer as L
    else:
        L = Lexer
    lx = L(Source(text))
    out = []
    while True:
        t = lx.advance()
        if t.kind == TokenKind.EOF:
            return out
        out.append((KIND_CODE[t.kind.name], cps(t.value) if t.value is not None else []))


def dec_tokens(enc):
    """RunParser op 1 output -> list of (kind, value cps)."""
    assert enc[0] == 0
    n, i, out = enc[1], 2, []
    for _ in range(n):
        k, m = enc[i], enc[i + 1]
        out.append((k, enc[i + 2:i + 2 + m]))
        i += 2 + m
    return out
