"""Lexer correspondence shared by C01 / C09 / C10: impl Lexer vs extracted Lang/Lexer.v."""
from __future__ import annotations

from .common import cps
from .gen_tables import KIND_CODE

LEX_ALPHA16 = ["a", "1", "0", "-", ".", "e", '"', "\\", "u", "{", "}", "#", " ", "\n", "\r", "\ud800"]


def impl_lex(body, coord=False):
    """Encode the implementation's token list (comments included) like Run.enc_lex."""
    from graphql.error import GraphQLSyntaxError
    from graphql.language import Lexer, Source, TokenKind
    try:
        if coord:
            from graphql.language.schema_coordinate_lexer import SchemaCoordinateLexer as L
        else:
            L = Lexer
        lx = L(Source(body))
        n = 0
        while lx.advance().kind != TokenKind.EOF:
            n += 1
            if n > len(body) + 2:
                return [4, 0]  # does not terminate
        t = lx.token
        while t.prev is not None:
            t = t.prev
        toks = []
        t = t.next  # skip SOF
        while t is not None:
            toks.append(t)
            t = t.next
        out = [0, len(toks)]
        for t in toks:
            v = t.value
            out += [KIND_CODE[t.kind.name], t.start, t.end, t.line, t.column,
                    0 if v is None else 1, 0 if v is None else len(v)]
            if v is not None:
                out += cps(v)
        return out
    except GraphQLSyntaxError as e:
        return [1, e.positions[0]]
    except Exception as e:  # noqa: BLE001
        return [2, type(e).__name__]


def decode_tokens(enc):
    """[0, n, tokens...] -> list of (kind, start, end, line, col, value|None)."""
    assert enc[0] == 0
    n, i, out = enc[1], 2, []
    for _ in range(n):
        k, s, e, ln, col, hv, vl = enc[i:i + 7]
        i += 7
        v = enc[i:i + vl]
        i += vl
        out.append((k, s, e, ln, col, "".join(map(chr, v)) if hv else None))
    return out


def describe(enc):
    if enc[0] == 0:
        return {"tokens": decode_tokens(enc)}
    if enc[0] == 1:
        return {"syntax_error_at": enc[1]}
    if enc[0] == 2:
        return {"raised": enc[1]}
    return {"other": enc}


def compare(ck, model, bodies, coord=False, relation="lexer = model", key_prefix="lex",
            nontrivial=None):
    """Run impl and model on all bodies; report differences as violations of `ck`."""
    op = 11 if coord else 10
    res = model.run_batch([[op] + cps(b) for b in bodies])
    nd = 0
    for b, want in zip(bodies, res):
        got = impl_lex(b, coord)
        nt = (want[0] == 0 and want[1] >= 3) or (want[0] == 1 and want[1] > 0)
        if nontrivial is not None:
            nt = nontrivial(b, want)
        ck.note_case((key_prefix, b), nontrivial=nt)
        ck.count("lex_ok" if want[0] == 0 else "lex_reject")
        if got != want:
            nd += 1
            ck.violation(f"{key_prefix}:{b!r}",
                         f"lexing {b!r}: implementation {describe(got)} but the grammar (model) gives {describe(want)}",
                         {"relation": relation, "body": cps(b), "impl": describe(got),
                          "model": describe(want)})
    return nd
