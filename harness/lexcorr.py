"""Lexer correspondence shared by C01 / C09 / C10: impl Lexer vs extracted Lang/Lexer.v."""
from __future__ import annotations

from .common import cps
from .gen_tables import KIND_CODE

LEX_ALPHA16 = ["a", "1", "0", "-", ".", "e", '"', "\\", "u", "{", "}", "#", " ", "\n", "\r", "\ud800"]


def escape_family(rng=None, extra=0):
    """Strings exercising every escape reader around the code-point boundaries: fixed-width escapes alone and in
    (would-be) surrogate pairs, variable-width escapes, mixed with raw surrogates; quoted and block form."""
    bound = ["0000", "0001", "0009", "001F", "0022", "005C", "007F", "00E9", "D7FF", "D800", "D801", "DBFF", "DC00",
             "DC01", "DFFF", "E000", "E001", "FFFD", "FFFF", "d83d", "de00", "dbff", "dfff", "e000"]
    if rng is not None:
        bound = bound + ["%04X" % rng.randrange(0x10000) for _ in range(extra)]
    out = []
    for a in bound:
        out.append('"\\u%s"' % a)
        out.append('"x\\u%sy"' % a)
        out.append('"\\u%s' % a)
        out.append('"\\u%s\\' % a)
        out.append('"\\u%s\\u' % a)
        out.append('"\\u%s\\n"' % a)
        out.append('"\\u%s\ud83d"' % a)
        out.append('"\ud83d\\u%s"' % a)
        out.append('"\\u{%s}"' % a)
        out.append('"\\u{%s}\\u{%s}"' % (a, a))
        out.append('"\\u%s\\u{DC00}"' % a)
        out.append('"\\u{D83D}\\u%s"' % a)
        out.append('"""\\u%s"""' % a)
        for b in bound:
            out.append('"\\u%s\\u%s"' % (a, b))
    for bad in ["ZZZZ", "00", "", "G000", "000G", "{", "12", "-001", "00\n", " 0000", "D83"]:
        for b in ["DE00", "DC00", "DFFF", "D83D", "0041", "E000"]:
            out.append('"\\u%s\\u%s"' % (bad, b))
            out.append('"\\u%s\\u%s' % (bad, b))
            out.append('"\\u%s\\u{%s}"' % (bad, b))
            out.append('"\\u{%s}\\u%s"' % (bad, b))
    for v in ["0", "00000000", "10FFFF", "110000", "0010FFFF", "00110000", "FFFFFF", "FFFFFFF", "FFFFFFFF", "123456789",
              "D7FF", "D800", "DFFF", "E000", "", "G", "1G", " 1", "1 ", "-1", "+1", "1F600", "1f600", "{1}"]:
        out.append('"\\u{%s}"' % v)
        out.append('"\\u{%s"' % v)
        out.append('"\\u{%s}x' % v)
    for e in ['b', 'f', 'n', 'r', 't', '"', '/', '\\\\', 'a', 'x41', 'U0041', '0', ' ', '\n', 'u', 'u1', 'u12', 'u123', 'u{', 'u}', 'u{}']:
        out.append('"\\%s"' % e)
        out.append('"\\%s' % e)
    return out


def impl_lex(body, coord=False):
    """Encode the implementation's token list (comments included) like Run.enc_lex."""
    from graphql.error import GraphQLSyntaxError
    from graphql.language import Lexer, Source, TokenKind
    try:
        if coord:
            from graphql.language.schema_coordinate_lexer import SchemaCoordinateLexer as L
        else:
            L = Lexer
        lx = L(Source(body))
        n = 0
        while lx.advance().kind != TokenKind.EOF:
            n += 1
            if n > len(body) + 2:
                return [4, 0]  # does not terminate
        t = lx.token
        while t.prev is not None:
            t = t.prev
        toks = []
        t = t.next  # skip SOF
        while t is not None:
            toks.append(t)
            t = t.next
        out = [0, len(toks)]
        for t in toks:
            v = t.value
            out += [KIND_CODE[t.kind.name], t.start, t.end, t.line, t.column,
                    0 if v is None else 1, 0 if v is None else len(v)]
            if v is not None:
                out += cps(v)
        return out
    except GraphQLSyntaxError as e:
        return [1, e.positions[0]]
    except Exception as e:  # noqa: BLE001
        return [2, type(e).__name__]


def decode_tokens(enc):
    """[0, n, tokens...] -> list of (kind, start, end, line, col, value|None)."""
    assert enc[0] == 0
    n, i, out = enc[1], 2, []
    for _ in range(n):
        k, s, e, ln, col, hv, vl = enc[i:i + 7]
        i += 7
        v = enc[i:i + vl]
        i += vl
        out.append((k, s, e, ln, col, "".join(map(chr, v)) if hv else None))
    return out


def describe(enc):
    if enc[0] == 0:
        return {"tokens": decode_tokens(enc)}
    if enc[0] == 1:
        return {"syntax_error_at": enc[1]}
    if enc[0] == 2:
        return {"raised": enc[1]}
    return {"other": enc}


def compare(ck, model, bodies, coord=False, relation="lexer = model", key_prefix="lex",
            nontrivial=None):
    """Run impl and model on all bodies; report differences as violations of `ck`."""
    op = 11 if coord else 10
    res = model.run_batch([[op] + cps(b) for b in bodies])
    nd = 0
    for b, want in zip(bodies, res):
        got = impl_lex(b, coord)
        nt = (want[0] == 0 and want[1] >= 3) or (want[0] == 1 and want[1] > 0)
        if nontrivial is not None:
            nt = nontrivial(b, want)
        ck.note_case((key_prefix, b), nontrivial=nt)
        ck.count("lex_ok" if want[0] == 0 else "lex_reject")
        if got != want:
            nd += 1
            ck.violation(f"{key_prefix}:{b!r}",
                         f"lexing {b!r}: implementation {describe(got)} but the grammar (model) gives {describe(want)}",
                         {"relation": relation, "body": cps(b), "impl": describe(got),
                          "model": describe(want)})
    return nd
