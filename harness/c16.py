"""C16 - leaf results are serialised within the specification's value domains.

Value specs (JSON-able, used in replays):
  ["none"] ["undef"] ["bool", b] ["int", hex, sub] ["float", float.hex()|"nan"|"inf"|"-inf", sub]
  ["str", [code points], sub] ["bytes", [ints]] ["list", [spec..]] ["tuple", [spec..]] ["dict", [[key cps, spec]..]]
  ["obj", id, builtin, [code points of str(o)]]
  ["mapping", id, [[key cps, spec]..]]   a types.MappingProxyType (a Mapping that is no dict); opaque object in the models
  ["pyenum", class, member name]  ["pyflag", class, int]   members of the Python Enum classes Color/Other/Perm/Num
      below (Flag combinations by value).  In the model a non-int member is an object compared by identity whose
      str() is str(member); a member of the IntEnum Num is the int it is.
`sub` = 1 builds an instance of a trivial subclass (class I(int): pass) of the base type.
"""
from __future__ import annotations

import json
import math
import struct
import sys

from . import common
from .common import Check, Model

SCALARS = ["Int", "Float", "String", "Boolean", "ID"]
LIMB = 1 << 32

ASSUMPTIONS = [
    "C16 model: Types/Scalars.v (serialize_*/coerce_* of scalars.py, enum value lookup, complete_leaf); "
    "floats are exact dyadics; Python == modelled by pyeq for None/Undefined/bool/int/float/str/bytes/list/"
    "dict with str keys/objects compared by identity",
    "oracles supplied per case by the harness from CPython: int(s), float(s) of a str value, str(x) of a finite "
    "float, sys.get_int_max_str_digits(); the theorems hold for every oracle",
    "an exception of any class raised by coerce_output_value counts as 'error' (the executor turns every "
    "Exception into a field error); the non-GraphQLError ones are counted in distribution.error_not_graphql_error",
    "Float results are compared by exact numeric value (the int 1 returned for True equals 1.0); all other "
    "results by type and exact value",
]



def rp(x, n=80):
    """repr that cannot fail or explode (huge ints exceed the interpreter's int->str limit)."""
    try:
        if isinstance(x, int) and not isinstance(x, bool) and abs(x) >= 1 << 200:
            return f"<int of {x.bit_length()} bits, {hex(x)[:24]}...>"
        return repr(x)[:n]
    except Exception as e:  # noqa: BLE001
        return f"<{type(x).__name__}: repr raised {type(e).__name__}>"


# --------------------------------------------------------------------------- spec -> python / wire

class I(int):
    pass


class F(float):
    pass


class S(str):
    pass


class Custom:
    """Opaque object of a non-builtin module with a __str__."""

    def __init__(self, s):
        self._s = s

    def __str__(self):
        return self._s


import enum as _enum


class Color(_enum.Enum):
    RED = 1
    GREEN = 2
    BLUE = 3


class Other(_enum.Enum):        # a foreign Enum: same member name and value as Color.RED, yet a different value
    RED = 1
    X = "A"


class Perm(_enum.Flag):
    R = 1
    W = 2
    X = 4


class Num(_enum.IntEnum):       # members ARE ints: Num.ONE == 1, hash(Num.ONE) == hash(1)
    ONE = 1
    TWO = 2


PYENUMS = {"Color": Color, "Other": Other, "Perm": Perm, "Num": Num}
_MEMBER_IDS = {}


def member_id(m):
    """stable identity number of a (non-int) Enum member or Flag combination."""
    k = (type(m).__name__, m.value)
    if k not in _MEMBER_IDS:
        _MEMBER_IDS[k] = 1000 + 50 * sorted(PYENUMS).index(type(m).__name__) + (m.value if isinstance(m.value, int) else 40)
    return _MEMBER_IDS[k]


def py_member(spec):
    cls = PYENUMS[spec[1]]
    return cls[spec[2]] if spec[0] == "pyenum" else cls(spec[2])


class Registry:
    """identity-compared objects by id (the same id gives the same object)."""

    def __init__(self):
        self.objs = {}

    def get(self, oid, builtin, s):
        k = oid
        if k not in self.objs:
            self.objs[k] = object() if builtin else Custom(s)
        return self.objs[k]


def to_py(spec, reg):
    from graphql.pyutils import Undefined
    k = spec[0]
    if k == "none":
        return None
    if k == "undef":
        return Undefined
    if k == "bool":
        return bool(spec[1])
    if k == "int":
        z = int(spec[1], 16)
        return I(z) if spec[2] else z
    if k == "float":
        x = float.fromhex(spec[1]) if spec[1] not in ("nan", "inf", "-inf") else float(spec[1])
        return F(x) if spec[2] else x
    if k == "str":
        s = "".join(map(chr, spec[1]))
        return S(s) if spec[2] else s
    if k == "bytes":
        return bytes(spec[1])
    if k == "list":
        return [to_py(x, reg) for x in spec[1]]
    if k == "tuple":
        return tuple(to_py(x, reg) for x in spec[1])
    if k == "dict":
        return {"".join(map(chr, kk)): to_py(x, reg) for kk, x in spec[1]}
    if k == "obj":
        return reg.get(spec[1], spec[2], "".join(map(chr, spec[3])))
    if k in ("pyenum", "pyflag"):
        return py_member(spec)
    if k == "mapping":      # a Mapping that is not a dict
        import types
        return types.MappingProxyType({"".join(map(chr, kk)): to_py(x, reg) for kk, x in spec[2]})
    raise ValueError(spec)


def enc_big(n):
    ls = []
    while n:
        ls.append(n % LIMB)
        n //= LIMB
    return [len(ls)] + ls


def enc_Z(z):
    return [1 if z < 0 else 0] + enc_big(abs(z))


def enc_text(cps):
    return [len(cps)] + list(cps)


def enc_float(x):
    """exact: sign, odd mantissa, exponent (or mantissa 0 exponent 0)."""
    if x != x:
        return [0]
    if x in (math.inf, -math.inf):
        return [1, 1 if x < 0 else 0]
    neg = 1 if math.copysign(1.0, x) < 0 else 0
    num, den = abs(float(x)).as_integer_ratio()
    if num == 0:
        return [2, neg] + enc_big(0) + enc_Z(0)
    e = 0
    if den == 1:
        while num % 2 == 0:
            num //= 2
            e += 1
    else:
        e = -(den.bit_length() - 1)
    return [2, neg] + enc_big(num) + enc_Z(e)


def to_wire(spec):
    k = spec[0]
    if k == "none":
        return [0]
    if k == "undef":
        return [1]
    if k == "bool":
        return [2, 1 if spec[1] else 0]
    if k == "int":
        return [3] + enc_Z(int(spec[1], 16))
    if k == "float":
        return [4] + enc_float(float.fromhex(spec[1]) if spec[1] not in ("nan", "inf", "-inf") else float(spec[1]))
    if k == "str":
        return [5] + enc_text(spec[1])
    if k == "bytes":
        return [6] + enc_text(spec[1])
    if k in ("list", "tuple"):
        out = [7 if k == "list" else 10, len(spec[1])]
        for x in spec[1]:
            out += to_wire(x)
        return out
    if k == "dict":
        out = [8, len(spec[1])]
        for kk, x in spec[1]:
            out += enc_text(kk) + to_wire(x)
        return out
    if k == "obj":
        return [9, spec[1], 1 if spec[2] else 0] + enc_text(spec[3])
    if k in ("pyenum", "pyflag"):
        m = py_member(spec)
        if isinstance(m, int):
            return [3] + enc_Z(int(m))
        return [9, member_id(m), 0] + enc_text([ord(c) for c in str(m)])
    if k == "mapping":      # in the models: an opaque object of a builtins type (types.MappingProxyType)
        return [9, spec[1], 1, 0]
    raise ValueError(spec)


def enc_result(r, as_float=False):
    """Wire form of a value returned by the implementation (None if not a JSON scalar)."""
    if r is None:
        return [0]
    t = type(r)
    if t is bool:
        return [2, 1 if r else 0]
    if isinstance(r, int):
        if as_float:
            try:
                x = float(r)
            except OverflowError:
                return None
            return [4] + enc_float(x) if int(x) == r else None
        return [3] + enc_Z(int(r))
    if isinstance(r, float):
        return [4] + enc_float(r)
    if isinstance(r, str):
        return [5] + enc_text([ord(c) for c in r])
    return None


def norm_model(out, as_float):
    """model answer -> comparable form ([1] error, [0]+value)."""
    if as_float and out[:2] == [0, 3]:
        # PInt z from serialize_float(bool): compare numerically
        sign, n = out[2], out[3]
        z = sum(l << (32 * i) for i, l in enumerate(out[4:4 + n]))
        z = -z if sign else z
        return [0, 4] + enc_float(float(z))
    return out


def oracles(v):
    """[maxd, int(s)?, float(s)?, str(x)] for the value v."""
    maxd = sys.get_int_max_str_digits() if hasattr(sys, "get_int_max_str_digits") else 0
    oi, of, fs = [0], [0], [0]
    if isinstance(v, str):
        try:
            oi = [1] + enc_Z(int(v))
        except ValueError:
            pass
        try:
            of = [1] + enc_float(float(v))
        except ValueError:
            pass
    if isinstance(v, float) and math.isfinite(v):
        fs = enc_text([ord(c) for c in float.__str__(float(v))])
    return [maxd] + oi + of + fs


# --------------------------------------------------------------------------- generators

def ispec(z, sub=0):
    return ["int", hex(z), sub]


def fspec(x, sub=0):
    return ["float", "nan" if x != x else ("inf" if x == math.inf else ("-inf" if x == -math.inf else x.hex())), sub]


def sspec(s, sub=0):
    return ["str", [ord(c) for c in s], sub]


EDGE_STRINGS = [
    "", " ", "  ", "\t", "\n", "0", "1", "-1", "+1", "-0", "00", "01", "1.0", "1.", ".5", "-.5", "1e3", "1E3", "1e-3",
    "1e400", "-1e400", "1e-400", " 1", "1 ", " 1 ", "\n1\n", " 1", "1 ", "١", "١٢٣",
    "１２", "१", "0x10", "0b1", "0o7", "1_000", "1__0", "_1", "1_", "1_0.5", "1,000", "١.٥", "nan", "NaN",
    "-nan", "inf", "-inf", "Infinity", "-Infinity", "+inf", "infinity", "INF", "true", "false", "True", "None", "null",
    "2147483647", "2147483648", "-2147483648", "-2147483649", "2147483647.0", "2147483648.5", "9007199254740993",
    "1" * 400, "9" * 4300, "9" * 4301, "1" + "0" * 5000, "1e", "e1", "--1", "+-1", "1+1", "1j", "0.1", "3.14", "abc",
    "\ud800", "1\x00", "\x00", "١e٢", "１.５", "1.7976931348623157e308", "1.7976931348623159e308", "4.9e-324", "2e-324",
    "0.0", "-0.0", "+0.0", "é", "\U0001f600", "1 ", " 1", "​1", "1 ", "\x1c1", "١٢٣٤٥٦٧٨٩٠١",
]


def edge_values(thorough=False):
    vals = [["none"], ["undef"], ["bool", 1], ["bool", 0]]
    ints = [0, 1, -1, 2, 7, 10, 255, 2 ** 31 - 1, 2 ** 31, -2 ** 31, -2 ** 31 - 1, 2 ** 32, 2 ** 53 - 1, 2 ** 53,
            2 ** 53 + 1, 2 ** 53 + 2, -(2 ** 53 + 1), 2 ** 54 + 2, 2 ** 54 + 4, 2 ** 63, 2 ** 64 - 1, 2 ** 64, 10 ** 20,
            10 ** 22, 10 ** 23, 2 ** 100, 2 ** 100 + 1, 3 * 2 ** 200, (2 ** 53 - 1) * 2 ** 971, (2 ** 53 - 1) * 2 ** 971 + 1,
            2 ** 1023, 2 ** 1024 - 2 ** 970, 2 ** 1024 - 2 ** 970 - 1, 2 ** 1024 - 1, 2 ** 1024, 2 ** 1024 + 1,
            -2 ** 1024, 2 ** 1025, 2 ** 2000, 10 ** 400, 10 ** 4300 - 1, 10 ** 4300]
    if thorough:
        ints += [10 ** 4299, -10 ** 4300, -(10 ** 4300 - 1), 10 ** 5000, 2 ** 20000]
    for z in ints:
        vals.append(ispec(z))
    vals += [ispec(5, 1), ispec(2 ** 31, 1), ispec(-3, 1), ispec(2 ** 53 + 1, 1)]
    floats = [0.0, -0.0, 1.0, -1.0, 0.5, -0.5, 1.5, 0.1, 1e3, 2.0 ** 31 - 1, 2.0 ** 31, -(2.0 ** 31), -(2.0 ** 31) - 1,
              2147483647.5, 2147483646.9999995, 2.0 ** 53, 2.0 ** 53 + 2, 2.0 ** 63, 1e22, 1e23, 1e100, 1e308,
              1.7976931348623157e308, -1.7976931348623157e308, 5e-324, -5e-324, 2.2250738585072014e-308,
              2.225073858507201e-308, 1e-310, math.nan, math.inf, -math.inf, 123456789.0, 1e16, 1e15 + 0.5, 3.0e9,
              4294967296.0, -2147483648.5]
    for x in floats:
        vals.append(fspec(x))
    vals += [fspec(2.0, 1), fspec(2.5, 1), fspec(math.nan, 1)]
    for s in EDGE_STRINGS:
        vals.append(sspec(s))
    vals += [sspec("12", 1), sspec("", 1), sspec("x", 1)]
    vals += [["bytes", []], ["bytes", [49]], ["bytes", [49, 50]], ["bytes", [0xff]]]
    vals += [["list", []], ["list", [ispec(1)]], ["list", [sspec("1")]], ["list", [["list", []]]],
             ["list", [fspec(math.nan)]], ["list", [ispec(1), ["bool", 1], fspec(1.0)]],
             ["dict", []], ["dict", [[[97], ispec(1)]]], ["dict", [[[97], ["list", [ispec(1)]]], [[98], ["none"]]]]]
    vals += [["tuple", []], ["tuple", [ispec(1)]], ["tuple", [ispec(1), ispec(1)]], ["tuple", [["list", [ispec(1)]]]],
             ["tuple", [sspec("1")]], ["list", [["tuple", [ispec(1)]]]]]
    vals += [["mapping", 5001, []], ["mapping", 5002, [[[97], ispec(1)]]]]
    vals += [["pyenum", "Color", "RED"], ["pyenum", "Num", "TWO"], ["pyflag", "Perm", 3], ["pyenum", "Other", "X"]]
    vals += [["obj", 101, 0, [ord(c) for c in "custom"]], ["obj", 102, 0, [49, 50]], ["obj", 103, 0, []],
             ["obj", 104, 1, []], ["obj", 105, 0, [ord(c) for c in "1e3"]], ["obj", 106, 0, [0x661]]]
    return vals


NUM_ALPHA = list("0123456789") + list("0011--++..eE__  xX") + ["١", "٩", "２", "\n", "\t", " ",
                                                                 "inf", "nan", "a", " ", "9" * 9]


OBJ_STRS = ["", "1", "-1", "1e3", " 1", "١", "0x10", "abc", "nan", "1.5", "2147483648", "true"]


def rand_value(rng, depth=0, thorough=False, tuples=False):
    r = rng.random()
    if r < 0.30:
        kind = rng.randrange(8)
        if kind == 0:
            z = rng.getrandbits(rng.choice([1, 8, 16, 31, 32, 33, 52, 53, 54, 64, 100, 300, 1023, 1024, 1025, 1100]))
        elif kind == 1:
            z = rng.choice([2 ** 31, 2 ** 53, 2 ** 1024, 2 ** 63, 0]) + rng.randrange(-3, 4)
        elif kind == 2:  # exactly representable big ints
            z = rng.getrandbits(53) << rng.randrange(0, 971)
        elif kind == 3:  # one bit too many
            z = ((rng.getrandbits(53) | 1 | (1 << 52)) << 1 | 1) << rng.randrange(0, 960)
        elif kind == 4:
            z = rng.randrange(-2 ** 31 - 5, 2 ** 31 + 5)
        elif kind == 5:
            z = 10 ** rng.choice([1, 5, 15, 16, 22, 23, 100, 308, 309]) + rng.randrange(-1, 2)
        elif kind == 6 and thorough and rng.random() < 0.02:
            z = rng.getrandbits(rng.choice([14270, 14283, 14284, 14285, 14290]))
        else:
            z = rng.randrange(-10, 11)
        if rng.random() < 0.4:
            z = -z
        return ispec(z, 1 if rng.random() < 0.05 else 0)
    if r < 0.55:
        kind = rng.randrange(6)
        if kind == 0:
            x = struct.unpack("<d", struct.pack("<Q", rng.getrandbits(64)))[0]
        elif kind == 1:
            x = float(rng.randrange(-2 ** 31 - 3, 2 ** 31 + 3))
        elif kind == 2:
            x = float(rng.randrange(-2 ** 31 - 3, 2 ** 31 + 3)) + rng.choice([0.5, 0.25, -0.5, 2 ** -20])
        elif kind == 3:
            x = math.ldexp(float(rng.getrandbits(53)), rng.randrange(-1100, 972))
        elif kind == 4:
            x = rng.choice([0.0, -0.0, math.nan, math.inf, -math.inf, 5e-324, 1e308])
        else:
            x = float(rng.randrange(-2 ** 60, 2 ** 60))
        return fspec(x, 1 if rng.random() < 0.05 else 0)
    if r < 0.85:
        n = rng.choice([0, 1, 1, 2, 2, 3, 3, 4, 5, 6])
        s = "".join(rng.choice(NUM_ALPHA) for _ in range(n))
        if rng.random() < 0.15:
            s = str(rng.randrange(-2 ** 32, 2 ** 32))
        if rng.random() < 0.1:
            s = repr(struct.unpack("<d", struct.pack("<Q", rng.getrandbits(64)))[0])
        return sspec(s, 1 if rng.random() < 0.05 else 0)
    if r < 0.88:
        return ["bool", rng.randrange(2)]
    if r < 0.90:
        return ["bytes", [rng.randrange(48, 58) for _ in range(rng.randrange(3))]]
    if r < 0.93:
        i = rng.randrange(len(OBJ_STRS))
        return ["obj", 1 + i, 0, [ord(c) for c in OBJ_STRS[i]]]
    if r < 0.94:
        return ["obj", 20 + rng.randrange(3), 1, []]
    if r < 0.95:
        return rng.choice([["none"], ["undef"]])
    if depth >= 2:
        return ispec(rng.randrange(3))
    if r < 0.965 and tuples:
        return ["tuple", [rand_value(rng, depth + 1, thorough, tuples) for _ in range(rng.randrange(3))]]
    if r < 0.98:
        return ["list", [rand_value(rng, depth + 1, thorough, tuples) for _ in range(rng.randrange(3))]]
    keys = rng.sample("abc", rng.randrange(3))
    return ["dict", [[[ord(k)], rand_value(rng, depth + 1, thorough, tuples)] for k in keys]]


ENUM_POOL = None


def enum_pool():
    global ENUM_POOL
    if ENUM_POOL is None:
        P = [["none"], ["undef"], ["bool", 1], ["bool", 0], ispec(0), ispec(1), ispec(2), ispec(-1), fspec(0.0),
             fspec(-0.0), fspec(1.0), fspec(2.0), fspec(0.5), fspec(math.nan), fspec(math.inf), fspec(-math.inf),
             ispec(2 ** 53), fspec(2.0 ** 53), ispec(2 ** 53 + 1), ispec(2 ** 1024), fspec(1e308), ispec(10 ** 308),
             sspec("A"), sspec("B"), sspec("C"), sspec("a"), sspec(""), sspec("1"), sspec("A", 1),
             ["bytes", [65]], ["bytes", []], ["list", []], ["list", [ispec(1)]], ["list", [fspec(1.0)]],
             ["list", [["bool", 1]]], ["list", [sspec("A")]], ["list", [fspec(math.nan)]], ["list", [ispec(1), ispec(2)]],
             ["list", [["list", []]]], ["list", [["none"]]],
             ["dict", []], ["dict", [[[97], ispec(1)]]], ["dict", [[[97], fspec(1.0)]]], ["dict", [[[97], ["bool", 1]]]],
             ["dict", [[[97], ispec(1)], [[98], ispec(2)]]], ["dict", [[[98], ispec(2)], [[97], ispec(1)]]],
             ["dict", [[[97], ispec(2)]]], ["dict", [[[98], ispec(1)]]], ["dict", [[[97], ["list", [ispec(1)]]]]],
             ["tuple", []], ["tuple", [ispec(1)]], ["tuple", [ispec(1), ispec(1)]], ["list", [ispec(1), ispec(1)]],
             ["tuple", [ispec(1), ispec(2)]], ["tuple", [fspec(1.0), ["bool", 1]]], ["tuple", [fspec(1.0), ispec(2)]],
             ["tuple", [["list", [ispec(1)]]]], ["tuple", [["tuple", [ispec(1)]]]], ["list", [["tuple", [ispec(1)]]]],
             ["list", [["list", [ispec(1)]]]], ["tuple", [["list", []]]], ["tuple", [sspec("A")]],
             ["tuple", [fspec(math.nan)]], ["tuple", [["none"]]], ["tuple", [["dict", [[[97], ispec(1)]]]]],
             ["dict", [[[97], ["tuple", [ispec(1)]]]]], ["dict", [[[97], ["list", [ispec(1)]]]]],
             ["pyenum", "Color", "RED"], ["pyenum", "Color", "GREEN"], ["pyenum", "Color", "BLUE"],
             ["pyenum", "Other", "RED"], ["pyenum", "Other", "X"], ["pyenum", "Perm", "R"], ["pyenum", "Perm", "W"],
             ["pyflag", "Perm", 3], ["pyflag", "Perm", 0], ["pyflag", "Perm", 7], ["pyenum", "Num", "ONE"],
             ["pyenum", "Num", "TWO"], sspec("RED"), sspec("R"), sspec("R|W"), sspec("ONE"), ispec(3),
             ["obj", 201, 0, [65]], ["obj", 202, 0, [65]], ["obj", 203, 1, []], ["obj", 204, 1, []], ispec(1, 1),
             fspec(1.0, 1)]
        ENUM_POOL = P
    return ENUM_POOL


def spec_kind(spec):
    return spec[0]


# --------------------------------------------------------------------------- implementation side

def scalar_types():
    import graphql
    return {n: getattr(graphql, "GraphQL" + n) for n in SCALARS}


def call_out(t, v):
    """('ok', value) | ('err', is_graphql_error)"""
    from graphql import GraphQLError
    f = getattr(t, "coerce_output_value", None) or t.serialize
    try:
        return ("ok", f(v))
    except GraphQLError:
        return ("err", True)
    except Exception as e:  # noqa: BLE001
        return ("err", False, type(e).__name__)


def call_in(t, v):
    from graphql import GraphQLError
    f = getattr(t, "coerce_input_value", None) or t.parse_value
    try:
        return ("ok", f(v))
    except GraphQLError:
        return ("err", True)
    except Exception as e:  # noqa: BLE001
        return ("err", False, type(e).__name__)


def domain_ok(name, r):
    """the property's value domain of a built-in scalar, evaluated on the implementation's result."""
    try:
        json.dumps(r, allow_nan=False)
    except Exception:  # noqa: BLE001
        return False
    if name == "Int":
        return type(r) is int and -2 ** 31 <= r <= 2 ** 31 - 1
    if name == "Float":
        return type(r) in (int, float) and math.isfinite(r)
    if name in ("String", "ID"):
        return isinstance(r, str)
    if name == "Boolean":
        return type(r) is bool
    return False


def same_meaning(name, a, b):
    if name == "Float":
        return type(b) in (int, float) and a == b and (a != 0 or math.copysign(1, a) == math.copysign(1, b))
    return type(a) is type(b) and a == b


VIEWS = ["direct", "leaf", "list", "async"]


class Runner:
    def __init__(self, ck, model):
        import asyncio
        self.ck, self.m = ck, model
        self.types = scalar_types()
        self.reg = Registry()
        from graphql import build_schema, parse
        fields = " ".join(f"{n}: {n} {n}_l: [{n}] {n}_a: {n}" for n in SCALARS)
        self.schema = build_schema("type Query { " + fields + " }")
        self.doc = parse("{ " + " ".join(f"{n} {n}_l {n}_a" for n in SCALARS) + " }")
        self.loop = asyncio.new_event_loop()

    def guarded(self, rk, replay, fn):
        """an answer of the implementation the harness cannot digest is a violation, never a harness crash."""
        try:
            fn()
        except Exception as e:  # noqa: BLE001
            import traceback
            where = traceback.extract_tb(e.__traceback__)[-1]
            self.ck.violation(rk, f"the harness could not process the implementation's answer ({type(e).__name__} at "
                                  f"{where.name}:{where.lineno}) for {rp(replay.get('value'), 120)}",
                              dict(replay, relation="implementation answer of an unexpected shape"))

    def leaf_results(self, v):
        """{(scalar, view): ('ok', data) | ('err', True) | ('raised', what)} through execute():
        view leaf = plain field, list = the only item of a [T] field, async = field with an async resolver."""
        import inspect

        from graphql import execute

        async def later(*_a, **_k):
            return v
        root = {}
        for n in SCALARS:
            root[n] = v
            root[n + "_l"] = [v]
            root[n + "_a"] = later
        res = execute(self.schema, self.doc, root)
        if inspect.isawaitable(res):
            res = self.loop.run_until_complete(res)
        bad = {tuple(e.path) for e in (res.errors or []) if e.path}
        data = res.data or {}
        out = {}
        for n in SCALARS:
            out[(n, "leaf")] = ("err", True) if (n,) in bad else ("ok", data.get(n))
            out[(n, "async")] = ("err", True) if (n + "_a",) in bad else ("ok", data.get(n + "_a"))
            lst = data.get(n + "_l")
            if (n + "_l", 0) in bad:
                out[(n, "list")] = ("err", True)
            elif (n + "_l",) in bad or not (isinstance(lst, list) and len(lst) == 1):
                out[(n, "list")] = ("raised", f"list field completed to {rp(lst, 60)}")
            else:
                out[(n, "list")] = ("ok", lst[0])
        return out

    def scalar_batch(self, specs):
        ck = self.ck
        cases, meta = [], []
        for spec in specs:
            try:
                w = to_wire(spec)
            except Exception:  # noqa: BLE001
                ck.count("skipped_out_of_fragment")
                continue
            v = to_py(spec, self.reg)
            orc = oracles(v)
            for si, name in enumerate(SCALARS):
                cases.append([1, si, 0] + orc + w)
                cases.append([1, si, 1] + orc + w)
                meta.append((spec, name))
        outs = self.m.run_batch(cases)
        leaf_cache = {}
        incases, inmeta = [], []

        def one(spec, name, how, out):
            key = json.dumps(spec)
            v = to_py(spec, self.reg)
            t = self.types[name]
            as_float = name == "Float"
            if how == "direct":
                got = call_out(t, v)
            else:
                if key not in leaf_cache:
                    try:
                        leaf_cache.clear()          # one entry: the views of one value follow each other
                        leaf_cache[key] = self.leaf_results(v)
                    except Exception as e:  # noqa: BLE001
                        leaf_cache[key] = {(n, h): ("raised", type(e).__name__) for n in SCALARS for h in VIEWS}
                got = leaf_cache[key][(name, how)]
            want = norm_model(out, as_float)
            nontrivial = spec[0] in ("bool", "int", "float", "str", "obj", "pyenum", "pyflag")
            ck.note_case((name, how, key), nontrivial=nontrivial,
                         sample={"scalar": name, "value": spec, "via": how} if nontrivial and len(key) < 80 else None)
            ck.count(f"{how}:{name}:{'ok' if want[0] == 0 else 'error'}")
            if how == "direct":
                ck.count("value_kind:" + spec[0])
            if got[0] == "raised":
                ck.violation(rk, f"execute raised / misbehaved ({got[1]}) for {name} field ({how}) returning {short(spec)}",
                             dict(replay, relation="execution never raises"))
                return
            if got[0] == "err":
                if not got[1]:
                    ck.count("error_not_graphql_error:" + got[2])
                if want != [1]:
                    ck.violation(rk, f"{name} ({how}) rejects {short(spec)}; the model yields {want}",
                                 dict(replay, relation="impl = model (correspondence)", impl="error", model=want))
                return
            r = got[1]
            # direct predicates of the property on the implementation's result
            if not (how != "direct" and r is None and spec[0] in ("none", "undef")):
                if not domain_ok(name, r):
                    ck.violation(rk, f"{name} ({how}) yields {rp(r, 80)} ({type(r).__name__}) for {short(spec)}: "
                                     f"outside the value domain of {name}",
                                 dict(replay, relation="result within the value domain", impl=rp(r, 200)))
                    return
                back = call_in(t, r)
                if back[0] != "ok" or not same_meaning(name, r, back[1]):
                    ck.violation(rk, f"{name} emits {rp(r, 80)} for {short(spec)} but its input coercion gives "
                                     f"{rp(back, 80)}",
                                 dict(replay, relation="emitted value re-accepted with the same meaning",
                                      impl=rp(back, 200)))
                    return
                if name in ("Float", "Int", "ID") and spec[0] in ("int", "float") and not precision_kept(name, v, r):
                    ck.violation(rk, f"{name} emits {rp(r, 80)} for {short(spec)}: numeric value changed",
                                 dict(replay, relation="no silent precision loss", impl=rp(r, 200)))
                    return
                if how == "direct":
                    incases.append([2, SCALARS.index(name)] + oracles(r) + (enc_result(r) or [0]))
                    inmeta.append((name, r, back[1], rk, replay))
            enc = enc_result(r, as_float)
            got_w = [0] + enc if enc is not None else ["unencodable", rp(r, 100)]
            if got_w != want:
                ck.violation(rk, f"{name} ({how}) gives {rp(r, 80)} for {short(spec)}; the model gives "
                                 f"{'an error' if want == [1] else want[:40]}",
                             dict(replay, relation="impl = model (correspondence)", impl=got_w[:200], model=want[:200]))

        for k, (spec, name) in enumerate(meta):
            out_direct, out_leaf = outs[2 * k], outs[2 * k + 1]
            for how in VIEWS:
                rk = f"{name}:{how}:{json.dumps(spec)[:300]}"
                replay = {"relation": "", "scalar": name, "via": how, "value": spec}
                self.guarded(rk, replay, lambda: one(spec, name, how, out_direct if how == "direct" else out_leaf))
        # input coercion of the emitted values: model vs implementation
        outs = self.m.run_batch(incases)
        for (name, r, back, rk, replay), out in zip(inmeta, outs):
            enc = enc_result(back, name == "Float")
            if [0] + (enc or []) != norm_model(out, name == "Float"):
                ck.violation("in:" + rk, f"{name} input coercion of {rp(r, 80)} gives {rp(back, 80)}; model {out[:40]}",
                             dict(replay, relation="input coercion impl = model", impl=rp(back, 200), model=out[:200]))
        ck.count("input_coercions_compared", len(incases))

    def input_batch(self, specs):
        """input coercers on arbitrary values (model vs impl)."""
        ck = self.ck
        cases, meta = [], []
        for spec in specs:
            v = to_py(spec, self.reg)
            for si, name in enumerate(SCALARS):
                cases.append([2, si] + oracles(v) + to_wire(spec))
                meta.append((spec, name))
        outs = self.m.run_batch(cases)
        for (spec, name), out in zip(meta, outs):
            v = to_py(spec, self.reg)
            got = call_in(self.types[name], v)
            want = norm_model(out, name == "Float")
            key = json.dumps(spec)
            ck.note_case(("in", name, key), nontrivial=spec[0] in ("bool", "int", "float", "str"))
            ck.count(f"input:{name}:{'ok' if want[0] == 0 else 'error'}")
            if got[0] == "err":
                if not got[1]:
                    ck.count("error_not_graphql_error:" + got[2])
                got_w = [1]
            else:
                enc = enc_result(got[1], name == "Float")
                got_w = [0] + enc if enc is not None else ["unencodable"]
            if got_w != want:
                ck.violation(f"in:{name}:{key[:300]}",
                             f"{name} input coercion of {short(spec)}: impl {rp(got, 80)}, model {want[:40]}",
                             {"relation": "input coercion impl = model", "scalar": name, "via": "input", "value": spec,
                              "impl": got_w[:200], "model": want[:200]})

    # ---- enums
    def enum_batch(self, enums):
        """enums: list of (members [(name, spec)], [value specs])."""
        from graphql import (GraphQLEnumType, GraphQLEnumValue, GraphQLField, GraphQLObjectType, GraphQLSchema,
                             execute_sync, parse)
        ck = self.ck
        cases, meta = [], []
        for ei, (members, values, _ctor) in enumerate(enums):
            hdr = [len(members)]
            for n, sp in members:
                hdr += enc_text([ord(c) for c in n]) + to_wire(sp)
            for sp in values:
                cases.append([3, 0] + hdr + to_wire(sp))
                meta.append((ei, sp, "direct"))
                cases.append([3, 1] + hdr + to_wire(sp))
                meta.append((ei, sp, "leaf"))
        outs = self.m.run_batch(cases)
        built = {}
        doc = parse("{ e }")
        def one(ei, sp, how, out):
            members, _, ctor = enums[ei]
            if ei not in built:
                if ctor is None:
                    et = GraphQLEnumType("E", {n: GraphQLEnumValue(to_py(s, self.reg)) for n, s in members})
                else:   # built from a Python Enum class
                    et = GraphQLEnumType("E", PYENUMS[ctor[0]], names_as_values=ctor[1])
                sch = GraphQLSchema(GraphQLObjectType("Query", {"e": GraphQLField(et)}))
                built[ei] = (et, sch)
            et, sch = built[ei]
            v = to_py(sp, self.reg)
            names = [n for n, _ in members]
            if how == "direct":
                got = call_out(et, v)
            else:
                try:
                    res = execute_sync(sch, doc, {"e": v})
                    got = ("err", True) if res.errors else ("ok", (res.data or {}).get("e"))
                except Exception as e:  # noqa: BLE001
                    ck.violation(rk, f"execute_sync raised {type(e).__name__} for an enum field returning {short(sp)}",
                                 dict(replay, relation="execution never raises"))
                    return
            found = out[0] == 0 and out != [0, 0]
            ck.note_case(("enum", how, key), nontrivial=found or sp[0] in ("list", "dict", "tuple", "pyenum", "pyflag"),
                         sample={"enum": members, "value": sp} if found and len(key) < 100 else None)
            ck.count(f"enum:{how}:{'ok' if out[0] == 0 else 'error'}")
            if sp[0] in ("pyenum", "pyflag"):
                ck.count("enum:python_enum_member_as_result")
            if got[0] == "err":
                if not got[1]:
                    ck.count("error_not_graphql_error:" + got[2])
                got_w = [1]
            else:
                r = got[1]
                if not (how == "leaf" and r is None and sp[0] in ("none", "undef")):
                    if not (isinstance(r, str) and r in names):
                        ck.violation(rk, f"enum {edesc} yields {rp(r, 60)} for {short(sp)}: not one of its value names",
                                     dict(replay, relation="enum result is a declared name", impl=rp(r, 100)))
                        return
                    back = call_in(et, r)
                    internal = dict((n, s) for n, s in members)[r]
                    ok = back[0] == "ok"
                    if ok:
                        iv = back[1]
                        from graphql.pyutils import Undefined
                        ok = (iv == v) or ((iv is None or iv is Undefined) and v == r)
                    if not ok:
                        ck.violation(rk, f"enum {edesc} emits {rp(r, 200)} for {short(sp)} but input coercion of {rp(r, 200)} "
                                         f"gives {rp(back, 60)} (internal {short(internal)})",
                                     dict(replay, relation="emitted name re-accepted with the same meaning",
                                          impl=rp(back, 100)))
                        return
                enc = enc_result(r)
                got_w = [0] + enc if enc is not None else ["unencodable"]
            if got_w != out:
                ck.violation(rk, f"enum {edesc} ({how}) on {short(sp)}: impl {rp(got, 60)}, model {out[:30]}",
                             dict(replay, relation="impl = model (correspondence)", impl=got_w[:100], model=out[:100]))

        for (ei, sp, how), out in zip(meta, outs):
            members, _, ctor = enums[ei]
            edesc = f"{members}" + (f" built from Python enum {ctor[0]} (names_as_values={ctor[1]})" if ctor else "")
            key = json.dumps([members, ctor, sp])
            rk = f"enum:{how}:{key[:300]}"
            replay = {"relation": "", "enum": members, "ctor": ctor, "value": sp, "via": how}
            self.guarded(rk, replay, lambda: one(ei, sp, how, out))

    def eq_batch(self, pairs):
        """Python == / hashability vs pyeq / hashable (the enum model's only assumption about values)."""
        ck = self.ck
        cases = [[5] + to_wire(a) + to_wire(b) for a, b in pairs]
        outs = self.m.run_batch(cases)
        for (a, b), out in zip(pairs, outs):
            x, y = to_py(a, self.reg), to_py(b, self.reg)
            try:
                hash(x)
                h = 1
            except TypeError:
                h = 0
            got = [1 if x == y else 0, h]
            ck.note_case(("eq", json.dumps([a, b])), nontrivial=a[0] != b[0] or a[0] in ("list", "dict", "tuple"))
            if got != out:
                ck.violation(f"eq:{json.dumps([a, b])[:300]}", f"Python == / hashable of {short(a)}, {short(b)} = {got}, "
                             f"model {out}", {"relation": "pyeq = Python ==", "a": a, "b": b, "impl": got, "model": out})
        ck.count("eq_pairs", len(pairs))

    def echo(self, specs):
        ws = [to_wire(s) for s in specs]
        outs = self.m.run_batch([[0] + w for w in ws])
        bad = [s for s, w, o in zip(specs, ws, outs) if w != o]
        if bad:
            self.ck.proof_breaks.append(f"wire echo failed on {rp(bad[0], 200)}")
        self.ck.count("echo", len(ws))
        return not bad


def precision_kept(name, v, r):
    """numeric input accepted by Int/Float/ID: the emitted value is exactly the input's value."""
    try:
        if name == "ID":
            return int(r) == v
        return r == v
    except Exception:  # noqa: BLE001
        return False


def short(spec):
    s = json.dumps(spec)
    return s if len(s) <= 120 else s[:117] + "..."


def gen_enums(rng, n_enums, n_values):
    pool = enum_pool()
    out = []
    for _ in range(n_enums):
        k = rng.choice([1, 2, 3, 3, 4, 5, 6])
        members = [("ABCDEF"[i], rng.choice(pool)) for i in range(k)]
        values = [rng.choice(pool) for _ in range(n_values)]
        values += [sp for _, sp in members[:2]]
        out.append((members, values, None))
    # GraphQL enums built from a Python Enum class, in the three names_as_values modes
    for cname in ("Color", "Perm", "Num", "Other"):
        cls = PYENUMS[cname]
        for mode in (False, True, None):
            members = []
            for n, m in cls.__members__.items():
                if mode is True:
                    sp = sspec(n)
                elif mode is None:
                    sp = ["pyenum", cname, n]
                else:
                    sp = ispec(m.value) if isinstance(m.value, int) else sspec(m.value)
                members.append((n, sp))
            values = [sp for sp in pool if sp[0] in ("pyenum", "pyflag")] + [rng.choice(pool) for _ in range(n_values)]
            out.append((members, values, (cname, mode)))
    return out


def run(tier):
    ck = Check("C16", tier)
    ck.assumptions += ASSUMPTIONS
    br = common.build("C16", models=("scalars",))
    ck.proofs(br)
    if not br.ok:
        return ck.finish()
    m = Model("scalars")
    R = Runner(ck, m)
    quick = tier == "quick"
    specs = []
    for c in common.load_corpus("C16"):
        if "value" in c:
            specs.append(c["value"])
    specs += edge_values(not quick)
    n_rand = 2500 if quick else 60000
    specs += [rand_value(ck.rng, 0, not quick, True) for _ in range(n_rand)]
    ck.rule = ("(A) every edge value (bool; ints around 2^31, 2^53, 2^1024, the 4300-digit str limit; floats incl. -0.0, nan, "
               "inf, subnormals, 1e308; numeric-looking/whitespace/non-ASCII-digit/empty strings; bytes; lists; dicts; "
               f"objects with __str__; None; Undefined; int/float/str subclasses) and {n_rand} random values x 5 built-in "
               "scalars: coerce_output_value called directly and through execute (complete_leaf_value) as a plain field, as the "
               "item of a list field and as the result of an async resolver vs the "
               "extracted model: ok/error and exact value; on every emitted value the property predicates (domain, "
               "JSON-representable, re-accepted by coerce_input_value with the same meaning, numeric value unchanged) "
               "and the model of the input coercer; (B) input coercers on all values; (C) random enums over a pool of "
               "colliding internal values (True/1/1.0, -0.0, nan, None, Undefined, unhashable lists/dicts, tuples vs lists with equal items, tuples holding unhashable items, objects): "
               "coerce_output_value direct and through execute_sync vs model, result a declared name, re-accepted; the pool "
               "also holds members of Python Enum/Flag/IntEnum classes (right class, foreign class, Flag combinations, IntEnum "
               "members equal to internal ints) and 12 enums are built from those classes (names_as_values False/True/None); "
               "(D) Python == and hashability vs pyeq on all pool pairs. non-trivial = value is a bool/int/float/str/"
               "custom object (scalars), or the enum lookup finds a name or takes the unhashable path")
    if not R.echo(specs[:400] + enum_pool()):
        return ck.finish()
    B = 4000
    for i in range(0, len(specs), B):
        R.scalar_batch(specs[i:i + B])
    R.input_batch(specs[: (1500 if quick else 20000)])
    pool = enum_pool()
    R.eq_batch([(a, b) for a in pool for b in pool])
    extra = [rand_value(ck.rng, 0, False, True) for _ in range(300 if quick else 3000)]
    R.eq_batch([(ck.rng.choice(extra), ck.rng.choice(extra)) for _ in range(2000 if quick else 50000)]
               + [(a, a) for a in extra])
    R.enum_batch(gen_enums(ck.rng, 150 if quick else 4000, 12 if quick else 25))
    return ck.finish()


def replay(path):
    d = json.loads(open(path).read())
    br = common.build("C16", models=("scalars",))
    ck = Check("C16", "replay")
    R = Runner(ck, Model("scalars"))
    if "scalar" in d:
        if d.get("via") == "input":
            R.input_batch([d["value"]])
        else:
            R.scalar_batch([d["value"]])
    elif "enum" in d:
        ctor = d.get("ctor")
        R.enum_batch([([tuple(x) for x in d["enum"]], [d["value"]], tuple(ctor) if ctor else None)])
    elif "a" in d:
        R.eq_batch([(d["a"], d["b"])])
    for key, what, _ in ck.violations:
        print("VIOLATION (replayed):", what)
    if not ck.violations:
        print("replay: no disagreement / property predicate failure on this input")
    return 1 if ck.violations else 0
