"""CDEFER - the @defer part of C04: experimental_execute_incrementally vs the Coq model Incr/DeferExec.v.

Theorems: coq/theories/Properties/C04defer.v (error-free reassembly of nested defers by the merge oracle
Incr/Merge.v, `if: false`, non-deferred occurrence => initial).  Correspondence: type-directed requests of the
Exec fragment (harness/gen_exec.py, harness/c02.py) with @defer placed on inline fragments and fragment
spreads (labels, `if` via literal and variable, nested, overlapping, the same field deferred and not) are run
through the real incremental executor with synchronous resolvers and through the extracted model `defer`;
compared: initial data incl. key order, initial error paths, the set of pending (path, label) announced over
the whole run, per delivered execution group its path and set of response keys (and that the id it is
delivered under is one of the model's delivery groups), the merged final data, resolver calls of the whole run.
Runs with errors: the error clause of C04 is evaluated on the implementation (merged data vs its own execution with
@experimental_disableErrorPropagation: nulls explained by a reported error at or below, missing keys belonging to
failed / withheld execution groups, every error of the reference reported or at an undelivered position) and on the
model's outputs; the implementation's non-propagating run is compared with the model's `np` run."""
from __future__ import annotations

import asyncio
import json
import re
import time

from . import common, gen_exec as G
from . import c02, c04
from .common import Check, Model

PID = "CDEFER"
THMS = "C04defer"
MODEL = "defer"

DEFER_SDL = "directive @defer(if: Boolean! = true, label: String) on FRAGMENT_SPREAD | INLINE_FRAGMENT\n"

ASSUMPTIONS = [
    "CDEFER model: Incr/DeferExec.v = collect_fields with defer usages + build_execution_plan (Incr/Plan.v) + the "
    "@defer part of IncrementalExecutor (execution groups at the same path, sub-executors with their defer usage set, "
    "work under nulled positions dropped); sibling of Exec/Spec.v sharing its helpers; payloads in a canonical order "
    "(completion order, early execution and the publisher's batching are C05's subject and not modelled here)",
    "fragment: that of C02 (synchronous default-like resolvers over dict/list data) plus @defer on inline fragments and "
    "fragment spreads with literal/variable `if` and literal labels; outside: @stream, a null `if` variable, "
    "fragment arguments, async resolvers",
    "execution groups are compared as a multiset of (path, set of response keys); payload boundaries, ids and order "
    "are free; pending announcements are compared as a set of (path, label)",
    "error runs: which execution group values are withheld follows the work queue's rule (a failed group takes its "
    "subtree with it; a value is delivered iff one of its delivery groups has no failed group on its chain), part of "
    "the Coq model (`deliver`); that the delivered values can always be merged is checked here on every run (the "
    "error-clause theorems assume it); the non-propagating reference is the model's `np` mode = "
    "@experimental_disableErrorPropagation (handle_field_error with error_propagation False)",
]


# --------------------------------------------------------------------------- @defer placement

class Placer:
    """Re-renders a parsed operation/fragment set as text, placing @defer on inline fragments and spreads and
    wrapping (copies of) sub-selections into new deferred inline fragments."""

    def __init__(self, rng, p=0.5):
        self.r, self.p = rng, p
        self.nlabel = 0
        self.vars = {}        # extra variables: name -> (type text, default text | None, value | ABSENT)
        self.placed = 0
        self.kinds = set()
        self.in_fragment = False
        self.nodes = 0             # selections rendered so far: copies are made only while the text is small

    ABSENT = object()

    def defer(self, p=None):
        r = self.r
        if r.random() > (self.p if p is None else p):
            return ""
        args = []
        if r.random() < 0.55:
            self.nlabel += 1
            args.append(f'label: "L{self.nlabel}"')
            self.kinds.add("label")
        k = r.random()
        if k < 0.1:
            args.append("if: false")
            self.kinds.add("if_false_literal")
        elif k < 0.16:
            args.append("if: true")
        elif k < 0.34:
            name = f"dv{len(self.vars)}"
            # (a nullable variable without default is accepted by validate() at `if: Boolean! = true` in an operation
            # but rejected inside a fragment definition: used only in operations)
            same = [n for n, v in self.vars.items() if not self.in_fragment or v[0] == "Boolean!" or v[1] is not None]
            if same and r.random() < 0.4:
                name = r.choice(same)
            else:
                kind = r.random() * (0.7 if self.in_fragment else 1.0)
                if kind < 0.4:
                    self.vars[name] = ("Boolean!", None, r.choice([True, False]))
                elif kind < 0.7:
                    self.vars[name] = ("Boolean", r.choice(["true", "false"]),
                                       r.choice([True, False, Placer.ABSENT]))
                else:
                    self.vars[name] = ("Boolean", None, r.choice([True, False, Placer.ABSENT]))
            args.append(f"if: ${name}")
            self.kinds.add("if_variable")
        r.shuffle(args)
        self.placed += 1
        return " @defer" + ("(" + ", ".join(args) + ")" if args else "")

    def dirs(self, node):
        from graphql import print_ast
        return "".join(" " + print_ast(d) for d in node.directives or ())

    def sel(self, sel, depth):
        from graphql import print_ast
        from graphql.language import ast as A
        self.nodes += 1
        if isinstance(sel, A.FieldNode):
            head = (sel.alias.value + ": " if sel.alias else "") + sel.name.value
            if sel.arguments:
                head += "(" + ", ".join(print_ast(a) for a in sel.arguments) + ")"
            head += self.dirs(sel)
            if sel.selection_set:
                head += " " + self.selset(sel.selection_set, depth + 1)
            return head
        if isinstance(sel, A.FragmentSpreadNode):
            return "..." + sel.name.value + self.dirs(sel) + self.defer()
        tc = sel.type_condition
        return ("... on " + tc.name.value if tc else "...") + self.dirs(sel) + self.defer() + " " \
            + self.selset(sel.selection_set, depth)

    def selset(self, ss, depth):
        r = self.r
        sels = list(ss.selections)
        items = [self.sel(x, depth) for x in sels]
        # wrap copies of some selections into new deferred inline fragments
        for _ in range(r.choice([0, 0, 1, 1, 2])):
            if not sels or r.random() > self.p + 0.2 or self.nodes > 120:
                continue
            idx = [i for i in range(len(sels)) if r.random() < 0.5] or [r.randrange(len(sels))]
            body = " ".join(self.sel(sels[i], depth) for i in idx)
            if r.random() < 0.3:
                # a nested deferred fragment around a part of it
                j = r.choice(idx)
                body += " ..." + self.defer(1.0) + " { " + self.sel(sels[j], depth) + " }"
                self.kinds.add("nested_wrap")
            frag = "..." + self.defer(1.0) + " { " + body + " }"
            if r.random() < 0.5:
                # move: the originals are removed (deferred only); otherwise the field is deferred AND not
                for i in sorted(idx, reverse=True):
                    if len(items) > 1 and i < len(items):
                        items[i] = None
                self.kinds.add("moved_into_defer")
            else:
                self.kinds.add("deferred_and_not")
            items.insert(r.randint(0, len(items)), frag)
        items = [x for x in items if x is not None]
        return "{ " + " ".join(items) + " }"

    def document(self, doc, operation_name):
        from graphql import print_ast
        from graphql.language import ast as A
        parts = []
        for d in doc.definitions:
            if isinstance(d, A.OperationDefinitionNode):
                if (d.name.value if d.name else None) != operation_name and operation_name is not None:
                    parts.append((None, print_ast(d)))
                    continue
                parts.append((d, None))
            elif isinstance(d, A.FragmentDefinitionNode):
                self.in_fragment = True
                parts.append((None, f"fragment {d.name.value} on {d.type_condition.name.value}" + self.dirs(d) + " "
                              + self.selset(d.selection_set, 1)))
                self.in_fragment = False
            else:
                parts.append((None, print_ast(d)))
        out = []
        for d, text in parts:
            if d is None:
                out.append(text)
                continue
            body = self.selset(d.selection_set, 0)
            vdefs = [print_ast(v) for v in d.variable_definitions or ()]
            self.used = {n for n in self.vars if re.search(r"\$" + n + r"\b", body + " ".join(t or "" for _, t in parts))}
            vdefs += [f"${n}: {t}" + (f" = {dflt}" if dflt is not None else "") for n, (t, dflt, _) in self.vars.items()
                      if n in self.used]
            head = d.operation.value + (" " + d.name.value if d.name else "")
            if vdefs:
                head += "(" + ", ".join(vdefs) + ")"
            out.append(head + self.dirs(d) + " " + body)
        return "\n".join(out)

    def variables(self):
        return {n: v for n, (_, _, v) in self.vars.items() if v is not Placer.ABSENT and n in getattr(self, "used", ())}


# --------------------------------------------------------------------------- wire

def enc_request(wschema, doc, operation_name, variables, data):
    """Wire request of the model; @defer directives are encoded like any other directive."""
    orig = G.enc_dirs

    def enc_dirs(directives):
        out = []
        for d in directives or ():
            if d.name.value in ("stream", "experimental_disableErrorPropagation"):
                raise G.OutOfFragment("@" + d.name.value)
            out.append(G.W(50, [], [G.w_str(d.name.value), G.enc_args(d.arguments)]))
        return G.w_list(out)
    G.enc_dirs = enc_dirs
    try:
        return G.flatten(G.W(100, [], [wschema, G.enc_doc(doc, operation_name), G.enc_vars(variables),
                                       G.enc_data(data)]))
    finally:
        G.enc_dirs = orig


def dec_calls(w):
    cl = []
    for c in w[2]:
        p, f, args = c[2]
        cl.append((G.canon_wpath(p), G.s_of(f[1]), tuple((G.s_of(a[2][0][1]), G.canon_wvalue(a[2][1])) for a in args[2])))
    return cl


def dec_dresponse(ints):
    if ints == [999999]:
        return {"kind": "bad-wire"}
    w = G.unflatten(ints)
    if w[0] == 90:
        return {"kind": "request-error"}
    if w[0] == 91:
        return {"kind": "out-of-fuel"}
    data, errs, calls, pls = w[2]
    payloads = []
    for p in pls[2]:
        path, groups, pdata, perrs, pcalls = p[2][:5]
        payloads.append({
            "keys": [G.s_of(k[1]) for k in p[2][5][2]] if len(p[2]) > 5 else [],
            "path": G.canon_wpath(path),
            # per delivery group its chain (the usage first, then its ancestors) of (id, depth, label)
            "groups": [[(n[1][0], n[1][1], G.s_of(n[2][0][1]) if n[1][2] else None) for n in ch[2]] for ch in groups[2]],
            "nested": bool(p[1][1]),
            "data": G.canon_wjson(pdata) if p[1][0] else None,
            "errors": sorted((G.canon_wpath(e[2][0]) for e in perrs[2]), key=repr),
            "calls": dec_calls(pcalls)})
    return {"kind": "response", "data": G.canon_wjson(data), "revisit": bool(w[1][0]),
            "errors": sorted((G.canon_wpath(e[2][0]) for e in errs[2]), key=repr),
            "calls": dec_calls(calls), "payloads": payloads}


# --------------------------------------------------------------------------- implementation

def run_incremental(schema, doc, data, variables, operation_name=None, early=False):
    """The real incremental executor with synchronous resolvers; the subsequent results are drained in a
    fresh event loop.  -> dict(kind=single|incremental|request-error|raised, ...)"""
    from graphql.execution import ExecutionResult, experimental_execute_incrementally
    log = []
    out = {}

    async def go():
        res = experimental_execute_incrementally(schema, doc, root_value=data, variable_values=variables,
                                                 operation_name=operation_name,
                                                 field_resolver=G.make_resolver(log), enable_early_execution=early)
        if hasattr(res, "__await__"):
            res = await res
        if isinstance(res, ExecutionResult):
            out["single"] = res
            return
        out["initial"] = res.initial_result.formatted
        out["payloads"] = []
        async for p in res.subsequent_results:
            out["payloads"].append(p.formatted)

    loop = asyncio.new_event_loop()
    try:
        loop.run_until_complete(asyncio.wait_for(go(), 20))
    finally:
        try:
            loop.run_until_complete(loop.shutdown_asyncgens())
        finally:
            loop.close()
    if "single" in out:
        res = out["single"]
        errs = res.errors or []
        if res.data is None and errs and all(e.path is None for e in errs):
            return {"kind": "request-error", "messages": [e.message for e in errs]}
        if any(e.path is None for e in errs):
            return {"kind": "pathless-error", "messages": [e.message for e in errs]}
        return {"kind": "single", "data": res.data, "errors": sorted((tuple(e.path) for e in errs), key=repr),
                "calls": log, "messages": [e.message for e in errs]}
    return {"kind": "incremental", "initial": out["initial"], "payloads": out["payloads"], "calls": log}


def observe_impl(r):
    """Observables of an implementation run in the model's terms."""
    if r["kind"] == "single":
        return {"data": G.canon_pyjson(r["data"]), "errors": r["errors"], "pending": set(), "groups": [],
                "merged": G.canon_pyjson(r["data"]), "problems": [], "failed": set(), "initial_pending": set()}
    initial, payloads = r["initial"], r["payloads"]
    merged, problems, left = c04.py_merge(initial, payloads)
    pend = {}
    for p in [initial] + payloads:
        for pe in p.get("pending", []):
            pend[pe["id"]] = (tuple(pe["path"]), pe.get("label"))
    groups, failed, failed_errors = [], set(), []
    for p in payloads:
        for inc in p.get("incremental", []):
            if "items" in inc:
                problems.append("stream entry in a @defer-only run")
                continue
            pp, lab = pend.get(inc["id"], ((), None))
            groups.append((pp + tuple(inc.get("subPath", [])), frozenset(inc["data"]), (pp, lab),
                           sorted((tuple(e["path"]) for e in inc.get("errors", [])), key=repr)))
        for c in p.get("completed", []):
            if c.get("errors"):
                failed.add(pend.get(c["id"]))
                failed_errors.extend(tuple(e["path"]) for e in c["errors"] if e.get("path") is not None)
    if left:
        problems.append(f"ids {sorted(left)} announced but never completed")
    errs = sorted((tuple(e["path"]) for e in initial.get("errors", [])), key=repr)
    return {"data": G.canon_pyjson(initial.get("data")), "errors": errs, "pending": set(pend.values()),
            "initial_pending": {(tuple(pe["path"]), pe.get("label")) for pe in initial.get("pending", [])},
            "groups": groups, "merged": G.canon_pyjson(merged), "problems": problems, "failed": failed,
            "failed_errors": failed_errors}


def observe_model(m):
    """Delivery groups are identified by (path of the group, usage id).  Initially pending (the work queue prunes empty
    groups at construction): the groups owning an execution group of the initial executor none of whose ancestors
    owns one.  A failed group is reported completed with errors where it had been announced."""
    def ident(p, ch):
        return [((p["path"][:d], i), (p["path"][:d], lab)) for i, d, lab in ch]
    dead = set()
    for p in m["payloads"]:
        if p["data"] is None:
            dead |= {ident(p, ch)[0][0] for ch in p["groups"]}
    pend, groups, failed = set(), [], set()
    owners, chains = set(), []
    for p in m["payloads"]:
        ids = [ident(p, ch) for ch in p["groups"]]
        pend |= {ch[0][1] for ch in ids}
        if not p["nested"]:
            for ch in ids:
                owners.add(ch[0][0])
                chains.append(ch)
        if p["data"] is None:
            failed |= {ch[0][1] for ch in ids if not any(n[0] in dead for n in ch[1:])}
        else:
            groups.append((p["path"], frozenset(k for k, _ in p["data"][1]), {n[1] for ch in ids for n in ch},
                           sorted((p["path"] + e for e in p["errors"]), key=repr)))
    initial = {ch[0][1] for ch in chains if not any(a[0] in owners for a in ch[1:])}
    return {"data": m["data"], "errors": m["errors"], "pending": pend, "groups": groups, "failed": failed,
            "roots": initial}


def np_document(doc, operation_name=None):
    """The same document with @experimental_disableErrorPropagation on the executed operation."""
    import dataclasses
    from graphql import parse
    from graphql.language import ast as A
    dn = parse("query @experimental_disableErrorPropagation { a }").definitions[0].directives[0]
    defs = []
    for d in doc.definitions:
        if isinstance(d, A.OperationDefinitionNode) and (operation_name is None or (d.name and d.name.value == operation_name)):
            d = dataclasses.replace(d, directives=tuple(d.directives or ()) + (dn,))
        defs.append(d)
    return dataclasses.replace(doc, definitions=tuple(defs))


def explained(m, n, path, errors, withheld):
    """The error clause: m is the non-propagating reference n with subtrees replaced by null - each with a reported
    error at or below - and keys withheld - each key of an execution group that failed or was not delivered.
    -> None or a description of the first unexplained difference."""
    if m is None:
        if n is None or any(e[:len(path)] == path for e in errors):
            return None
        return f"null at {path} without a reported error at or below (reference has a value)"
    if isinstance(m, tuple) and m[0] == "obj":
        if not (isinstance(n, tuple) and n[0] == "obj"):
            return f"object at {path}, reference has {n!r:.60}"
        md, nd = dict(m[1]), dict(n[1])
        for k in md:
            if k not in nd:
                return f"key {k} at {path} is not in the reference"
        for k, v in nd.items():
            if k not in md:
                if (path, k) not in withheld:
                    return f"key {k} at {path} is missing and belongs to no failed or withheld execution group"
            else:
                r = explained(md[k], v, path + (k,), errors, withheld)
                if r:
                    return r
        return None
    if isinstance(m, tuple) and m[0] == "list":
        if not (isinstance(n, tuple) and n[0] == "list" and len(n[1]) == len(m[1])):
            return f"list at {path} differs in kind or length from the reference"
        for i, (a, b) in enumerate(zip(m[1], n[1])):
            r = explained(a, b, path + (i,), errors, withheld)
            if r:
                return r
        return None
    return None if m == n else f"value at {path}: {m!r:.40} vs reference {n!r:.40}"


def not_delivered(m, path, at, withheld):
    """hidden: following `path` in m meets a null, or an object that lacks the next key while the key is withheld"""
    if m is None:
        return True
    if not path:
        return False
    seg, rest = path[0], path[1:]
    if isinstance(m, tuple) and m[0] == "obj" and isinstance(seg, str):
        d = dict(m[1])
        if seg in d:
            return not_delivered(d[seg], rest, at + (seg,), withheld)
        return (at, seg) in withheld
    if isinstance(m, tuple) and m[0] == "list" and isinstance(seg, int) and seg < len(m[1]):
        return not_delivered(m[1][seg], rest, at + (seg,), withheld)
    return False


def unaccounted(ref_errors, reported, m, withheld):
    """errors of the non-propagating reference that are neither reported at the same path nor at a position
    that is not delivered"""
    rep = set(reported)
    return [e for e in ref_errors if e not in rep and not not_delivered(m, e, (), withheld)]


def unordered(c):
    """canonical json with objects as unordered maps"""
    if isinstance(c, tuple) and c and c[0] == "obj":
        return ("obj", frozenset((k, unordered(v)) for k, v in c[1]))
    if isinstance(c, tuple) and c and c[0] == "list":
        return ("list", tuple(unordered(v) for v in c[1]))
    return c


def compare(impl, model, merged_model, ref_model):
    """-> list of (what, impl, model)"""
    out = []
    mo = observe_model(model)
    if impl["data"] != mo["data"]:
        out.append(("initial data", impl["data"], mo["data"]))
    if impl["errors"] != mo["errors"]:
        out.append(("initial error paths", impl["errors"], mo["errors"]))
    # which nested delivery groups get announced depends on the work queue's dynamics (a nested group all of whose
    # execution groups were already delivered through another group is pruned, C05): announced <= model's groups,
    # and the initially announced ones are exactly the model's parentless groups that own an execution group
    if not impl["pending"] <= mo["pending"]:
        out.append(("pending (path, label) not a delivery group of the model", sorted(impl["pending"], key=repr),
                    sorted(mo["pending"], key=repr)))
    if impl["initial_pending"] != mo["roots"]:
        out.append(("initially pending (path, label) set", sorted(impl["initial_pending"], key=repr),
                    sorted(mo["roots"], key=repr)))
    ig = sorted(((g[0], tuple(sorted(g[1])), tuple(g[3])) for g in impl["groups"]), key=repr)
    mg = sorted(((g[0], tuple(sorted(g[1])), tuple(g[3])) for g in mo["groups"]), key=repr)
    if ig != mg:
        out.append(("delivered execution groups (path, keys, error paths)", ig, mg))
    else:
        rest = list(mo["groups"])
        for g in impl["groups"]:
            hit = next((x for x in rest if x[0] == g[0] and x[1] == g[1]), None)
            if hit is not None:
                rest.remove(hit)
                if g[2] not in hit[2]:
                    out.append(("delivery group of an execution group", g[2], sorted(hit[2], key=repr)))
    if not impl["failed"] <= mo["failed"] or not (mo["failed"] & impl["pending"]) <= impl["failed"]:
        out.append(("delivery groups completed with errors", sorted(impl["failed"], key=repr),
                    sorted(mo["failed"], key=repr)))
    if merged_model is not None and unordered(impl["merged"]) != unordered(merged_model):
        out.append(("merged final data", impl["merged"], merged_model))
    return out


# --------------------------------------------------------------------------- cases

def build_case(ck, rng, gs, schema, wschema, max_depth, p_bad):
    from graphql import parse, validate
    base = c02.build_case(ck, rng, gs, schema, wschema, max_depth, p_bad)
    if base is None:
        return None
    pl = Placer(rng, p=rng.choice([0.25, 0.5, 0.8]))
    try:
        text = pl.document(base["doc"], base["operation_name"])
        doc = parse(text)
    except Exception as e:  # noqa: BLE001
        ck.count("generator_syntax_error")
        ck.extra.setdefault("generator_errors", []).append(f"{e!r}"[:300])
        return None
    if "@defer" not in text:
        ck.count("no_defer_placed")
    errs = validate(schema, doc)
    if errs:
        ck.count("rejected_by_validate_after_placement")
        ck.count("rejected:" + re.sub(r"\d+", "N", errs[0].message)[:90])
        return None
    variables = dict(base["variables"])
    variables.update(pl.variables())
    try:
        wire = enc_request(wschema, doc, base["operation_name"], variables, base["data"])
    except G.OutOfFragment as e:
        ck.count("skipped_out_of_fragment")
        ck.count("skipped:" + str(e))
        return None
    if len(wire) > 150000:
        ck.count("skipped_too_large_for_the_wire")
        return None
    return {"text": text, "doc": doc, "variables": variables, "data": base["data"], "wire": wire,
            "operation_name": base["operation_name"], "kinds": sorted(pl.kinds), "features": base["features"],
            "injected": base["injected"]}


def replay_dict(sdl, case, what, impl=None, model=None):
    return {"relation": "experimental_execute_incrementally == Incr/DeferExec.dexecute (initial data, pending set, "
                        "execution groups, merged data)", "disagreement": what, "sdl": sdl, "document": case["text"],
            "variables": case["variables"], "operation_name": case.get("operation_name"),
            "data": G.data_to_jsonable(case["data"]), "impl": repr(impl)[:3000], "model": repr(model)[:3000]}


def judge(ck, sdl, schema, c, outs, early):
    """One case: implementation run vs the four model answers."""
    o1, o3, o4 = outs[:3]
    o2 = outs[3] if len(outs) > 3 else None
    model = dec_dresponse(o1)
    ref = G.dec_response(o3)
    key_src = (sdl, c["text"], json.dumps(c["variables"], sort_keys=True, default=repr),
               repr(G.data_to_jsonable(c["data"])), early)
    kid = "defer:" + common.hashlib.blake2b(repr(key_src).encode("utf-8", "surrogatepass"), digest_size=8).hexdigest()
    try:
        r = run_incremental(schema, c["doc"], c["data"], c["variables"], c["operation_name"], early)
    except Exception as e:  # noqa: BLE001
        ck.violation(kid, f"experimental_execute_incrementally raised {type(e).__name__}: {e}"[:300],
                     replay_dict(sdl, c, "raised"))
        return
    if model["kind"] in ("bad-wire", "out-of-fuel"):
        ck.violation(kid, "model answer " + model["kind"], replay_dict(sdl, c, model["kind"]))
        return
    if r["kind"] in ("request-error", "pathless-error"):
        if model["kind"] != "request-error":
            ck.count("skipped_out_of_fragment")
            ck.count("skipped:impl_" + r["kind"])
        else:
            ck.note_case(key_src, nontrivial=False)
        return
    if model["kind"] != "response":
        ck.violation(kid, f"implementation answers, model says {model['kind']}", replay_dict(sdl, c, "kind", r, model))
        return
    impl = observe_impl(r)
    merged_model = None
    if o4 and o4[0] == 1:
        merged_model = G.canon_wjson(G.unflatten(o4[1:]))
    elif o4 and o4[0] == 0:
        ck.violation(kid, "the merge oracle cannot apply the model's payloads", replay_dict(sdl, c, "model merge", None, model))
    delivered = len(impl["groups"])
    ck.note_case(key_src, nontrivial=delivered > 0,
                 sample={"document": c["text"], "variables": c["variables"], "groups": delivered}
                 if delivered > 1 and len(c["text"]) < 300 else None)
    ck.count("runs_incremental" if r["kind"] == "incremental" else "runs_single_result")
    ck.count("execution_groups_delivered", delivered)
    for k in c["kinds"]:
        ck.count("placement:" + k)
    nerr = len(impl["errors"]) + sum(len(g[3]) for g in impl["groups"]) + len(impl["failed"])
    ck.count("runs_with_errors" if nerr else "runs_error_free")
    if model["revisit"]:
        ck.count("runs_with_fragment_revisit")
    if impl["problems"]:
        ck.violation(kid, "payloads cannot be applied: " + impl["problems"][0], replay_dict(sdl, c, "merge", r, model))
        return
    diffs = compare(impl, model, merged_model, ref)
    if diffs:
        what = "; ".join(d[0] for d in diffs)
        ck.violation(kid, f"incremental execution differs from the model in: {what}",
                     dict(replay_dict(sdl, c, what, r, model), diffs=repr(diffs)[:3000]))
        return
    # the property itself, on the model's outputs: error-free reference => merged == reference up to key order
    if ref["kind"] == "response" and not ref["errors"] and merged_model is not None:
        ck.count("error_free_reference")
        if unordered(merged_model) != unordered(ref["data"]):
            ck.violation(kid, "reassembled data differs from the execution with @defer erased",
                         dict(replay_dict(sdl, c, "reassembly", r, model), reference=repr(ref["data"])[:2000]))
    # model-internal: the base executor's run (planning off) is Spec.execute of the erased document - also when a
    # deferred fragment visit was repeated (the theorem assumes it was not)
    if o2 is not None:
        plain = dec_dresponse(o2)
        if plain["kind"] == "response" and ref["kind"] == "response":
            ck.count("plain_vs_erased_spec_checked")
            if (plain["data"], plain["errors"], plain["calls"], plain["payloads"]) != (ref["data"], ref["errors"], ref["calls"], []):
                ck.violation(kid + ":plain", "model inconsistency: base-executor run differs from Spec.execute of the erased document",
                             dict(replay_dict(sdl, c, "plain-vs-spec", plain, ref)))
        elif plain["kind"] != ref["kind"]:
            ck.violation(kid + ":plain", f"model inconsistency: base-executor run {plain['kind']} vs erased Spec {ref['kind']}",
                         dict(replay_dict(sdl, c, "plain-vs-spec", plain, ref)))
    # the implementation's own execution of the operation with @defer removed agrees with the erased reference
    try:
        iref = G.run_impl(schema, c04.strip_directives(c["doc"]), c["data"], c["variables"], c["operation_name"])
    except Exception as e:  # noqa: BLE001
        iref = {"kind": "raised", "messages": [repr(e)]}
    if iref["kind"] == "response" and ref["kind"] == "response":
        ck.count("impl_reference_checked")
        if iref["data"] != ref["data"] or iref["errors"] != ref["errors"]:
            ck.violation(kid + ":ref", "execute_sync of the operation with @defer removed differs from Spec.execute(erase_defer)",
                         dict(replay_dict(sdl, c, "reference", c02.strip(iref), ref)))
        if not iref["errors"] and unordered(impl["merged"]) != unordered(iref["data"]):
            ck.violation(kid + ":c04", "reassembled data differs from the implementation's own non-incremental response",
                         dict(replay_dict(sdl, c, "c04", impl["merged"], iref["data"])))
    # runs with errors: the error clause - the reassembled data is the non-propagating reference with subtrees nulled
    # (a reported error at or below) and keys withheld (execution groups that failed or were not delivered)
    if len(outs) > 5 and (nerr or model["errors"] or any(p["errors"] or p["data"] is None for p in model["payloads"])):
        npm, raw = dec_dresponse(outs[4]), dec_dresponse(outs[5])
        if npm["kind"] == "response" and raw["kind"] == "response" and merged_model is not None:
            ck.count("error_clause_checked")
            delivered = {(p["path"], frozenset(p["keys"])) for p in model["payloads"] if p["data"] is not None}
            withheld = {(p["path"], k) for p in raw["payloads"] for k in p["keys"]
                        if (p["path"], frozenset(p["keys"])) not in delivered}
            merrs = list(model["errors"]) + [p["path"] + e for p in model["payloads"] for e in p["errors"]]
            why = explained(merged_model, npm["data"], (), merrs, withheld)
            lost = unaccounted(npm["errors"], merrs, merged_model, withheld)
            if lost:
                why = why or f"errors of the reference neither reported nor at an undelivered position: {lost[:3]}"
            if why:
                ck.violation(kid + ":clause", "model: error clause fails for the model's own outputs: " + why,
                             dict(replay_dict(sdl, c, "error-clause-model", merged_model, npm["data"])))
            try:
                inp = G.run_impl(schema, np_document(c04.strip_directives(c["doc"]), c["operation_name"]), c["data"],
                                 c["variables"], c["operation_name"])
            except Exception as e:  # noqa: BLE001
                inp = {"kind": "raised", "messages": [repr(e)]}
            if inp["kind"] == "response":
                ck.count("nonpropagating_reference_checked")
                if inp["data"] != npm["data"] or inp["errors"] != npm["errors"]:
                    ck.violation(kid + ":np", "execution with error propagation disabled differs from the model's non-propagating run",
                                 dict(replay_dict(sdl, c, "np-reference", c02.strip(inp), npm)))
                # error propagation disabled: the incremental run reassembles exactly, nothing fails
                if len(outs) > 6:
                    npi = dec_dresponse(outs[6])
                    try:
                        rnp = run_incremental(schema, np_document(c["doc"], c["operation_name"]), c["data"], c["variables"],
                                              c["operation_name"], early)
                    except Exception as e:  # noqa: BLE001
                        rnp = {"kind": "raised"}
                    if rnp["kind"] in ("single", "incremental") and npi["kind"] == "response":
                        ck.count("propagation_disabled_incremental_checked")
                        inpi = observe_impl(rnp)
                        mo7 = observe_model(npi)
                        ig = sorted(((g[0], tuple(sorted(g[1]))) for g in inpi["groups"]), key=repr)
                        mg = sorted(((g[0], tuple(sorted(g[1]))) for g in mo7["groups"]), key=repr)
                        if inpi["data"] != mo7["data"] or ig != mg or inpi["failed"]:
                            ck.violation(kid + ":npi", "incremental run with error propagation disabled differs from the model",
                                         dict(replay_dict(sdl, c, "np-incremental", [inpi["data"], ig, sorted(inpi["failed"], key=repr)],
                                                          [mo7["data"], mg])))
                        if inpi["problems"] or unordered(inpi["merged"]) != unordered(inp["data"]):
                            ck.violation(kid + ":c04-np", "with error propagation disabled the reassembled data differs from the "
                                         "non-incremental response", dict(replay_dict(sdl, c, "c04-np", inpi["merged"], inp["data"])))
                ierrs = list(impl["errors"]) + [e for g in impl["groups"] for e in g[3]] + list(impl.get("failed_errors", []))
                why = explained(impl["merged"], inp["data"], (), ierrs, withheld)
                lost = unaccounted(inp["errors"], ierrs, impl["merged"], withheld)
                if lost and not why:
                    why = f"errors of the non-propagating reference neither reported nor at an undelivered position: {lost[:3]}"
                if why:
                    ck.violation(kid + ":c04-errors", "error clause violated by the implementation: " + why,
                                 dict(replay_dict(sdl, c, "error-clause", impl["merged"], inp["data"])))
    # resolver calls of the whole run as a multiset
    mcalls = list(model["calls"])
    for p in model["payloads"]:
        mcalls += [(p["path"] + cp, f, a) for cp, f, a in p["calls"]]
    if sorted(map(repr, mcalls)) != sorted(map(repr, r["calls"])) and not nerr:
        ck.violation(kid, "resolver calls of the whole run differ from the model",
                     dict(replay_dict(sdl, c, "calls", sorted(map(repr, r["calls"])), sorted(map(repr, mcalls)))))


def run_schema(ck, m, rng, n_docs, max_depth, p_bad):
    from graphql import build_schema
    from graphql.type import validate_schema
    gs = G.GSchema(rng)
    sdl = DEFER_SDL + gs.sdl()
    try:
        schema = build_schema(sdl)
        errs = validate_schema(schema)
    except Exception as e:  # noqa: BLE001
        errs = [e]
    if errs:
        ck.count("generator_invalid_schema")
        return
    ck.count("schemas")
    wschema = G.enc_schema(schema)
    cases = []
    for _ in range(n_docs):
        c = build_case(ck, rng, gs, schema, wschema, max_depth, p_bad)
        if c:
            cases.append(c)
    if not cases:
        return
    o1 = m.run_batch([[1] + c["wire"] for c in cases])
    o3 = m.run_batch([[3] + c["wire"] for c in cases])
    o4 = m.run_batch([[4] + c["wire"] for c in cases])
    o2 = m.run_batch([[2] + c["wire"] for c in cases])
    o5 = m.run_batch([[5] + c["wire"] for c in cases])
    o6 = m.run_batch([[6] + c["wire"] for c in cases])
    o7 = m.run_batch([[7] + c["wire"] for c in cases])
    for c, a, b, d, e, f5, f6, f7 in zip(cases, o1, o3, o4, o2, o5, o6, o7):
        for f in c["features"]:
            ck.count("feature:" + f)
        judge(ck, sdl, schema, c, (a, b, d, e, f5, f6, f7), early=rng.random() < 0.3)


FIXED_SDL = DEFER_SDL + """
type Query { a: Obj b: Obj nn: Obj! list: [Obj] nnlist: [Obj!] it: I un: U }
interface I { id: ID name: String }
type Obj implements I { id: ID name: String req: String! bestFriend: Obj nnFriend: Obj! friends: [Obj] nnFriends: [Obj!]! }
type Other { x: Int o: Obj }
union U = Obj | Other
"""


def fixed_cases(ck, m):
    """The @defer-only hand-written queries of harness/c04.py plus targeted ones, on a fixed schema and data."""
    from graphql import build_schema, parse, validate
    schema = build_schema(FIXED_SDL)
    wschema = G.enc_schema(schema)

    def obj(d):
        o = {"__typename": "Obj", "id": f"i{d}", "name": f"n{d}", "req": "r"}
        if d > 0:
            o["bestFriend"] = obj(d - 1)
            o["nnFriend"] = obj(d - 1)
            o["friends"] = [obj(d - 1), None, obj(0)]
            o["nnFriends"] = [obj(d - 1)]
        else:
            o["nnFriend"] = None
            o["nnFriends"] = []
        return o
    data = {"a": obj(3), "b": obj(2), "nn": obj(2), "list": [obj(2), obj(1)], "nnlist": [obj(1)], "it": obj(2),
            "un": {"__typename": "Other", "x": 4, "o": obj(1)}, "me": obj(3)}
    qs = [q.replace("me", "a").replace("slow", "b").replace(" c ", " b ").replace(" c {", " b {")
          for q in c04.QUERIES if "@stream" not in q]
    qs += [
        "{ a { ...F @defer ...F } } fragment F on Obj { id name }",
        "{ a { ...F ...F @defer } } fragment F on Obj { id name }",
        "{ a { ...F @defer(label: \"x\") ...F @defer(label: \"y\") } } fragment F on Obj { id name }",
        "{ ... @defer { a { id } } ... @defer { a { id } } }",
        "{ ... @defer(label: \"A\") { a { id ... @defer(label: \"B\") { name } } } a { name } }",
        "{ a { ... @defer(label: \"A\") { bestFriend { id } } ... @defer(label: \"B\") { bestFriend { name } } } }",
        "{ list { ... @defer { id ... @defer { name } } } }",
        "{ nn { ... @defer { nnFriend { nnFriend { nnFriend { req } } } } id } }",
        "{ a { id ... @defer { nnFriend { nnFriend { nnFriend { req } } } } } }",
        "{ un { ... on Other @defer { x o { ... @defer { id } } } } it { ... on Obj @defer { req } } }",
        "query Q($v: Boolean! = false) { a { ... @defer(if: $v) { id } ... @defer(if: true, label: \"t\") { name } } }",
    ]
    cases = []
    for q in qs:
        try:
            doc = parse(q)
        except Exception:  # noqa: BLE001
            continue
        if validate(schema, doc):
            ck.count("fixed_query_rejected_by_validate")
            continue
        for variables in ({}, {"d": True}, {"v": True}):
            try:
                wire = enc_request(wschema, doc, None, variables, data)
            except G.OutOfFragment:
                continue
            cases.append({"text": q, "doc": doc, "variables": variables, "data": data, "wire": wire,
                          "operation_name": None, "kinds": ["fixed"], "features": [], "injected": []})
    o1 = m.run_batch([[1] + c["wire"] for c in cases])
    o3 = m.run_batch([[3] + c["wire"] for c in cases])
    o4 = m.run_batch([[4] + c["wire"] for c in cases])
    o2 = m.run_batch([[2] + c["wire"] for c in cases])
    o5 = m.run_batch([[5] + c["wire"] for c in cases])
    o6 = m.run_batch([[6] + c["wire"] for c in cases])
    o7 = m.run_batch([[7] + c["wire"] for c in cases])
    for c, a, b, d, e, f5, f6, f7 in zip(cases, o1, o3, o4, o2, o5, o6, o7):
        for early in (False, True):
            judge(ck, FIXED_SDL, schema, c, (a, b, d, e, f5, f6, f7), early)


# --------------------------------------------------------------------------- the check

def account_proofs(ck, br):
    f = common.COQ / "theories" / "Properties" / f"{THMS}.v"
    ck.checker_cmd = ("cd /verif/coq && coq_makefile -f _CoqProject <all theories/*.v> -o Makefile && make -j16 "
                      f"theories/Properties/{THMS}.vo theories/Extract/ExtractDefer.vo && "
                      f"coqc -Q theories GV theories/Properties/{THMS}.v")
    if not f.exists():
        ck.degraded.append(f"Properties/{THMS}.v not present: correspondence only")
        if not br.ok:
            ck.proof_breaks.append(f"build failed at {br.failed_file}: " + br.log[-800:])
        return br.ok
    deps = common.dep_closure([f"Properties/{THMS}.v", "Extract/ExtractDefer.v"])
    ck.extra["coq_files"] = deps
    bad = common.scan_forbidden(deps)
    if bad:
        ck.proof_breaks.append("forbidden construct: " + "; ".join(bad[:5]))
    names = re.findall(r"^\s*(?:Theorem|Lemma|Corollary)\s+(\w+)", f.read_text(), re.M)
    ck.theorems = names
    ck.obligations = len(names)
    ck.partial = [n for n in names if n.endswith("_partial")]
    if not br.ok:
        ck.proof_breaks.append(f"build failed at {br.failed_file}: " + br.log[-800:])
        return False
    ok, names2, assumptions, out = common.check_property_file(THMS, timeout=1200)
    ck.print_assumptions = assumptions
    if ok:
        ck.discharged = len(names2)
        for n, a in zip(names2, assumptions):
            if not a.startswith("Closed under"):
                ck.proof_breaks.append(f"{n} depends on axioms: {a}")
    else:
        ck.proof_breaks.append(f"coqc Properties/{THMS}.v failed: " + out[-800:])
    return ok


def build():
    has_thms = (common.COQ / "theories" / "Properties" / f"{THMS}.v").exists()
    return common.build(PID, models=(MODEL,),
                        extra_targets=(f"theories/Properties/{THMS}.vo",) if has_thms else ())


def run(tier):
    ck = Check(PID, tier)
    ck.assumptions += ASSUMPTIONS
    br = build()
    account_proofs(ck, br)
    if not br.ok:
        return ck.finish()
    core(ck, tier, True)
    return ck.finish()


def core(ck, tier, model_ok):
    """The @defer correspondence, reporting into `ck` (used by ./check CDEFER and as a part of ./check C04)."""
    if not model_ok:
        ck.degraded.append("CDEFER: model `defer` not built, correspondence skipped")
        return
    m = Model(MODEL)
    quick = tier == "quick"
    t0 = time.time()
    fixed_cases(ck, m)
    for c in common.load_corpus(PID):
        run_corpus_case(ck, m, c)
    n_schemas, n_docs = (40, 24) if quick else (400, 60)
    budget = 40 if quick else 400
    for _ in range(n_schemas):
        if time.time() - t0 > budget:
            ck.count("stopped_on_time_budget")
            break
        run_schema(ck, m, ck.rng, n_docs, max_depth=ck.rng.choice([2, 2, 3] if quick else [2, 3, 3, 4]),
                   p_bad=ck.rng.choice([0.0, 0.0, 0.03, 0.06]))
    rule = ("CDEFER: type-directed requests of the Exec fragment (gen_exec/c02 generators) re-rendered with @defer on "
            "inline fragments and fragment spreads (labels, if: literal/variable incl. absent variable with default, "
            "nested, copies of selections wrapped into new deferred fragments = overlapping / the same field deferred "
            "and not) + the @defer-only hand-written queries of c04; real experimental_execute_incrementally with "
            "synchronous resolvers (early execution off/on), subsequent results drained in a fresh event loop, vs the "
            "extracted Incr/DeferExec model: initial data incl. key order, initial error paths, set of pending "
            "(path, label), multiset of execution groups (path, key set, error paths) and their delivery group, groups "
            "completed with errors, merged final data (model payloads merged by the extracted Incr/Merge oracle), "
            "resolver calls (error-free runs); on runs with errors the error clause (nulls explained by reported errors, "
            "missing keys = failed/withheld execution groups, errors of the non-propagating reference accounted for) on "
            "implementation and model, and implementation run with propagation disabled == model np run. "
            "non-trivial = at least one execution group delivered")
    ck.rule = (ck.rule + " || " + rule) if ck.rule else rule


def run_corpus_case(ck, m, c):
    from graphql import build_schema, parse
    try:
        schema = build_schema(c["sdl"])
        doc = parse(c["document"])
        data = G.data_from_jsonable(c["data"])
        wire = enc_request(G.enc_schema(schema), doc, c.get("operation_name"), c.get("variables") or {}, data)
    except Exception:  # noqa: BLE001
        ck.count("corpus_case_unusable")
        return
    case = {"text": c["document"], "doc": doc, "variables": c.get("variables") or {}, "data": data, "wire": wire,
            "operation_name": c.get("operation_name"), "kinds": ["corpus"], "features": [], "injected": []}
    outs = [m.run_batch([[op] + wire])[0] for op in (1, 3, 4, 2, 5, 6, 7)]
    judge(ck, c["sdl"], schema, case, outs, early=False)


def replay(path):
    c = json.loads(open(path).read())
    br = build()
    if not br.ok:
        print("build failed", br.failed_file)
        return 2
    ck = Check(PID + "-replay", "quick")
    run_corpus_case(ck, Model(MODEL), c)
    for key, what, rep in ck.violations:
        print("STILL FAILING:", what)
        print("  diffs:", rep.get("diffs", "")[:3000])
    if not ck.violations:
        print("passes now")
    return 1 if ck.violations else 0
