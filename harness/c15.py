"""C15 - input coercion and input validation agree on values, literals and variables.

JSON-able representations (used in replays):
  type   ["n", name] | ["l", type] | ["nn", type]
  lit    ["var", n] ["null"] ["int", s] ["float", s] ["string", s] ["bool", b] ["enum", n]
         ["list", [lit..]] ["object", [[name, lit]..]]
  value  the value specs of harness/c16.py
  schema {"enums": [[name, [value names]]], "inputs": [[name, oneof, [[field, type, default lit|None]..]]..],
          "args": [type..]}     (Query.f<i>(x: args[i]): Int)
"""
from __future__ import annotations

import json
import math
import sys

from . import c16, common
from .c16 import Registry, enc_float, enc_text, enc_Z, fspec, ispec, rp, sspec, to_py, to_wire
from .common import Check, Model

SCALARS = c16.SCALARS
FUEL = 60

ASSUMPTIONS = [
    "C15 model: Types/Coerce.v (coerce_input_value, coerce_input_literal, coerce_default_value, "
    "validate_input_value_impl, validate_input_literal_impl, value_to_literal, coerce_variable_values) over the five "
    "built-in scalars, enums and (recursive, OneOf) input objects with literal defaults, as produced by build_schema",
    "out_name (graphql-core extension) is set on ~30% of the generated input fields, OneOf fields included; it renames "
    "the keys of coerced dicts, the harness undoes the renaming (suffix _o) before conformance and comparison with the "
    "model, whose results are keyed by field name; the out_name lookups inside the coercers are thereby exercised",
    "non-dict Mappings (types.MappingProxyType) occur as values (6% of the generated input-object values): opaque "
    "objects in the model - rejected by coercion, reported by validation; value_to_literal is not compared for them",
    "fragment variables (experimental fragment arguments): FragmentVariableValues are built by the implementation's "
    "get_fragment_variable_values from a generated document; the model runs on the scoped environment (a variable "
    "declared by the fragment shadows the operation variable of that name whether or not it has a value), computed by "
    "the harness from .sources/.coerced; nested fragment scopes and replace_variables sources are not modelled",
    "not modelled: custom scalars, out_type, max_errors, hide_suggestions, one-shot "
    "iterators as values (stateful; see DESIGN.md C15 residual), dict keys that are not str",
    "oracles supplied per case from CPython: float(s) of every Int/Float literal text, str(x) of every float in a "
    "value, sys.get_int_max_str_digits()",
    "the model rejects a Float literal whose value overflows binary64 (1e999), as the property demands (finite Float); "
    "the implementation returned inf until /repo b2d1c64; regression case corpus/C15/float-literal-overflow.json runs first",
    "memoised coerced defaults: the model has no memo; the same schema object serves all cases of a schema and every "
    "value is coerced twice, so a memo that changed results would show as a disagreement",
    "compared: valid/invalid/raises, the coerced value (dicts as unordered maps, ints exact, floats exact), the set of "
    "error paths of validation, the literal of value_to_literal (object fields as a map); never messages",
]


def cps(s):
    return [ord(c) for c in s]


# --------------------------------------------------------------------------- wire encoders

def type_wire(t):
    if t[0] == "n":
        return [0] + enc_text(cps(t[1]))
    return [1 if t[0] == "l" else 2] + type_wire(t[1])


def lit_wire(l):
    k = l[0]
    if k == "var":
        return [0] + enc_text(cps(l[1]))
    if k == "null":
        return [1]
    if k in ("int", "float", "string", "enum"):
        return [{"int": 2, "float": 3, "string": 4, "enum": 6}[k]] + enc_text(cps(l[1]))
    if k == "bool":
        return [5, 1 if l[1] else 0]
    if k == "list":
        out = [7, len(l[1])]
        for x in l[1]:
            out += lit_wire(x)
        return out
    if k == "object":
        out = [8, len(l[1])]
        for n, x in l[1]:
            out += enc_text(cps(n)) + lit_wire(x)
        return out
    raise ValueError(l)


def opt(x, enc):
    return [0] if x is None else [1] + enc(x)


def schema_wire(desc):
    out = []
    n = 0
    for i, name in enumerate(SCALARS):
        out += enc_text(cps(name)) + [0, i]
        n += 1
    for name, vals in desc["enums"]:
        out += enc_text(cps(name)) + [1, len(vals)]
        for v in vals:
            out += enc_text(cps(v)) + [5] + enc_text(cps(v))  # internal value = the name (build_schema)
        n += 1
    for name, oneof, fields in desc["inputs"]:
        out += enc_text(cps(name)) + [2, 1 if oneof else 0, len(fields)]
        for fn, ft, fd in fields:
            out += enc_text(cps(fn)) + type_wire(ft) + opt(fd, lit_wire)
        n += 1
    return [n] + out


def lit_strings(l, acc):
    """texts of Int/Float literals (float() oracle)."""
    if l is None:
        return
    if l[0] in ("int", "float"):
        acc.add(l[1])
    elif l[0] == "list":
        for x in l[1]:
            lit_strings(x, acc)
    elif l[0] == "object":
        for _, x in l[1]:
            lit_strings(x, acc)


def spec_floats(spec, acc):
    if spec[0] == "float":
        acc.append(spec)
    elif spec[0] == "list":
        for x in spec[1]:
            spec_floats(x, acc)
    elif spec[0] == "dict":
        for _, x in spec[1]:
            spec_floats(x, acc)


def parse_tbl(strings):
    out = [len(strings)]
    for s in sorted(strings):
        try:
            e = [1] + enc_float(float(s))
        except ValueError:
            e = [0]
        out += enc_text(cps(s)) + e
    return out


def str_tbl(fspecs):
    seen, out, n = set(), [], 0
    for sp in fspecs:
        x = float(to_py(sp, None))
        if not math.isfinite(x):
            continue
        key = x.hex()
        if key in seen:
            continue
        seen.add(key)
        out += enc_float(x) + enc_text(cps(float.__str__(x)))
        n += 1
    return [n] + out


def maxd():
    return sys.get_int_max_str_digits() if hasattr(sys, "get_int_max_str_digits") else 0


def schema_lit_strings(desc):
    acc = set()
    for _, _, fields in desc["inputs"]:
        for _, _, fd in fields:
            lit_strings(fd, acc)
    return acc


def env_wire(env):
    out = [len(env)]
    for k, sp in env:
        out += enc_text(cps(k)) + to_wire(sp)
    return out


# --------------------------------------------------------------------------- wire decoders (model answers)

class Rd:
    def __init__(self, l):
        self.l, self.i = l, 0

    def n(self):
        v = self.l[self.i]
        self.i += 1
        return v

    def text(self):
        k = self.n()
        s = "".join(chr(c) for c in self.l[self.i:self.i + k])
        self.i += k
        return s

    def big(self):
        k = self.n()
        v = sum(x << (32 * j) for j, x in enumerate(self.l[self.i:self.i + k]))
        self.i += k
        return v

    def Z(self):
        s = self.n()
        v = self.big()
        return -v if s else v

    def flt(self):
        k = self.n()
        if k == 0:
            return math.nan
        if k == 1:
            return -math.inf if self.n() else math.inf
        s = self.n()
        m = self.big()
        e = self.Z()
        x = math.ldexp(float(m), e)
        return -x if s else x

    def val(self):
        k = self.n()
        if k == 0:
            return ["none"]
        if k == 1:
            return ["undef"]
        if k == 2:
            return ["bool", self.n()]
        if k == 3:
            return ispec(self.Z())
        if k == 4:
            return fspec(self.flt())
        if k == 5:
            return sspec(self.text())
        if k == 6:
            return ["bytes", cps(self.text())]
        if k == 7:
            return ["list", [self.val() for _ in range(self.n())]]
        if k == 8:
            return ["dict", [[cps(self.text()), self.val()] for _ in range(self.n())]]
        if k == 9:
            oid, b = self.n(), self.n()
            return ["obj", oid, b, cps(self.text())]
        if k == 10:
            return ["tuple", [self.val() for _ in range(self.n())]]
        raise ValueError(k)

    def lit(self):
        k = self.n()
        if k == 0:
            return ["var", self.text()]
        if k == 1:
            return ["null"]
        if k in (2, 3, 4, 6):
            return [{2: "int", 3: "float", 4: "string", 6: "enum"}[k], self.text()]
        if k == 5:
            return ["bool", self.n()]
        if k == 7:
            return ["list", [self.lit() for _ in range(self.n())]]
        if k == 8:
            return ["object", [[self.text(), self.lit()] for _ in range(self.n())]]
        raise ValueError(k)

    def path(self):
        out = []
        for _ in range(self.n()):
            out.append(self.text() if self.n() == 0 else self.n())
        return out

    def block(self):
        k = self.n()
        r = Rd(self.l[self.i:self.i + k])
        self.i += k
        return r


def rd_result(r, payload):
    """('good', x) | ('invalid',) | ('crash',) | ('fuel',)"""
    k = r.n()
    if k == 0:
        return ("good", payload(r))
    return (("invalid",), ("crash",), ("fuel",))[k - 1]


def rd_paths(r):
    k = r.n()
    if k == 3:
        return None
    return [r.path() for _ in range(r.n())]


# --------------------------------------------------------------------------- canonical forms

def canon(spec):
    """comparable form of a value spec: dicts as sorted maps, subclass flags dropped."""
    k = spec[0]
    if k in ("none", "undef"):
        return (k,)
    if k == "bool":
        return ("bool", int(spec[1]))
    if k == "int":
        return ("int", int(spec[1], 16))
    if k == "float":
        return ("float", spec[1])
    if k == "str":
        return ("str", tuple(spec[1]))
    if k == "bytes":
        return ("bytes", tuple(spec[1]))
    if k in ("list", "tuple"):
        return (k, tuple(canon(x) for x in spec[1]))
    if k == "dict":
        return ("dict", tuple(sorted((tuple(kk), canon(x)) for kk, x in spec[1])))
    if k == "obj":
        return ("obj", spec[1])
    raise ValueError(spec)


def canon_lit(l):
    if l[0] == "list":
        return ("list", tuple(canon_lit(x) for x in l[1]))
    if l[0] == "object":
        return ("object", tuple(sorted((n, canon_lit(x)) for n, x in l[1])))
    if l[0] == "bool":
        return ("bool", int(l[1]))
    return tuple(l)


def py_to_spec(v, reg=None):
    """spec of a plain Python result (None/bool/int/float/str/list/dict); None if not expressible."""
    from graphql.pyutils import Undefined
    if v is None:
        return ["none"]
    if v is Undefined:
        return ["undef"]
    if isinstance(v, bool):
        return ["bool", 1 if v else 0]
    if isinstance(v, int):
        return ispec(int(v))
    if isinstance(v, float):
        return fspec(float(v))
    if isinstance(v, str):
        return sspec(str(v))
    if isinstance(v, bytes):
        return ["bytes", list(v)]
    if isinstance(v, (list, tuple)):
        xs = [py_to_spec(x, reg) for x in v]
        return None if any(x is None for x in xs) else ["list", xs]
    if isinstance(v, dict):
        out = []
        for k, x in v.items():
            sx = py_to_spec(x, reg)
            if sx is None or not isinstance(k, str):
                return None
            out.append([cps(k), sx])
        return ["dict", out]
    if reg is not None:
        for oid, o in reg.objs.items():
            if o is v:
                return ["obj", oid, 0 if isinstance(o, c16.Custom) else 1, cps(str(o)) if isinstance(o, c16.Custom) else []]
    return None


# --------------------------------------------------------------------------- AST <-> lit

def lit_to_ast(l):
    from graphql.language import (BooleanValueNode, EnumValueNode, FloatValueNode, IntValueNode, ListValueNode, NameNode,
                                  NullValueNode, ObjectFieldNode, ObjectValueNode, StringValueNode, VariableNode)
    k = l[0]
    if k == "var":
        return VariableNode(name=NameNode(value=l[1]))
    if k == "null":
        return NullValueNode()
    if k == "int":
        return IntValueNode(value=l[1])
    if k == "float":
        return FloatValueNode(value=l[1])
    if k == "string":
        return StringValueNode(value=l[1], block=False)
    if k == "bool":
        return BooleanValueNode(value=bool(l[1]))
    if k == "enum":
        return EnumValueNode(value=l[1])
    if k == "list":
        return ListValueNode(values=tuple(lit_to_ast(x) for x in l[1]))
    if k == "object":
        return ObjectValueNode(fields=tuple(ObjectFieldNode(name=NameNode(value=n), value=lit_to_ast(x)) for n, x in l[1]))
    raise ValueError(l)


def ast_to_lit(node):
    from graphql.language import (BooleanValueNode, EnumValueNode, FloatValueNode, IntValueNode, ListValueNode,
                                  NullValueNode, ObjectValueNode, StringValueNode, VariableNode)
    if isinstance(node, VariableNode):
        return ["var", node.name.value]
    if isinstance(node, NullValueNode):
        return ["null"]
    if isinstance(node, IntValueNode):
        return ["int", node.value]
    if isinstance(node, FloatValueNode):
        return ["float", node.value]
    if isinstance(node, StringValueNode):
        return ["string", node.value]
    if isinstance(node, BooleanValueNode):
        return ["bool", 1 if node.value else 0]
    if isinstance(node, EnumValueNode):
        return ["enum", node.value]
    if isinstance(node, ListValueNode):
        return ["list", [ast_to_lit(x) for x in node.values]]
    if isinstance(node, ObjectValueNode):
        return ["object", [[f.name.value, ast_to_lit(f.value)] for f in node.fields]]
    raise ValueError(node)


def type_sdl(t):
    if t[0] == "n":
        return t[1]
    if t[0] == "l":
        return "[" + type_sdl(t[1]) + "]"
    return type_sdl(t[1]) + "!"


def lit_text(l):
    from graphql import print_ast
    return print_ast(lit_to_ast(l))


def schema_sdl(desc):
    out = []
    for name, vals in desc["enums"]:
        out.append(f"enum {name} {{ {' '.join(vals)} }}")
    for name, oneof, fields in desc["inputs"]:
        fs = []
        for fn, ft, fd in fields:
            fs.append(f"{fn}: {type_sdl(ft)}" + (f" = {lit_text(fd)}" if fd is not None else ""))
        out.append(f"input {name}{' @oneOf' if oneof else ''} {{ {', '.join(fs)} }}")
    args = " ".join(f"f{i}(x: {type_sdl(t)}): Int" for i, t in enumerate(desc["args"]))
    out.append(f"type Query {{ {args} }}")
    return "\n".join(out)


OUT_SUFFIX = "_o"


def build_impl_schema(desc):
    """build_schema of the SDL, then the graphql-core extension `out_name` on the fields listed in desc["out"]:
    the coerced dict is keyed by <field>_o instead of <field> (no generated field name ends in _o)."""
    from graphql import build_schema
    schema = build_schema(schema_sdl(desc))
    for tn, fn in desc.get("out", []):
        schema.type_map[tn].fields[fn].out_name = fn + OUT_SUFFIX
    return schema


def unrename(x):
    """undo out_name on a coerced result (the model keys results by field name)."""
    if isinstance(x, dict):
        return {(k[:-len(OUT_SUFFIX)] if isinstance(k, str) and k.endswith(OUT_SUFFIX) else k): unrename(v)
                for k, v in x.items()}
    if isinstance(x, list):
        return [unrename(v) for v in x]
    return x


def impl_type(schema, t):
    from graphql import GraphQLList, GraphQLNonNull
    if t[0] == "n":
        return schema.type_map[t[1]]
    inner = impl_type(schema, t[1])
    return GraphQLList(inner) if t[0] == "l" else GraphQLNonNull(inner)


# --------------------------------------------------------------------------- generators

class Gen:
    def __init__(self, rng, thorough=False):
        self.r = rng
        self.thorough = thorough

    # ---- schemas
    def schema(self):
        r = self.r
        enums = [[f"E{i}", r.sample(["A", "B", "C", "D", "a"], r.randrange(1, 4))] for i in range(r.randrange(1, 3))]
        n_in = r.randrange(2, 5)
        names = [f"I{i}" for i in range(n_in)]
        desc = {"enums": enums, "inputs": [], "args": []}
        for i, name in enumerate(names):
            oneof = (i == n_in - 1) or r.random() < 0.15
            fields = []
            for j in range(r.randrange(1, 5)):
                ft = self.type(desc, names, i, depth=0, oneof=oneof)
                fd = None
                if not oneof and r.random() < 0.35:
                    # defaults of input object type only refer to earlier input types (no default cycles)
                    fd = self.lit(desc, ft, 2, [], valid=r.random() > 0.04, max_input=i)
                    if fd is None or has_var(fd) or overflowing(fd):
                        fd = None
                fields.append([f"f{j}" if r.random() < 0.9 else "a", ft, fd])
            # unique field names
            seen, uf = set(), []
            for f in fields:
                if f[0] not in seen:
                    seen.add(f[0])
                    uf.append(f)
            desc["inputs"].append([name, oneof, uf])
        all_named = SCALARS + [e[0] for e in enums] + names
        args = [["n", n] for n in names] + [["n", enums[0][0]], ["l", ["n", names[0]]]]
        for _ in range(6):
            args.append(self.wrap(["n", r.choice(all_named)], 0))
        desc["args"] = args
        desc["out"] = [[tn, f[0]] for tn, _, fields in desc["inputs"] for f in fields if r.random() < 0.3]
        return desc

    def wrap(self, t, depth):
        r = self.r
        x = r.random()
        if depth < 3 and x < 0.30:
            t = ["l", self.wrap(t, depth + 1)] if r.random() < 0.5 else self.wrap(["l", t], depth + 1)
        if t[0] != "nn" and r.random() < 0.3:
            t = ["nn", t]
        return t

    def type(self, desc, names, i, depth, oneof):
        r = self.r
        x = r.random()
        if x < 0.55:
            base = ["n", r.choice(SCALARS)]
        elif x < 0.70:
            base = ["n", r.choice(desc["enums"])[0]]
        else:
            base = ["n", r.choice(names)]
        t = self.wrap(base, 0)
        if oneof and t[0] == "nn":
            t = t[1]
        return t

    # ---- literals (type directed)
    def lit(self, desc, t, depth, vars_, valid=True, max_input=None):
        r = self.r
        if depth < -5:
            return ["null"]
        if vars_ and r.random() < 0.15:
            return ["var", r.choice(vars_)]
        if not valid and r.random() < 0.4:
            return self.junk_lit(depth)
        if t[0] == "nn":
            if not valid and r.random() < 0.3:
                return ["null"]
            return self.lit(desc, t[1], depth, vars_, valid, max_input)
        if r.random() < (0.08 if valid else 0.15):
            return ["null"]
        if t[0] == "l":
            if r.random() < 0.2:
                return self.lit(desc, t[1], depth, vars_, valid, max_input)
            items = [self.lit(desc, t[1], depth - 1, vars_, valid, max_input)
                     for _ in range(r.choice([0, 1, 1, 2, 3]) if depth > 0 else 0)]
            return None if any(x is None for x in items) else ["list", items]
        name = t[1]
        if name in SCALARS:
            return self.scalar_lit(name, valid)
        for en, vals in desc["enums"]:
            if en == name:
                if valid or r.random() < 0.5:
                    return ["enum", r.choice(vals)]
                return r.choice([["enum", "Z"], ["string", vals[0]], ["int", "0"], ["enum", vals[0].lower()]])
        for idx, (iname, oneof, fields) in enumerate(desc["inputs"]):
            if iname == name:
                if max_input is not None and idx >= max_input:
                    return None       # (also for invalid defaults: a circular default makes coercion recurse forever)
                if depth <= 0:
                    chosen = [f for f in fields if f[1][0] == "nn" and f[2] is None]
                    if oneof:
                        chosen = fields[:1]
                else:
                    if oneof:
                        chosen = [r.choice(fields)] if (valid or r.random() < 0.6) else r.sample(fields, r.randrange(0, len(fields) + 1))
                    else:
                        chosen = [f for f in fields if (f[1][0] == "nn" and f[2] is None and (valid or r.random() < 0.8))
                                  or r.random() < 0.5]
                out = []
                for fn, ft, _ in chosen:
                    sub = self.lit(desc, ft, depth - 1, vars_, valid, max_input)
                    if sub is None:
                        if ft[0] == "nn":
                            return None
                        continue
                    if oneof and valid and sub == ["null"]:
                        sub = self.lit(desc, ["nn", ft], depth - 1, [], True, max_input)
                        if sub is None:
                            return None
                    out.append([fn, sub])
                if not valid and r.random() < 0.3:
                    out.append(["zz", ["int", "1"]])
                if not valid and out and r.random() < 0.15:
                    out.append([out[0][0], self.junk_lit(0)])     # duplicate field name
                r.shuffle(out)
                return ["object", out]
        return ["null"]

    def scalar_lit(self, name, valid):
        r = self.r
        ints = ["0", "1", "-1", "7", "2147483647", "-2147483648", "123456789"]
        big = ["2147483648", "-2147483649", "9007199254740993", "1" + "0" * 30, "1" + "0" * 400, "-0"]
        flts = ["1.5", "-0.0", "0.1", "1e3", "1E-3", "2.5e10", "1e308", "4.9e-324", "123.0", "1e22"]
        bigf = ["1e999", "-1e999", "1e309", "1.8e308", "1e-999"]
        strs = ["", "a", "abc", "1", "-12", "1e3", "é", "x y", "A", "\n", "12\n", "007", "true"]
        good = {
            "Int": lambda: ["int", r.choice(ints)],
            "Float": lambda: r.choice([["int", r.choice(ints + big[:4])], ["float", r.choice(flts)]]),
            "String": lambda: ["string", r.choice(strs)],
            "Boolean": lambda: ["bool", r.randrange(2)],
            "ID": lambda: r.choice([["string", r.choice(strs)], ["int", r.choice(ints + big)]]),
        }
        if valid and r.random() < 0.97:
            return good[name]()
        return r.choice([["int", r.choice(ints + big)], ["float", r.choice(flts + bigf)], ["string", r.choice(strs)],
                         ["bool", r.randrange(2)], ["enum", "A"], ["list", [["int", "1"]]], ["object", []],
                         ["int", "1" + "0" * (5000 if self.thorough and r.random() < 0.05 else 310)] if r.random() < 0.3 else ["int", "5"]])

    def junk_lit(self, depth):
        r = self.r
        x = r.randrange(9)
        if x == 0:
            return ["null"]
        if x == 1:
            return ["list", [self.junk_lit(depth - 1) for _ in range(r.randrange(3))] if depth > 0 else []]
        if x == 2:
            return ["object", [[r.choice(["f0", "f1", "a", "zz"]), self.junk_lit(depth - 1)]
                               for _ in range(r.randrange(3))] if depth > 0 else []]
        return self.scalar_lit(r.choice(SCALARS), False)

    # ---- values (type directed)
    def value(self, desc, t, depth, valid=True):
        r = self.r
        if depth < -5:
            return ["none"]
        if not valid and r.random() < 0.3:
            return c16.rand_value(r, 1)
        if t[0] == "nn":
            if not valid and r.random() < 0.3:
                return r.choice([["none"], ["undef"]])
            return self.value(desc, t[1], depth, valid)
        x = r.random()
        if x < 0.07:
            return ["none"]
        if x < 0.09:
            return ["undef"]
        if t[0] == "l":
            if r.random() < 0.2:
                return self.value(desc, t[1], depth, valid)
            return ["list", [self.value(desc, t[1], depth - 1, valid) for _ in range(r.choice([0, 1, 1, 2, 3]) if depth > 0 else 0)]]
        name = t[1]
        if name in SCALARS:
            return self.scalar_value(name, valid)
        for en, vals in desc["enums"]:
            if en == name:
                if valid or r.random() < 0.5:
                    return sspec(r.choice(vals), 1 if r.random() < 0.03 else 0)
                return r.choice([sspec("Z"), sspec(vals[0].lower()), ispec(0), ["bool", 1], ["list", [sspec(vals[0])]], sspec("")])
        for iname, oneof, fields in desc["inputs"]:
            if iname == name:
                if depth <= 0:
                    chosen = [f for f in fields if f[1][0] == "nn" and f[2] is None]
                    if oneof:
                        chosen = fields[:1]
                elif oneof:
                    chosen = [r.choice(fields)] if (valid or r.random() < 0.6) else r.sample(fields, r.randrange(0, len(fields) + 1))
                else:
                    chosen = [f for f in fields if (f[1][0] == "nn" and f[2] is None and (valid or r.random() < 0.8))
                              or r.random() < 0.5]
                out = []
                for fn, ft, _ in chosen:
                    sub = self.value(desc, ft, depth - 1, valid)
                    if oneof and valid and sub[0] in ("none", "undef"):
                        sub = self.value(desc, ["nn", ft], depth - 1, True)
                    out.append([cps(fn), sub])
                if r.random() < 0.1:
                    out.append([cps(r.choice([f[0] for f in fields] + ["zz"])), ["undef"]])
                if not valid and r.random() < 0.3:
                    out.append([cps("zz"), ispec(1)])
                # unique keys (a Python dict)
                seen, uq = set(), []
                for k, v in out:
                    if tuple(k) not in seen:
                        seen.add(tuple(k))
                        uq.append([k, v])
                r.shuffle(uq)
                if r.random() < 0.06:
                    return ["mapping", 5000 + r.randrange(100), uq]     # a Mapping that is not a dict
                return ["dict", uq]
        return ["none"]

    def scalar_value(self, name, valid):
        r = self.r
        if not valid or r.random() < 0.1:
            return c16.rand_value(r, 2)
        if name == "Int":
            return r.choice([ispec(r.randrange(-2 ** 31, 2 ** 31)), ispec(r.randrange(-5, 6)), fspec(float(r.randrange(-100, 100))),
                             ispec(2 ** 31 - 1), ispec(-2 ** 31), fspec(-0.0)])
        if name == "Float":
            return r.choice([fspec(r.random() * 100), fspec(float(r.randrange(-9, 9))), ispec(r.randrange(-1000, 1000)),
                             ispec(2 ** 53), fspec(1e308), fspec(5e-324), fspec(-0.0), fspec(1e22), fspec(0.1),
                             ispec(r.getrandbits(53) << r.randrange(0, 900))])
        if name == "String":
            return sspec(r.choice(["", "a", "abc", "1", "é", "x\ny", "12\n"]), 1 if r.random() < 0.03 else 0)
        if name == "Boolean":
            return ["bool", r.randrange(2)]
        return r.choice([sspec(r.choice(["", "a", "1", "-12", "12\n", "007", "0", "-0", "1.5"])), ispec(r.randrange(-10 ** 6, 10 ** 6)),
                         fspec(float(r.randrange(-100, 100))), ispec(10 ** 30), fspec(1e22)])


def has_mapping(spec):
    if spec[0] == "mapping":
        return True
    if spec[0] in ("list", "tuple"):
        return any(has_mapping(x) for x in spec[1])
    if spec[0] == "dict":
        return any(has_mapping(x) for _, x in spec[1])
    return False


def has_var(l):
    if l[0] == "var":
        return True
    if l[0] == "list":
        return any(has_var(x) for x in l[1])
    if l[0] == "object":
        return any(has_var(x) for _, x in l[1])
    return False


def has_dup_fields(l):
    if l[0] == "list":
        return any(has_dup_fields(x) for x in l[1])
    if l[0] == "object":
        names = [n for n, _ in l[1]]
        return len(set(names)) != len(names) or any(has_dup_fields(x) for _, x in l[1])
    return False


# --------------------------------------------------------------------------- conformance (property predicate)

def conforms(desc, t, v, depth=0):
    """the property's 'result conforms to the type' evaluated on a Python result."""
    if t[0] == "nn":
        return v is not None and conforms(desc, t[1], v, depth)
    if v is None:
        return True
    if t[0] == "l":
        return isinstance(v, list) and all(conforms(desc, t[1], x, depth + 1) for x in v)
    name = t[1]
    if name == "Int":
        return type(v) is int and -2 ** 31 <= v <= 2 ** 31 - 1
    if name == "Float":
        return type(v) is float and math.isfinite(v)
    if name in ("String", "ID"):
        return isinstance(v, str)
    if name == "Boolean":
        return type(v) is bool
    for en, vals in desc["enums"]:
        if en == name:
            return isinstance(v, str) and v in vals
    for iname, oneof, fields in desc["inputs"]:
        if iname == name:
            if not isinstance(v, dict):
                return False
            fmap = {f[0]: f for f in fields}
            if any(k not in fmap for k in v):
                return False
            for fn, ft, fd in fields:
                if fn in v:
                    if not conforms(desc, ft, v[fn], depth + 1):
                        return False
                elif fd is not None or ft[0] == "nn":
                    return False          # a default or a required field is missing from the result
            if oneof and not (len(v) == 1 and next(iter(v.values())) is not None):
                return False
            return True
    return False


# --------------------------------------------------------------------------- the check

class Runner:
    def __init__(self, ck, model):
        self.ck, self.m = ck, model
        self.reg = Registry()
        seen = set()
        orig = ck.violation

        def once(key, what, replay):
            if key in seen:
                return
            seen.add(key)
            orig(key, what, replay)
        ck.violation = once

    def header(self, desc, strings, fspecs):
        return [FUEL, maxd()] + parse_tbl(strings | schema_lit_strings(desc)) + str_tbl(fspecs) + schema_wire(desc)

    # ---- values
    def impl_value(self, schema, desc, t, spec):
        """(coerce, validate paths, literal) observed on the implementation."""
        from graphql.pyutils import Undefined
        from graphql.utilities import coerce_input_value, value_to_literal
        from graphql.utilities.validate_input_value import validate_input_value
        ty = impl_type(schema, t)
        v = to_py(spec, self.reg)
        try:
            c = coerce_input_value(v, ty)
            co = ("invalid",) if c is Undefined else ("good", unrename(c))
            c2 = coerce_input_value(to_py(spec, self.reg), ty)   # second run: memoised defaults
            s1, s2 = py_to_spec(c, self.reg), py_to_spec(c2, self.reg)
            if s1 is not None and s2 is not None and canon(s1) != canon(s2):
                co = ("raised", "second coercion differs (memoised default)")
        except TypeError:
            co = ("crash",)
        except RecursionError:
            co = ("fuel",)
        except Exception as e:  # noqa: BLE001
            co = ("raised", type(e).__name__)
        paths = []
        try:
            validate_input_value(to_py(spec, self.reg), ty, lambda e, p: paths.append(list(p)))
            va = ("ok", paths)
        except Exception as e:  # noqa: BLE001
            va = ("raised", type(e).__name__)
        try:
            ln = value_to_literal(to_py(spec, self.reg), ty)
            li = ("invalid",) if ln is None else ("good", ast_to_lit(ln))
        except Exception as e:  # noqa: BLE001
            li = ("raised", type(e).__name__)
        return co, va, li

    def value_cases(self, schema, desc, items):
        """items: [(type, value spec)]"""
        from graphql.pyutils import Undefined
        from graphql.utilities import coerce_input_literal
        ck = self.ck
        cases = []
        for t, spec in items:
            fl = []
            spec_floats(spec, fl)
            cases.append([10] + self.header(desc, set(), fl) + type_wire(t) + to_wire(spec))
        outs = self.m.run_batch(cases)
        second = []
        for (t, spec), out in zip(items, outs):
            r = Rd(out)
            try:
                m_co = rd_result(r.block(), lambda b: b.val())
                m_va = rd_paths(r.block())
                m_li = rd_result(r.block(), lambda b: b.lit())
            except Exception:  # noqa: BLE001
                ck.proof_breaks.append(f"model answer undecodable for {short([t, spec])}: {out[:20]}")
                continue
            co, va, li = self.impl_value(schema, desc, t, spec)
            key = json.dumps([desc["inputs"], desc["enums"], t, spec])
            rk = "val:" + key[:400]
            rep = {"schema": desc, "type": t, "value": spec}
            if m_co[0] == "fuel" or m_va is None or m_li[0] == "fuel":
                ck.count("model_out_of_fuel")
                continue
            if co[0] == "fuel":
                ck.count("implementation_recursion_limit")
                if getattr(self, "schema_valid", True):
                    ck.violation("val:" + json.dumps([t, spec])[:300], f"{type_sdl(t)} <- {short(spec)}: unbounded recursion on a "
                                 "schema that validate_schema accepts", {"schema": desc, "type": t, "value": spec,
                                                                         "relation": "coercion terminates on a valid schema"})
                continue
            nontrivial = spec[0] not in ("none", "undef")
            ck.note_case(("val", key), nontrivial=nontrivial,
                         sample={"type": type_sdl(t), "value": spec} if len(key) < 300 else None)
            ck.count("value:" + m_co[0])
            if co[0] == "raised" or va[0] == "raised":
                ck.violation(rk, f"coerce_input_value/validate_input_value raised {co if co[0] == 'raised' else va} for "
                                 f"{type_sdl(t)} <- {short(spec)}", dict(rep, relation="no exception other than TypeError of an invalid default"))
                continue
            # ---- property predicates on the implementation
            if co[0] in ("good", "invalid"):
                if (co[0] == "invalid") != bool(va[1]):
                    ck.violation(rk, f"{type_sdl(t)} <- {short(spec)}: coerce_input_value {'fails' if co[0] == 'invalid' else 'succeeds'} "
                                     f"but validate_input_value reports {len(va[1])} error(s)",
                                 dict(rep, relation="coercion fails iff validation reports", impl=[co[0], va[1]]))
                    continue
                if co[0] == "good" and not conforms(desc, t, co[1]):
                    ck.violation(rk, f"{type_sdl(t)} <- {short(spec)}: coerced result {rp(co[1], 100)} does not conform to the type",
                                 dict(rep, relation="result conforms to the type", impl=rp(co[1], 300)))
                    continue
                if co[0] == "good":
                    if li[0] != "good":
                        ck.violation(rk, f"{type_sdl(t)} <- {short(spec)}: accepted by coercion but value_to_literal gives {li}",
                                     dict(rep, relation="accepted value has a literal", impl=list(li)))
                        continue
                    try:
                        back = unrename(coerce_input_literal(lit_to_ast(li[1]), impl_type(schema, t)))
                    except Exception as e:  # noqa: BLE001
                        back = e
                    sb = None if back is Undefined or isinstance(back, Exception) else py_to_spec(back)
                    if sb is None or canon(sb) != canon(py_to_spec(co[1])):
                        ck.violation(rk, f"{type_sdl(t)} <- {short(spec)}: coerced {rp(co[1], 80)}, but its literal {short(li[1])} "
                                         f"coerces to {rp(back, 80)}",
                                     dict(rep, relation="value -> literal -> coerce round trip", impl=rp(back, 300)))
                        continue
                    second.append((t, li[1], co[1], rk, rep))
            # ---- correspondence
            i_co = (co[0], canon(py_to_spec(co[1]) or ["undef"])) if co[0] == "good" else co
            w_co = (m_co[0], canon(m_co[1])) if m_co[0] == "good" else m_co
            if i_co != w_co:
                ck.violation(rk, f"{type_sdl(t)} <- {short(spec)}: coerce_input_value gives {rp(co, 120)}, model {rp(m_co, 120)}",
                             dict(rep, relation="coerce_input_value impl = model", impl=rp(co, 300), model=rp(m_co, 300)))
                continue
            if pathset(va[1]) != pathset(m_va):
                ck.violation(rk, f"{type_sdl(t)} <- {short(spec)}: validate_input_value error paths {rp(sorted(pathset(va[1])), 120)}, "
                                 f"model {rp(sorted(pathset(m_va)), 120)}",
                             dict(rep, relation="validation error paths impl = model", impl=va[1], model=m_va))
                continue
            if has_mapping(spec):
                # value_to_literal reads any Mapping as an object; the model keeps non-dict mappings opaque
                ck.count("value_to_literal_not_compared_non_dict_mapping")
                continue
            i_li = (li[0], canon_lit(li[1])) if li[0] == "good" else (("invalid",) if li[0] == "raised" else li)
            w_li = (m_li[0], canon_lit(m_li[1])) if m_li[0] == "good" else (("invalid",) if m_li[0] == "crash" else m_li)
            if i_li != w_li:
                ck.violation(rk, f"{type_sdl(t)} <- {short(spec)}: value_to_literal gives {rp(li, 120)}, model {rp(m_li, 120)}",
                             dict(rep, relation="value_to_literal impl = model", impl=rp(li, 300), model=rp(m_li, 300)))
        # round trip through the model: the literal coerces (in the model) to the same value
        cases = []
        for t, l, _, _, _ in second:
            st = set()
            lit_strings(l, st)
            cases.append([11] + self.header(desc, st, []) + [0] + type_wire(t) + lit_wire(l))
        outs = self.m.run_batch(cases)
        for (t, l, coerced, rk, rep), out in zip(second, outs):
            if overflowing(l):
                rk = "float-literal-overflow"
            r = Rd(out)
            m_co = rd_result(r.block(), lambda b: b.val())
            want = ("good", canon(py_to_spec(coerced)))
            got = (m_co[0], canon(m_co[1])) if m_co[0] == "good" else m_co
            if got != want:
                ck.violation("rt:" + rk, f"round trip in the model: literal {short(l)} of type {type_sdl(t)} coerces to {rp(m_co, 100)}, "
                                         f"implementation value {rp(coerced, 100)}",
                             dict(rep, relation="round trip (model of coerce_input_literal on the emitted literal)", lit=l))
        ck.count("round_trips", len(second))

    # ---- literals
    def variables_for(self, schema, desc, gen):
        """random operation variables; returns (defs, inputs, VariableValues|None, env specs)."""
        from graphql import parse
        from graphql.execution.values import VariableValues, get_variable_values
        r = gen.r
        defs, inputs = [], []
        for name in r.sample(["a", "b", "c"], r.randrange(0, 4)):
            t = r.choice(desc["args"])
            dflt = None
            if r.random() < 0.3:
                dflt = gen.lit(desc, t, 2, [], valid=True)
                if dflt is not None and (has_var(dflt) or overflowing(dflt)):
                    dflt = None
            defs.append([name, t, dflt])
            if r.random() < 0.7:
                inputs.append([cps(name), gen.value(desc, t, 2, valid=r.random() < 0.9)])
        return self.variables_fixed(schema, defs, inputs)

    def variables_fixed(self, schema, defs, inputs):
        """(defs, inputs, VariableValues | errors | exception, operation text) for given definitions and inputs."""
        from graphql import parse
        from graphql.execution.values import get_variable_values
        src = "query (" + " ".join(f"${n}: {type_sdl(t)}" + (f" = {lit_text(d)}" if d is not None else "") for n, t, d in defs) + ") { __typename }" \
            if defs else "{ __typename }"
        op = parse(src).definitions[0]
        try:
            vv = get_variable_values(schema, op.variable_definitions or (), {"".join(map(chr, k)): to_py(v, self.reg) for k, v in inputs})
        except Exception as e:  # noqa: BLE001
            vv = e
        return defs, inputs, vv, src

    def fragment_values(self, schema, src, inputs):
        """(VariableValues, FragmentVariableValues) as the executor builds them for the document
        `query (..) { ...F(args) }  fragment F(..) on Query { __typename }` (experimental fragment arguments)."""
        from graphql import parse
        from graphql.execution.get_variable_signature import get_variable_signature
        from graphql.execution.values import VariableValues, get_fragment_variable_values, get_variable_values
        doc = parse(src, experimental_fragment_arguments=True)
        op, fr = doc.definitions[0], doc.definitions[1]
        vv = get_variable_values(schema, op.variable_definitions or (),
                                 {"".join(map(chr, k)): to_py(v, self.reg) for k, v in inputs})
        if not isinstance(vv, VariableValues):
            return None
        sigs = {}
        for vd in fr.variable_definitions or ():
            sig = get_variable_signature(schema, vd)
            if not hasattr(sig, "type"):
                return None
            sigs[vd.variable.name.value] = sig
        spread = op.selection_set.selections[0]
        return vv, get_fragment_variable_values(spread, sigs, vv)

    def literal_cases(self, schema, desc, items):
        """items: [(arg index, lit, defs, inputs, vv)]"""
        from graphql import GraphQLError, parse, validate
        from graphql.execution.values import VariableValues
        from graphql.pyutils import Undefined
        from graphql.utilities import coerce_input_literal
        from graphql.utilities.validate_input_value import validate_input_literal
        from graphql.validation import ValuesOfCorrectTypeRule
        ck = self.ck
        cases, metas = [], []
        for ai, l, defs, inputs, vv, *more in items:
            frag = more[0] if more else None      # {"fvv": FragmentVariableValues, "src": document text}
            t = desc["args"][ai]
            st = set()
            lit_strings(l, st)
            env = []
            if isinstance(vv, VariableValues):
                # the environment a variable is looked up in: a variable DECLARED by the fragment (a key of .sources)
                # shadows the operation variable of that name, with or without a value
                scoped = dict(vv.coerced)
                if frag is not None:
                    for k in frag["fvv"].sources:
                        scoped.pop(k, None)
                    scoped.update(frag["fvv"].coerced)
                for k, x in scoped.items():
                    sx = py_to_spec(unrename(x))
                    if sx is None:
                        env = None
                        break
                    env.append((k, sx))
            if env is None or not isinstance(vv, VariableValues):
                env, vvu = [], None
            else:
                vvu = vv
            cases.append([11] + self.header(desc, st, []) + env_wire(env) + type_wire(t) + lit_wire(l))
            metas.append((ai, t, l, vvu, env, defs, inputs, frag))
        outs = self.m.run_batch(cases)
        for (ai, t, l, vv, env, defs, inputs, frag), out in zip(metas, outs):
            fvv = frag["fvv"] if frag is not None and vv is not None else None
            r = Rd(out)
            try:
                m_co = rd_result(r.block(), lambda b: b.val())
                m_rt = rd_paths(r.block())
                m_st = rd_paths(r.block())
                m_c0 = rd_result(r.block(), lambda b: b.val())
            except Exception:  # noqa: BLE001
                ck.proof_breaks.append(f"model answer undecodable for literal {short(l)}")
                continue
            key = json.dumps([desc["inputs"], desc["enums"], t, l, env])
            rk = "lit:" + key[:400]
            if overflowing(l):
                rk = "float-literal-overflow"
                ck.count("literal_with_overflowing_float")
            rep = {"schema": desc, "type": t, "lit": l, "env": env}
            if fvv is not None:
                rep.update(fragment_document=frag["src"], inputs=inputs)
                ck.count("literal_with_fragment_variables")
            if m_co[0] == "fuel" or m_rt is None or m_st is None:
                ck.count("model_out_of_fuel")
                continue
            ty = impl_type(schema, t)
            node = lit_to_ast(l)

            def coerce(vvx, fx=None):
                try:
                    c = coerce_input_literal(node, ty, vvx, fx)
                    return ("invalid",) if c is Undefined else ("good", unrename(c))
                except TypeError:
                    return ("crash",)
                except RecursionError:
                    return ("fuel",)
                except Exception as e:  # noqa: BLE001
                    return ("raised", type(e).__name__)

            def validate_l(vvx, fx=None):
                ps = []
                try:
                    validate_input_literal(node, ty, lambda e, p: ps.append(list(p)), vvx, fx)
                    return ("ok", ps)
                except RecursionError:
                    return ("fuel",)
                except Exception as e:  # noqa: BLE001
                    return ("raised", type(e).__name__)

            co, rt, stv, c0 = coerce(vv, fvv), validate_l(vv, fvv), validate_l(None), coerce(None)
            if "fuel" in (co[0], rt[0], stv[0], c0[0], m_c0[0]):
                # unbounded recursion through a circular default value: an invalid schema (validate_schema reports it)
                ck.count("model_out_of_fuel" if m_c0[0] == "fuel" else "implementation_recursion_limit")
                if getattr(self, "schema_valid", True):
                    ck.violation(rk, f"{type_sdl(t)} <- {lit_text(l)}: unbounded recursion on a schema that validate_schema accepts",
                                 dict(rep, relation="coercion terminates on a valid schema"))
                continue
            const = not has_var(l)
            ck.note_case(("lit", key), nontrivial=l[0] != "null",
                         sample={"type": type_sdl(t), "literal": lit_text(l), "variables": env} if len(key) < 300 else None)
            ck.count("literal:" + m_co[0])
            if "raised" in (co[0], rt[0], stv[0], c0[0]):
                ck.violation(rk, f"{type_sdl(t)} <- {lit_text(l)}: coerce_input_literal/validate_input_literal raised "
                                 f"{[x for x in (co, rt, stv, c0) if x[0] == 'raised'][0][1]}",
                             dict(rep, relation="no exception other than TypeError of an invalid default"))
                continue
            # ---- property predicates on the implementation
            dup = has_dup_fields(l)
            top_missing = l[0] == "var" and t[0] != "nn" and l[1] not in dict(env)
            if dup:
                ck.count("literal_with_duplicate_fields")
            if vv is not None and co[0] != "crash" and not dup and not top_missing:
                if (co[0] == "invalid") != bool(rt[1]):
                    ck.violation(rk, f"{type_sdl(t)} <- {lit_text(l)} with variables {short(env)}: coerce_input_literal "
                                     f"{'fails' if co[0] == 'invalid' else 'succeeds'} but validate_input_literal reports {len(rt[1])} error(s)",
                                 dict(rep, relation="literal coercion fails iff runtime validation reports", impl=[co[0], rt[1]]))
                    continue
            if const and c0[0] != "crash" and not dup:
                if (c0[0] == "invalid") != bool(stv[1]):
                    ck.violation(rk, f"{type_sdl(t)} <- {lit_text(l)}: constant literal coercion "
                                     f"{'fails' if c0[0] == 'invalid' else 'succeeds'} but static validation reports {len(stv[1])} error(s)",
                                 dict(rep, relation="constant literal: coercion fails iff static validation reports", impl=[c0[0], stv[1]]))
                    continue
                if c0[0] == "good" and not conforms(desc, t, c0[1]):
                    ck.violation(rk, f"{type_sdl(t)} <- {lit_text(l)}: coerced result {rp(c0[1], 100)} does not conform to the type",
                                 dict(rep, relation="result conforms to the type", impl=rp(c0[1], 300)))
                    continue
                # the validation rule on a document with this constant argument
                if not getattr(self, "schema_valid", True):
                    rule = ("skipped",)
                else:
                  try:
                    doc = parse("{ f%d(x: %s) }" % (ai, lit_text(l)))
                    errs = validate(schema, doc, [ValuesOfCorrectTypeRule])
                    rule = ("ok", len(errs))
                  except GraphQLError:
                    rule = ("unparsable",)
                  except Exception as e:  # noqa: BLE001
                    rule = ("raised", type(e).__name__)
                if rule[0] == "raised":
                    ck.violation(rk, f"ValuesOfCorrectTypeRule raised {rule[1]} on f{ai}(x: {lit_text(l)})",
                                 dict(rep, relation="validation rule never raises"))
                    continue
                if rule[0] == "ok" and (rule[1] > 0) != (c0[0] == "invalid"):
                    ck.violation(rk, f"{type_sdl(t)} <- {lit_text(l)}: ValuesOfCorrectTypeRule reports {rule[1]} error(s) but "
                                     f"coercion {'fails' if c0[0] == 'invalid' else 'succeeds'}",
                                 dict(rep, relation="rule accepts a constant argument iff its coercion succeeds", impl=[rule[1], c0[0]]))
                    continue
                if rule[0] == "ok":
                    ck.count("rule_checked")
            # ---- correspondence
            def cmp_co(name, got, want):
                g = (got[0], canon(py_to_spec(got[1]) or ["undef"])) if got[0] == "good" else got
                w = (want[0], canon(want[1])) if want[0] == "good" else want
                if g != w:
                    ck.violation(rk, f"{type_sdl(t)} <- {lit_text(l)} [{name}, variables {short(env)}]: implementation {rp(got, 100)}, "
                                     f"model {rp(want, 100)}",
                                 dict(rep, relation=f"{name} impl = model", impl=rp(got, 300), model=rp(want, 300)))
                    return False
                return True

            def cmp_paths(name, got, want):
                if pathset(got[1]) != pathset(want):
                    ck.violation(rk, f"{type_sdl(t)} <- {lit_text(l)} [{name}, variables {short(env)}]: error paths "
                                     f"{rp(sorted(pathset(got[1])), 100)}, model {rp(sorted(pathset(want)), 100)}",
                                 dict(rep, relation=f"{name} error paths impl = model", impl=got[1], model=want))
                    return False
                return True

            if vv is not None:
                if not (cmp_co("coerce_input_literal", co, m_co) and cmp_paths("validate_input_literal(runtime)", rt, m_rt)):
                    continue
            if not (cmp_co("coerce_input_literal(no variables)", c0, m_c0) and cmp_paths("validate_input_literal(static)", stv, m_st)):
                continue
            # ---- the argument as the resolver receives it (get_argument_values / coerce_argument)
            if vv is not None and fvv is None and getattr(self, "schema_valid", True):
                from graphql import execute_sync
                src = ("query (" + " ".join(f"${n}: {type_sdl(vt)}" + (f" = {lit_text(d)}" if d is not None else "")
                                            for n, vt, d in defs) + ") " if defs else "") + "{ f%d(x: %s) }" % (ai, lit_text(l))
                got_args = []
                try:
                    res = execute_sync(schema, parse(src), variable_values={"".join(map(chr, k)): to_py(v, self.reg) for k, v in inputs},
                                       field_resolver=lambda _s, _i, **kw: (got_args.append(kw), 1)[1])
                    if res.errors:
                        got = ("error",)
                    elif len(got_args) == 1:
                        a = unrename(got_args[0])
                        got = ("args", tuple(sorted((k, canon(py_to_spec(x) or ["undef"])) for k, x in a.items())))
                    else:
                        got = ("no-call",)
                except GraphQLError:
                    got = ("unparsable",)
                except Exception as e:  # noqa: BLE001
                    got = ("raised", type(e).__name__)
                top_missing_var = l[0] == "var" and l[1] not in dict(env)
                if top_missing_var and t[0] != "nn":
                    want = ("args", ())
                elif m_co[0] == "good":
                    want = ("args", (("x", canon(m_co[1])),))
                else:
                    want = ("error",)
                if got[0] != "unparsable":
                    ck.count("argument_via_execute")
                    if got != want:
                        ck.violation(rk, f"execute {src} with {short(inputs)}: resolver arguments {rp(got, 120)}, model {rp(want, 120)}",
                                     dict(rep, relation="argument handed to the resolver = coerced literal (impl = model)",
                                          operation=src, inputs=inputs, impl=rp(got, 300), model=rp(want, 300)))

    # ---- variables
    def variable_cases(self, schema, desc, items):
        """items: [(defs, inputs, vv, src)]"""
        from graphql.execution.values import VariableValues
        ck = self.ck
        cases = []
        for defs, inputs, vv, src in items:
            st, fl = set(), []
            for _, _, d in defs:
                lit_strings(d, st)
            for _, v in inputs:
                spec_floats(v, fl)
            w = [len(defs)]
            for n, t, d in defs:
                w += enc_text(cps(n)) + type_wire(t) + opt(d, lit_wire)
            cases.append([12] + self.header(desc, st, fl) + w + env_wire([("".join(map(chr, k)), v) for k, v in inputs]))
        outs = self.m.run_batch(cases)
        for (defs, inputs, vv, src), out in zip(items, outs):
            key = json.dumps([desc["inputs"], desc["enums"], defs, inputs])
            rk = "vars:" + key[:400]
            rep = {"schema": desc, "vardefs": defs, "inputs": inputs, "operation": src}
            r = Rd(out)
            k = r.n()
            if k == 3:
                ck.count("model_out_of_fuel")
                continue
            ck.note_case(("vars", key), nontrivial=bool(defs), sample={"operation": src} if len(key) < 300 else None)
            provided = {"".join(map(chr, kk)) for kk, v in inputs if v[0] != "undef"}
            if isinstance(vv, RecursionError):
                ck.count("implementation_recursion_limit")
                if getattr(self, "schema_valid", True):
                    ck.violation(rk, f"get_variable_values({src}): unbounded recursion on a schema that validate_schema accepts",
                                 dict(rep, relation="coercion terminates on a valid schema"))
                continue
            if isinstance(vv, TypeError):
                got = ("crash",)          # TypeError of an invalid (nested) default value: schema validation's business
            elif isinstance(vv, Exception):
                ck.violation(rk, f"get_variable_values raised {type(vv).__name__} for {src}",
                             dict(rep, relation="get_variable_values returns errors or values"))
                continue
            elif isinstance(vv, VariableValues):
                missing = [n for n, t, d in defs if (n in provided or d is not None) and n not in vv.coerced]
                if missing:
                    ck.violation(rk, f"get_variable_values({src}) returns values without errors but drops ${missing[0]}",
                                 dict(rep, relation="no errors -> every provided or defaulted variable has a value"))
                    continue
                bad = [n for n, t, d in defs if n in vv.coerced and not conforms(desc, t, unrename(vv.coerced[n]))]
                if bad:
                    ck.violation(rk, f"get_variable_values({src}): ${bad[0]} = {rp(vv.coerced[bad[0]], 80)} does not conform to its type",
                                 dict(rep, relation="variable values conform to their types"))
                    continue
                got = ("values", tuple(sorted((n, canon(py_to_spec(unrename(x)) or ["undef"])) for n, x in vv.coerced.items())))
            else:
                if not vv:
                    ck.violation(rk, f"get_variable_values({src}) returns an empty error list", dict(rep, relation="errors or values"))
                    continue
                names = []
                for e in vv:
                    try:
                        names.append(e.nodes[0].variable.name.value)
                    except Exception:  # noqa: BLE001
                        names.append("?")
                got = ("errors", tuple(sorted(set(names))))
            if k == 0:
                want = ("values", tuple(sorted((r.text(), canon(r.val())) for _ in range(r.n()))))
            elif k == 1:
                want = ("errors", tuple(sorted({(r.text(), tuple(r.path()))[0] for _ in range(r.n())})))
            else:
                want = ("crash",)
            ck.count("variables:" + want[0])
            if got != want:
                ck.violation(rk, f"get_variable_values({src}) with {short(inputs)}: implementation {rp(got, 140)}, model {rp(want, 140)}",
                             dict(rep, relation="coerce_variable_values impl = model", impl=rp(got, 400), model=rp(want, 400)))


def overflowing(l):
    """the literal holds an Int/Float token whose float() is not finite (the repaired behaviour)."""
    st = set()
    lit_strings(l, st)
    for x in st:
        try:
            if not math.isfinite(float(x)):
                return True
        except ValueError:
            pass
    return False


def pathset(ps):
    return {tuple(p) for p in ps}


def short(x):
    s = json.dumps(x)
    return s if len(s) <= 140 else s[:137] + "..."


def run_schema(R, gen, desc, n_val, n_lit, n_var):
    from graphql import build_schema
    ck = R.ck
    try:
        schema = build_impl_schema(desc)
    except Exception as e:  # noqa: BLE001
        ck.count("skipped_out_of_fragment")
        ck.count("schema_build_failed:" + type(e).__name__)
        return
    from graphql import validate_schema
    try:
        R.schema_valid = not validate_schema(schema)
    except Exception:  # noqa: BLE001
        R.schema_valid = False
    ck.count("schemas_valid" if R.schema_valid else "schemas_invalid_by_validate_schema")
    r = gen.r
    items = []
    for _ in range(n_val):
        t = r.choice(desc["args"])
        items.append((t, gen.value(desc, t, 3, valid=r.random() < 0.7)))
    if not getattr(R, "_scalar_sweep_done", False):
        # deterministic sweep (once per run): every built-in scalar, bare and in a list, x a universe of edge values
        R._scalar_sweep_done = True
        uni = [sspec(x) for x in ["", "a", "1", "-12", "12\n", "-5\n", "0\n", "\n", "007", "0", "-0", "1.5", "1e3", "+1", " 1",
                                  "1 ", "\u0661\u0662", "true", "1_0", "0x10", "9" * 25]]
        uni += [ispec(x) for x in [0, -1, 7, 2 ** 31 - 1, 2 ** 31, -2 ** 31, -2 ** 31 - 1, 2 ** 53 + 1, 10 ** 30, -10 ** 30]]
        uni += [fspec(x) for x in [0.0, -0.0, 1.5, 123.0, 1e22, 1e308, 5e-324, -2147483648.0, 2147483648.0]]
        uni += [["bool", 0], ["bool", 1], ["none"]]
        for nm in SCALARS:
            for v in uni:
                items.append((["n", nm], v))
                items.append((["l", ["nn", ["n", nm]]], ["list", [v, v]]))
        ck.count("scalar_sweep_cases", 2 * len(uni) * len(SCALARS))
    R.value_cases(schema, desc, items)
    lits, vars_items = [], []
    vsets = [R.variables_for(schema, desc, gen) for _ in range(max(1, n_var))]
    vars_items = vsets[:n_var]
    for _ in range(n_lit):
        ai = r.randrange(len(desc["args"]))
        defs, inputs, vv, src = r.choice(vsets)
        names = [d[0] for d in defs] + (["zz"] if r.random() < 0.2 else [])
        l = gen.lit(desc, desc["args"][ai], 3, names if r.random() < 0.5 else [], valid=r.random() < 0.7)
        if l is None:
            continue
        lits.append((ai, l, defs, inputs, vv))
    # every field of every OneOf type fed by a variable that is null / absent / defaulted to null / a valid value
    for ai, t in enumerate(desc["args"]):
        if t[0] != "n":
            continue
        for iname, oneof, fields in desc["inputs"]:
            if iname != t[1] or not oneof:
                continue
            for fn, ft, _ in fields:
                base = ft[1] if ft[0] == "nn" else ft
                good = gen.value(desc, ["nn", base], 2, valid=True)
                for defs, inputs in (([["a", base, None]], [[cps("a"), ["none"]]]),
                                     ([["a", base, None]], []),
                                     ([["a", base, ["null"]]], []),
                                     ([["a", base, None]], [[cps("a"), good]])):
                    _, _, vv, _ = R.variables_fixed(schema, defs, inputs)
                    lits.append((ai, ["object", [[fn, ["var", "a"]]]], defs, inputs, vv))
                    ck.count("oneof_member_from_variable")
    lits += fragment_scenarios(R, gen, schema, desc, 6 if n_lit <= 60 else 12)
    R.literal_cases(schema, desc, lits)
    R.variable_cases(schema, desc, vars_items)


def strip_nn(t):
    return t[1] if t[0] == "nn" else t


def fragment_scenarios(R, gen, schema, desc, n):
    """literal cases under fragment variables (experimental fragment arguments) that shadow operation variables:
    each fragment variable is absent (declared, no argument, no default), null, a value, defaulted, or fed by an
    operation variable; literals use the variables at the top, in lists and in object fields."""
    from graphql import GraphQLError
    r, ck = gen.r, R.ck
    out = []
    for _ in range(n):
        opdefs, inputs = [], []
        for name in r.sample(["a", "b", "c"], r.randrange(1, 4)):
            t = strip_nn(r.choice(desc["args"]))
            opdefs.append([name, t, None])
            if r.random() < 0.85:
                inputs.append([cps(name), gen.value(desc, ["nn", t], 2, valid=True) if r.random() < 0.8 else ["none"]])
        fdefs, fargs = [], []
        for name, t, _ in opdefs + ([["f", strip_nn(r.choice(desc["args"])), None]] if r.random() < 0.4 else []):
            if r.random() < 0.2:
                continue                      # not shadowed
            ft = t if r.random() < 0.8 else strip_nn(r.choice(desc["args"]))
            state = r.choice(["absent", "absent", "null", "value", "default", "opvar"])
            dflt = None
            if state == "default":
                dflt = gen.lit(desc, ft, 2, [], valid=True)
                if dflt is None or has_var(dflt) or overflowing(dflt):
                    dflt, state = None, "absent"
            if state == "null":
                fargs.append(f"{name}: null")
            elif state == "value":
                lv = gen.lit(desc, ["nn", ft], 2, [], valid=True)
                if lv is not None and not has_var(lv) and not overflowing(lv):
                    fargs.append(f"{name}: {lit_text(lv)}")
            elif state == "opvar":
                fargs.append(f"{name}: ${r.choice(opdefs)[0]}")
            fdefs.append([name, ft, dflt])
        if not fdefs:
            continue
        src = ("query (" + " ".join(f"${n_}: {type_sdl(t)}" for n_, t, _ in opdefs) + ") { ...F"
               + ("(" + ", ".join(fargs) + ")" if fargs else "") + " } fragment F("
               + " ".join(f"${n_}: {type_sdl(t)}" + (f" = {lit_text(d)}" if d is not None else "") for n_, t, d in fdefs)
               + ") on Query { __typename }")
        try:
            got = R.fragment_values(schema, src, inputs)
        except (GraphQLError, TypeError):
            got = None
        except RecursionError:
            got = None
            if getattr(R, "schema_valid", True):
                ck.violation("fragvars:" + src[:300], f"unbounded recursion building fragment variable values for {src} "
                             "on a schema that validate_schema accepts",
                             {"relation": "coercion terminates on a valid schema", "schema": desc,
                              "fragment_document": src, "inputs": inputs})
        except Exception as e:  # noqa: BLE001
            ck.violation("fragvars:" + src[:300], f"building fragment variable values raised {type(e).__name__} for {src}",
                         {"relation": "fragment variable values", "schema": desc, "fragment_document": src, "inputs": inputs})
            got = None
        if got is None:
            ck.count("fragment_scenarios_skipped")
            continue
        vv, fvv = got
        frag = {"fvv": fvv, "src": src}
        names = [d[0] for d in opdefs] + [d[0] for d in fdefs]
        for ai, t in enumerate(desc["args"]):
            base = strip_nn(t)
            x = r.choice(fdefs)[0]
            cand = [gen.lit(desc, t, 3, names, valid=True), ["var", x]]
            if base[0] == "l":
                cand += [["list", [["var", x]]], ["list", [["var", x], ["var", r.choice(names)]]]]
            else:
                for iname, _oneof, fields in desc["inputs"]:
                    if base == ["n", iname]:
                        fn = r.choice(fields)[0]
                        cand.append(["object", [[fn, ["var", x]]]])
            for l in cand:
                if l is not None:
                    out.append((ai, l, opdefs, inputs, vv, frag))
    return out


def echo(ck, m, gen, desc):
    cases, want = [], []
    for _ in range(40):
        t = gen.r.choice(desc["args"])
        l = gen.lit(desc, t, 3, ["a"], valid=gen.r.random() < 0.5) or ["null"]
        cases.append([0] + type_wire(t) + lit_wire(l))
        want.append(type_wire(t) + lit_wire(l))
    outs = m.run_batch(cases)
    if outs != want:
        ck.proof_breaks.append("wire echo of (type, literal) failed")
        return False
    return True


FIXED_SCHEMAS = [
    {"enums": [["E0", ["A", "B"]]],
     "inputs": [["I0", False, [["a", ["n", "Int"], ["int", "3"]], ["b", ["l", ["nn", ["n", "E0"]]], ["list", [["enum", "A"]]]],
                               ["c", ["n", "I0"], None], ["d", ["nn", ["n", "String"]], None]]],
                ["I1", True, [["x", ["n", "Int"], None], ["y", ["n", "I0"], None], ["z", ["l", ["n", "Float"]], None]]]],
     "args": [["n", "I0"], ["n", "I1"], ["nn", ["l", ["nn", ["n", "I1"]]]], ["n", "Float"], ["l", ["l", ["n", "Int"]]],
              ["nn", ["n", "E0"]], ["n", "ID"], ["l", ["n", "I0"]]],
     "out": [["I0", "a"], ["I0", "c"], ["I1", "x"], ["I1", "y"]]},
]


def run(tier):
    ck = Check("C15", tier)
    ck.assumptions += ASSUMPTIONS
    br = common.build("C15", models=("coerce",))
    ck.proofs(br)
    if not br.ok:
        return ck.finish()
    m = Model("coerce")
    R = Runner(ck, m)
    quick = tier == "quick"
    gen = Gen(ck.rng, thorough=not quick)
    n_schemas = 100 if quick else 2000
    n_val, n_lit, n_var = (60, 60, 12) if quick else (120, 120, 25)
    ck.rule = (f"{n_schemas} generated schemas (1-2 enums, 2-4 input objects incl. recursive and OneOf ones, literal defaults, "
               f"mostly valid, ~4% invalid) + fixed ones; per schema {n_val} (type, value) pairs, {n_lit} (type, literal, variables) "
               f"triples and {n_var} variable sets; types = list/non-null nestings over scalars, enums, input objects; values and "
               "literals type-directed (70% valid) with junk mutations (edge numbers, wrong containers, unknown/duplicate "
               "fields, Undefined entries, null under non-null, missing variables). Each pair through coerce_input_value, "
               "validate_input_value, value_to_literal (+ coerce_input_literal of the literal), coerce_input_literal / "
               "validate_input_literal with and without variable values, validate(.., [ValuesOfCorrectTypeRule]) on "
               "f(x: <const>), get_variable_values, and execute_sync of f(x: <literal>) with the variables (the argument the resolver "
               "receives); compared with the extracted model and against the property predicates. "
               "non-trivial = value/literal is not null/Undefined (variables: at least one definition)")
    if not echo(ck, m, gen, FIXED_SCHEMAS[0]):
        return ck.finish()
    for c in common.load_corpus("C15"):
        replay_dict(R, c)
    for desc in FIXED_SCHEMAS:
        run_schema(R, gen, desc, n_val * 3, n_lit * 3, n_var * 2)
    for _ in range(n_schemas):
        run_schema(R, gen, gen.schema(), n_val, n_lit, n_var)
    return ck.finish()


def replay_dict(R, d):
    from graphql import build_schema, parse
    from graphql.execution.values import get_variable_values
    desc = d["schema"]
    schema = build_impl_schema(desc)
    from graphql import validate_schema
    try:
        R.schema_valid = not validate_schema(schema)
    except Exception:  # noqa: BLE001
        R.schema_valid = False
    if "value" in d:
        R.value_cases(schema, desc, [(d["type"], d["value"])])
    elif "lit" in d:
        t = d["type"]
        if t not in desc["args"]:
            desc["args"].append(t)
            schema = build_impl_schema(desc)
        if d.get("fragment_document"):
            try:
                got = R.fragment_values(schema, d["fragment_document"], d.get("inputs") or [])
            except RecursionError:
                got = None
                R.ck.count("implementation_recursion_limit")
                if R.schema_valid:
                    R.ck.violation("fragvars:" + d["fragment_document"][:300], "unbounded recursion building fragment variable "
                                   "values on a schema that validate_schema accepts", dict(d, relation="coercion terminates on a valid schema"))
            except Exception:  # noqa: BLE001
                got = None
            if got is not None:
                R.literal_cases(schema, desc, [(desc["args"].index(t), d["lit"], [], d.get("inputs") or [], got[0],
                                                {"fvv": got[1], "src": d["fragment_document"]})])
            return
        env = d.get("env") or []
        vv = None
        if env is not None:
            from graphql.execution.values import VariableValues
            vv = VariableValues({}, {k: to_py(v, R.reg) for k, v in env})
        R.literal_cases(schema, desc, [(desc["args"].index(t), d["lit"], [], [], vv)])
    elif "fragment_document" in d:
        try:
            R.fragment_values(schema, d["fragment_document"], d.get("inputs") or [])
        except RecursionError:
            R.ck.count("implementation_recursion_limit")
            if R.schema_valid:
                R.ck.violation("fragvars:" + d["fragment_document"][:300], "unbounded recursion building fragment variable "
                               "values on a schema that validate_schema accepts", dict(d, relation="coercion terminates on a valid schema"))
        except Exception:  # noqa: BLE001
            pass
    elif "vardefs" in d:
        op = parse(d["operation"]).definitions[0]
        try:
            vv = get_variable_values(schema, op.variable_definitions or (),
                                     {"".join(map(chr, k)): to_py(v, R.reg) for k, v in d["inputs"]})
        except Exception as e:  # noqa: BLE001
            vv = e
        R.variable_cases(schema, desc, [(d["vardefs"], d["inputs"], vv, d["operation"])])


def replay(path):
    d = json.loads(open(path).read())
    common.build("C15", models=("coerce",))
    ck = Check("C15", "replay")
    R = Runner(ck, Model("coerce"))
    replay_dict(R, d)
    for key, what, _ in ck.violations:
        print("VIOLATION (replayed):", what)
    if not ck.violations:
        print("replay: no disagreement / property predicate failure on this input")
    return 1 if ck.violations else 0
