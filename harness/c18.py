"""C18 - introspection describes the schema truthfully and can rebuild it."""
from __future__ import annotations

import itertools
import json

from . import common
from . import gen_schema as G
from .common import Check, Model

OPTS = ["descriptions", "specified_by_url", "directive_is_repeatable", "schema_description",
        "input_value_deprecation", "experimental_directive_deprecation", "one_of"]

ASSUMPTIONS = [
    "C18 model: SchemaOps/Introspect.v - the result of the standard introspection query as JSON under the 7 boolean "
    "options of get_introspection_query, prune, type_lookup; default values appear as printed literals: the value "
    "printer is a parameter of the model and theorems (the harness passes print_ast's text on the wire)",
    "C18_client_roundtrip_literals instantiates the literal printer/parser with Lang/Printer.pp and "
    "Lang/Parser.parse_text EConstValue (round trip = C08_print_parse_roundtrip); both are run here against print_ast / "
    "parse_const_value on every default value of every generated schema (block-string literals are outside the value "
    "trees of the model and skipped); how a Python default value becomes a literal (value_to_literal) is C15/C17",
    "type references are at most 9 wrappers deep (type_depth=9 of the standard query)",
    "what introspection cannot carry is not compared after build_client_schema: resolvers, custom scalar functions, "
    "enum internal values, extensions, AST nodes",
    "programmatic schemas list the specified directives; a third of the schemas define some of them themselves "
    "(own @skip/@include/@deprecated/@specifiedBy/@oneOf with other descriptions, locations, repeatability) - in the "
    "model directives are plain data looked up by name with their full definitions, nothing about specified "
    "directives is implicit",
]


def py_prune(full, o):
    """Independent Python statement of 'the full result minus exactly what the switched-off options omit'."""
    desc, sbu, rep = o["descriptions"], o["specified_by_url"], o["directive_is_repeatable"]
    sdesc, ivd, ddep, oneof = (o["schema_description"], o["input_value_deprecation"],
                               o["experimental_directive_deprecation"], o["one_of"])

    def drop(d, *keys):
        return {k: v for k, v in d.items() if k not in keys}

    def input_values(l):
        out = []
        for a in l:
            if not ivd and a["isDeprecated"]:
                continue
            a = dict(a)
            if not desc:
                a = drop(a, "description")
            if not ivd:
                a = drop(a, "isDeprecated", "deprecationReason")
            out.append(a)
        return out

    def field(f):
        f = dict(f)
        if not desc:
            f = drop(f, "description")
        f["args"] = input_values(f["args"])
        return f

    def type_(t):
        t = dict(t)
        if not desc:
            t = drop(t, "description")
        if not sbu:
            t = drop(t, "specifiedByURL")
        if not oneof:
            t = drop(t, "isOneOf")
        if t["fields"] is not None:
            t["fields"] = [field(f) for f in t["fields"]]
        if t["inputFields"] is not None:
            t["inputFields"] = input_values(t["inputFields"])
        if t["enumValues"] is not None:
            t["enumValues"] = [v if desc else drop(v, "description") for v in t["enumValues"]]
        return t

    def directive(d):
        d = dict(d)
        if not desc:
            d = drop(d, "description")
        if not rep:
            d = drop(d, "isRepeatable")
        if not ddep:
            d = drop(d, "isDeprecated", "deprecationReason")
        d["args"] = input_values(d["args"])
        return d

    s = dict(full["__schema"])
    if not (desc and sdesc):
        s = drop(s, "description")
    s["types"] = [type_(t) for t in s["types"]]
    s["directives"] = [directive(d) for d in s["directives"] if ddep or not d["isDeprecated"]]
    return {"__schema": s}


def json_diff(a, b, p="$"):
    if type(a) is not type(b):
        return f"{p}: {a!r} vs {b!r}"
    if isinstance(a, dict):
        for k in a:
            if k not in b:
                return f"{p}.{k}: only in the first"
            d = json_diff(a[k], b[k], p + "." + k)
            if d:
                return d
        for k in b:
            if k not in a:
                return f"{p}.{k}: only in the second"
        return None
    if isinstance(a, list):
        if len(a) != len(b):
            return f"{p}: {len(a)} vs {len(b)} items"
        for i, (x, y) in enumerate(zip(a, b)):
            nm = x.get("name") if isinstance(x, dict) else None
            d = json_diff(x, y, f"{p}[{nm if nm is not None else i}]")
            if d:
                return d
        return None
    return None if a == b else f"{p}: {a!r} vs {b!r}"


# --------------------------------------------------------------------------- conformance to the introspection types


def conforms(data, selection_set, type_, schema, fragments, path="$"):
    """data inhabits `type_` for the given selection (generic result-shape check against the schema's types)."""
    from graphql import (get_named_type, is_enum_type, is_list_type, is_non_null_type, is_object_type,
                         is_scalar_type)
    if is_non_null_type(type_):
        if data is None:
            return f"{path}: null for non-null type {type_}"
        return conforms(data, selection_set, type_.of_type, schema, fragments, path)
    if data is None:
        return None
    if is_list_type(type_):
        if not isinstance(data, list):
            return f"{path}: expected a list"
        for i, x in enumerate(data):
            e = conforms(x, selection_set, type_.of_type, schema, fragments, f"{path}[{i}]")
            if e:
                return e
        return None
    if is_scalar_type(type_):
        want = {"String": str, "Boolean": bool, "ID": str, "Int": int, "Float": (int, float)}.get(type_.name)
        if want and (not isinstance(data, want) or (want is not bool and isinstance(data, bool))):
            return f"{path}: {data!r} is not a {type_.name}"
        return None
    if is_enum_type(type_):
        return None if data in type_.values else f"{path}: {data!r} is not a value of {type_.name}"
    if not is_object_type(type_) or not isinstance(data, dict):
        return f"{path}: expected an object of type {type_}"
    keys = []

    def collect(ss):
        for sel in ss.selections:
            if sel.kind == "field":
                keys.append((sel.alias.value if sel.alias else sel.name.value, sel))
            elif sel.kind == "fragment_spread":
                collect(fragments[sel.name.value].selection_set)
            else:
                collect(sel.selection_set)

    collect(selection_set)
    want_keys = [k for k, _ in keys]
    if sorted(set(want_keys)) != sorted(data.keys()):
        return f"{path}: keys {sorted(data.keys())} but selected {sorted(set(want_keys))}"
    for k, sel in keys:
        if sel.name.value == "__typename":
            if data[k] != type_.name:
                return f"{path}.{k}: __typename"
            continue
        fdef = schema.get_field(type_, sel.name.value)
        if fdef is None:
            return f"{path}.{k}: no such field on {type_.name}"
        e = conforms(data[k], sel.selection_set, fdef.type, schema, fragments, f"{path}.{k}")
        if e:
            return e
    return None


# --------------------------------------------------------------------------- ad-hoc selections + projection of the full result

TYPE_FIELDS = ["kind", "name", "description", "specifiedByURL", "isOneOf", "fields", "interfaces", "possibleTypes",
               "enumValues", "inputFields", "ofType"]


class Adhoc:
    """Random selections against the introspection types; expected result computed from the FULL standard result."""

    def __init__(self, rng, full):
        self.rng = rng
        self.full = full["__schema"]
        self.by_name = {t["name"]: t for t in self.full["types"]}

    def pick(self, names, lo=1):
        k = self.rng.randint(lo, max(lo, min(len(names), 4)))
        l = list(names)
        self.rng.shuffle(l)
        return l[:k]

    def incl(self):
        r = self.rng.random()
        if r < 0.4:
            return "", False
        if r < 0.7:
            return "(includeDeprecated: true)", True
        return "(includeDeprecated: false)", False

    # each gen_X returns (selection text, projector: node -> expected value)
    def gen_type(self, depth, lists=0):
        names = self.pick(TYPE_FIELDS)
        parts, projs = [], []
        for n in names:
            if n in ("kind", "name", "description", "specifiedByURL", "isOneOf"):
                parts.append(n)
                projs.append((n, lambda t, n=n: t.get(n)))
            elif depth <= 0:
                continue
            elif n in ("fields", "inputFields", "interfaces", "possibleTypes") and lists >= 2:
                continue  # MaxIntrospectionDepthRule: fewer than 3 nested list fields
            elif n == "fields":
                a, inc = self.incl()
                st, sp = self.gen_field(depth - 1, lists + 1)
                parts.append(f"fields{a} {{ {st} }}")
                projs.append((n, lambda t, sp=sp, inc=inc: None if t["fields"] is None else
                              [sp(f) for f in t["fields"] if inc or not f["isDeprecated"]]))
            elif n == "inputFields":
                a, inc = self.incl()
                st, sp = self.gen_input_value(depth - 1, lists + 1)
                parts.append(f"inputFields{a} {{ {st} }}")
                projs.append((n, lambda t, sp=sp, inc=inc: None if t["inputFields"] is None else
                              [sp(f) for f in t["inputFields"] if inc or not f["isDeprecated"]]))
            elif n == "enumValues":
                a, inc = self.incl()
                ks = self.pick(["name", "description", "isDeprecated", "deprecationReason"])
                parts.append(f"enumValues{a} {{ {' '.join(ks)} }}")
                projs.append((n, lambda t, ks=ks, inc=inc: None if t["enumValues"] is None else
                              [{k: v[k] for k in ks} for v in t["enumValues"] if inc or not v["isDeprecated"]]))
            elif n in ("interfaces", "possibleTypes"):
                st, sp = self.gen_type(depth - 1, lists + 1)
                parts.append(f"{n} {{ {st} }}")
                projs.append((n, lambda t, n=n, sp=sp: None if t.get(n) is None else
                              [sp(self.resolve(r)) for r in t[n]]))
            elif n == "ofType":
                st, sp = self.gen_type(depth - 1, lists)
                parts.append(f"ofType {{ {st} }}")
                projs.append((n, lambda t, sp=sp: None if t.get("ofType") is None else sp(self.resolve(t["ofType"]))))
        if not parts:
            parts, projs = ["kind"], [("kind", lambda t: t.get("kind"))]
        return " ".join(parts), (lambda t, projs=projs: {k: p(t) for k, p in projs})

    def resolve(self, ref):
        """A TypeRef of the full result as a full __Type node (named types are looked up by name)."""
        if ref.get("name") is not None:
            return self.by_name[ref["name"]]
        # wrapper: only kind / ofType carry information
        return {"kind": ref["kind"], "name": None, "description": None, "specifiedByURL": None, "isOneOf": None,
                "fields": None, "interfaces": None, "possibleTypes": None, "enumValues": None, "inputFields": None,
                "ofType": ref.get("ofType")}

    def gen_field(self, depth, lists=0):
        names = self.pick(["name", "description", "args", "type", "isDeprecated", "deprecationReason"])
        parts, projs = [], []
        for n in names:
            if n == "args":
                if depth <= 0:
                    continue
                a, inc = self.incl()
                st, sp = self.gen_input_value(depth - 1, lists)
                parts.append(f"args{a} {{ {st} }}")
                projs.append((n, lambda f, sp=sp, inc=inc: [sp(x) for x in f["args"] if inc or not x["isDeprecated"]]))
            elif n == "type":
                if depth <= 0:
                    continue
                st, sp = self.gen_type(depth - 1, lists)
                parts.append(f"type {{ {st} }}")
                projs.append((n, lambda f, sp=sp: sp(self.resolve(f["type"]))))
            else:
                parts.append(n)
                projs.append((n, lambda f, n=n: f[n]))
        if not parts:
            parts, projs = ["name"], [("name", lambda f: f["name"])]
        return " ".join(parts), (lambda f, projs=projs: {k: p(f) for k, p in projs})

    def gen_input_value(self, depth, lists=0):
        names = self.pick(["name", "description", "type", "defaultValue", "isDeprecated", "deprecationReason"])
        parts, projs = [], []
        for n in names:
            if n == "type":
                if depth <= 0:
                    continue
                st, sp = self.gen_type(depth - 1, lists)
                parts.append(f"type {{ {st} }}")
                projs.append((n, lambda f, sp=sp: sp(self.resolve(f["type"]))))
            else:
                parts.append(n)
                projs.append((n, lambda f, n=n: f[n]))
        if not parts:
            parts, projs = ["name"], [("name", lambda f: f["name"])]
        return " ".join(parts), (lambda f, projs=projs: {k: p(f) for k, p in projs})

    def gen_directive(self, depth):
        names = self.pick(["name", "description", "isRepeatable", "locations", "args", "isDeprecated",
                           "deprecationReason"])
        parts, projs = [], []
        for n in names:
            if n == "args":
                a, inc = self.incl()
                st, sp = self.gen_input_value(depth - 1)
                parts.append(f"args{a} {{ {st} }}")
                projs.append((n, lambda d, sp=sp, inc=inc: [sp(x) for x in d["args"] if inc or not x["isDeprecated"]]))
            else:
                parts.append(n)
                projs.append((n, lambda d, n=n: d[n]))
        return " ".join(parts), (lambda d, projs=projs: {k: p(d) for k, p in projs})

    def query(self):
        """(query text, expected data)."""
        rng = self.rng
        r = rng.random()
        if r < 0.3:
            name = rng.choice(list(self.by_name) + ["NoSuchType"])
            st, sp = self.gen_type(3)
            t = self.by_name.get(name)
            return f'{{ __type(name: "{name}") {{ {st} }} }}', {"__type": None if t is None else sp(t)}
        parts, projs = [], []
        for n in self.pick(["description", "types", "queryType", "mutationType", "subscriptionType", "directives"]):
            if n == "description":
                parts.append(n)
                projs.append((n, lambda s: s["description"]))
            elif n == "types":
                st, sp = self.gen_type(3)
                parts.append(f"types {{ {st} }}")
                projs.append((n, lambda s, sp=sp: [sp(t) for t in s["types"]]))
            elif n == "directives":
                a, inc = self.incl()
                st, sp = self.gen_directive(2)
                parts.append(f"directives{a} {{ {st} }}")
                projs.append((n, lambda s, sp=sp, inc=inc: [sp(d) for d in s["directives"] if inc or not d["isDeprecated"]]))
            else:
                st, sp = self.gen_type(2)
                parts.append(f"{n} {{ {st} }}")
                projs.append((n, lambda s, n=n, sp=sp: None if s[n] is None else sp(self.by_name[s[n]["name"]])))
        return "{ __schema { " + " ".join(parts) + " } }", {"__schema": {k: p(self.full) for k, p in projs}}


# --------------------------------------------------------------------------- the check


def run(tier):
    from graphql import build_schema, graphql_sync, parse, print_schema, validate, validate_schema
    from graphql.utilities import (build_client_schema, find_schema_changes, get_introspection_query,
                                   introspection_from_schema)

    ck = Check("C18", tier)
    ck.assumptions += ASSUMPTIONS
    br = common.build("C18", models=("schemaops",))
    ck.proofs(br)
    if not br.ok:
        return ck.finish()
    m = Model("schemaops")
    quick = tier == "quick"
    rng = ck.rng
    all_combos = [dict(zip(OPTS, bits)) for bits in itertools.product([True, False], repeat=7)]
    ck.rule = ("generated valid schemas (SDL-built and programmatic; deprecated fields/args/input fields/enum values/"
               "directives, OneOf inputs, specifiedBy, schema descriptions, adversarial texts) x option combinations of "
               "get_introspection_query (thorough: all 2^7 = 128; quick: all-on, all-off, each single option off, each "
               "single option on and random ones, 18 per schema): the query validates and executes without errors, the "
               "result inhabits the introspection types, equals prune(full) (Python prune and extracted Coq prune on the "
               "wire-encoded JSON) and equals the extracted model introspect(enc s, o); __type(name) for every type name "
               "equals the entry of the type list; ad-hoc selections against the introspection types (random "
               "includeDeprecated arguments) equal the projection computed from the full result; build_client_schema(full) "
               "prints like the original, has no changes either way, equal dump, and introspects to the same result. "
               "non-trivial = (schema, combination) where pruning removes at least one deprecated element or key")
    full_query = get_introspection_query(**{k: True for k in OPTS})
    full_doc = parse(full_query)
    fragments_text = full_query[full_query.index("fragment FullType"):]
    lookup_query = "query L($n: String!) { __type(name: $n) { ...FullType } }\n" + fragments_text
    n_schemas = 16 if quick else 36
    validated = set()
    n_model_cases = [0]
    literals = {}   # printed text -> (wire of the literal tree, a key for the report)

    def collect_literals(schema):
        """Default-value literals of the schema (for the tie of the literal printer / parser models)."""
        from graphql import print_ast, is_input_object_type, is_interface_type, is_object_type
        from graphql.utilities import get_default_value_ast

        def has_block(n):
            k = n.kind
            return (k == "string_value" and bool(n.block)) or (k == "list_value" and any(map(has_block, n.values))) \
                or (k == "object_value" and any(has_block(f.value) for f in n.fields))

        def add(a):
            ast = get_default_value_ast(a)
            if ast is None:
                return
            if has_block(ast):
                ck.count("literal_with_block_string_skipped")
                return
            literals.setdefault(print_ast(ast), G.w_value(ast))

        for t in schema.type_map.values():
            if is_object_type(t) or is_interface_type(t):
                for f in t.fields.values():
                    for a in f.args.values():
                        add(a)
            elif is_input_object_type(t):
                for a in t.fields.values():
                    add(a)
        for d in schema.directives:
            for a in d.args.values():
                add(a)

    def run_model(cases, meta):
        # per schema, to keep the wire data of only one schema in memory
        outs = m.run_batch(cases)
        for (key, rep, what, want), o in zip(meta, outs):
            if not o or o[0] != 1:
                raise RuntimeError("model could not decode a case (codec bug)")
            got = G.r_json(G.Reader(o, 1))
            d = json_diff(want, got)
            if d:
                ck.violation(key, f"model disagrees: {what}: {d} (first = implementation)", rep)
        n_model_cases[0] += len(cases)

    # minimal probes first (deterministic keys, minimal replays): one argument with a Python default value
    from graphql import (GraphQLArgument, GraphQLField, GraphQLFloat, GraphQLID, GraphQLInt, GraphQLList,
                         GraphQLObjectType, GraphQLSchema, GraphQLString)
    from graphql.type import GraphQLDefaultInput
    probes = []
    # schemas that bring their own definition of a specified directive (introspection must carry it like any other)
    from graphql import DirectiveLocation, GraphQLBoolean, GraphQLDirective, GraphQLNonNull, specified_directives
    for nm, sdl_p in (("skip-sdl", '"own skip"\ndirective @skip(if: Boolean!) on FIELD\ntype Query { a: Int }'),
                      ("deprecated-legacy-sdl", 'directive @deprecated(reason: String = "No longer supported") on '
                       'FIELD_DEFINITION | ENUM_VALUE\ntype Query { a: Int @deprecated }'),
                      ("oneOf-specifiedBy-sdl", '"mine"\ndirective @oneOf on INPUT_OBJECT\ndirective @specifiedBy('
                       '"the url"\nurl: String!) on SCALAR\nscalar S @specifiedBy(url: "u")\ninput I @oneOf { a: S }\n'
                       'type Query { f(i: I): Int }')):
        probes.append((f"override-probe:{nm}", build_schema(sdl_p)))
    # deprecation with an empty / blank / default reason at every site (deprecated is `reason is not None`)
    for nm, rs in (("empty", '""'), ("blank", '" "'), ("default", None)):
        dep = "@deprecated" if rs is None else f"@deprecated(reason: {rs})"
        probes.append((f"deprecation-probe:{nm}-reason", build_schema(
            f"directive @d(x: Int {dep}, y: Int) {dep} on FIELD\n"
            f"directive @e(x: Int {dep}, y: I = {{c: 1}} {dep}, z: Int) on FIELD\n"   # a directive that stays visible
            f"enum E {{ A {dep} B }}\ninput I {{ a: Int {dep} b: E = A {dep} c: Int }}\n"
            f"type Query {{ f(a: I {dep}, b: Int): E {dep} g: Int }}",
            experimental_directives_on_directive_definitions=True)))
    own_include = GraphQLDirective("include", [DirectiveLocation.FIELD, DirectiveLocation.QUERY], args={
        "if": GraphQLArgument(GraphQLNonNull(GraphQLBoolean), description="cond")}, description="own include",
        is_repeatable=True)
    probes.append(("override-probe:include-programmatic", GraphQLSchema(
        GraphQLObjectType("Query", {"a": GraphQLField(GraphQLInt)}),
        directives=[own_include if d.name == "include" else d for d in specified_directives])))
    for ty, v in ([(GraphQLID, v) for v in ["123", "123\n", "-5\n", "007", "", 5]]
                  + [(GraphQLString, v) for v in ["", "123\n", '"', "\\", "a\u2028b"]]
                  + [(GraphQLFloat, v) for v in [0.0, 1e20, 5e-324, 3]] + [(GraphQLList(GraphQLID), ["1\n", 2])]):
        q = GraphQLObjectType("Query", {"f": GraphQLField(GraphQLInt, args={
            "a": GraphQLArgument(ty, default=GraphQLDefaultInput(value=v))})})
        probes.append((f"default-probe:{ty}:{v!r}", GraphQLSchema(q)))
    # Python representations of default values (defaults travel as printed text through introspection)
    quick_keys = ("nested", "Int:100.0", "Int:2000.0", "Int:-0.0", "[Int]:(1, 2.0)", "[Int]:5.0", "Float:3:", "ID:12.0",
                  "shared-default-probe:enum-string", "shared-default-probe:float-int:ab",
                  "shared-default-probe:input-objects:history-a-then-b",
                  "member-probe:null-member-with-default:value", "member-probe:null-members-in-list:value",
                  "member-probe:nested-null-member:value", "member-probe:omits-defaulted-nonnull:value",
                  "member-probe:list-omits:value", "member-probe:omits-everything:legacy")
    for key, sch in G.class_probes() + G.representation_probes():
        if key.startswith("incremental-probe"):
            continue   # not executable with the standard entry points (see below)
        if not quick or key.startswith("subclass-probe") or any(k in key for k in quick_keys):
            probes.append((key, sch))
    n_probes = len(probes)
    for i in range(-n_probes, n_schemas):
        cases, meta = [], []
        if i < 0:
            key0, s = probes[i + n_probes]
            mode, sdl = "probe", key0
            if validate_schema(s):
                ck.count("probe_invalid")
                continue
            rep0 = {"relation": "introspection", "mode": "default value probe", "schema": key0, "programmatic": True}
            i = 1000 + i  # option sampling below only needs some index
        else:
            spec = G.gen_spec(rng, size=rng.randint(1, 3), adversarial=i % 4 != 0, directive_deprecation=i % 2 == 0,
                              override_specified=i % 3 == 0)
            sdl = G.spec_to_sdl(spec)
            mode = "sdl" if i % 2 == 0 else "prog"
            try:
                s = (build_schema(sdl, experimental_directives_on_directive_definitions=True) if mode == "sdl"
                     else G.spec_to_schema(spec, rng, subclasses=i % 4 == 1))
                if validate_schema(s):
                    raise ValueError("invalid")
            except Exception as e:  # noqa: BLE001
                ck.count("generator_invalid")
                continue
            rep0 = {"relation": "introspection", "mode": mode, "sdl": sdl, "programmatic": mode == "prog"}
            key0 = f"{mode}:{sdl}"
        if any(d.name in ("defer", "stream") for d in s.directives):
            # execute()/graphql_sync() refuse a schema that lists @defer/@stream unless the experimental incremental
            # executor is used ("unexpectedly contains experimental directives"): such schemas cannot be introspected
            # with the standard entry points and are outside this property
            ck.count("skipped_out_of_fragment_experimental_directives")
            continue
        ck.count("schemas_" + mode)
        try:
            full = introspection_from_schema(s, **{k: True for k in OPTS})
        except Exception as e:  # noqa: BLE001
            ck.violation(key0, f"introspection_from_schema (all options) raised {type(e).__name__}: {e}", rep0)
            continue
        # -- option combinations
        if mode == "probe" and key0.startswith("deprecation-probe"):
            # every deprecation filter: deprecated input values on/off x deprecated directives on/off (others on),
            # plus all options off
            on = {k: True for k in OPTS}
            combos = [dict(on, input_value_deprecation=a, experimental_directive_deprecation=b)
                      for a in (True, False) for b in (True, False)] + [all_combos[-1]]
        elif mode == "probe":   # minimal schemas: the client round trip is what they are for; keep them cheap
            combos = [all_combos[0], all_combos[-1]]
        elif quick:
            combos = [all_combos[0], all_combos[-1]]
            combos += [dict({k: True for k in OPTS}, **{k: False}) for k in OPTS]
            combos += [dict({k: False for k in OPTS}, **{k: True}) for k in OPTS]
            combos += [rng.choice(all_combos) for _ in range(2)]
        else:
            combos = all_combos
        enc = G.encode_schema(s, all_types=True, default_text=True)
        wfull = G.w_json(full)
        collect_literals(s)
        for ci, o in enumerate(combos):
            bits = [1 if o[k] else 0 for k in OPTS]
            key = f"{key0}:{bits}"
            rep = dict(rep0, options=o)
            try:
                q = get_introspection_query(**o)
                doc = parse(q)
            except Exception as e:  # noqa: BLE001
                ck.violation(key, f"get_introspection_query/parse raised {type(e).__name__}: {e}", rep)
                continue
            tb = tuple(bits)
            if tb not in validated or i < 3:
                validated.add(tb)
                errs = validate(s, doc)
                if errs:
                    ck.violation(key, f"the introspection query does not validate: {errs[0].message}", rep)
                    continue
            try:
                r = introspection_from_schema(s, **o)   # = execute_sync of the query; raises on any execution error
            except Exception as e:  # noqa: BLE001
                ck.violation(key, f"the introspection query executes with errors: {type(e).__name__}: {e}", rep)
                continue
            if not quick or ci < 2 or ci == i % len(combos):
                res = graphql_sync(s, q)   # the public entry point (parse + validate + execute) gives the same
                if res.errors or res.data != r:
                    ck.violation(key, "graphql_sync(get_introspection_query(**o)) has errors or differs from "
                                 f"introspection_from_schema: {res.errors and res.errors[0].message}", rep)
                    continue
            expected = py_prune(full, o)
            ck.note_case((key0, tb), nontrivial=expected != full)
            d = json_diff(r, expected)
            if d:
                ck.violation(key, f"result differs from the full result minus the switched-off attributes: {d}", rep)
            e = conforms(r, doc.definitions[0].selection_set, s.query_type, s,
                         {f.name.value: f for f in doc.definitions[1:]})
            if e:
                ck.violation(key, f"result does not conform to the introspection types: {e}", rep)
            # extracted model: introspect and prune (on a subset in quick to bound the model time)
            if ((ci == 0 or key0.startswith("deprecation-probe")) if mode == "probe" else (ci < 6 or ci % 3 == 0)) if quick else (ci + i) % 4 == 0:
                cases.append([8] + bits + enc)
                meta.append((key, rep, "Introspect.introspect(enc s, o)", r))
                cases.append([9] + bits + wfull)
                meta.append((key, rep, "Introspect.prune o (full result)", r))
        # -- single type lookups
        by_name = {t["name"]: t for t in full["__schema"]["types"]}
        for name in (["Query", "NoSuchType"] if mode == "probe" and quick else list(s.type_map) + ["NoSuchType", ""]):
            res = graphql_sync(s, lookup_query, variable_values={"n": name})
            key = f"{key0}:lookup:{name}"
            if res.errors:
                ck.violation(key, f"__type(name: {name!r}) executes with errors: {res.errors[0].message}", rep0)
                continue
            d = json_diff(res.data["__type"], by_name.get(name))
            if d:
                ck.violation(key, f"__type(name: {name!r}) differs from the entry of the type list: {d}", dict(rep0, type=name))
        ck.count("type_lookups", len(s.type_map) + 2)
        tn = rng.choice(list(s.type_map))
        cases.append([10] + [1] * 7 + G.w_text(tn) + enc)
        meta.append((f"{key0}:lookup:{tn}", rep0, "Introspect.type_lookup", by_name[tn]))
        # -- ad-hoc selections
        ad = Adhoc(rng, full)
        for _ in range((6 if key0.startswith("deprecation-probe") else 1) if mode == "probe" else 6 if quick else 12):
            q, want = ad.query()
            key = f"{key0}:adhoc:{q}"
            rep = dict(rep0, query=q)
            try:
                errs = validate(s, parse(q))
            except Exception as e:  # noqa: BLE001
                raise RuntimeError(f"ad-hoc query generator produced an unparsable query {q!r}: {e}")
            if errs:
                raise RuntimeError(f"ad-hoc query generator produced an invalid query {q!r}: {errs[0].message}")
            res = graphql_sync(s, q)
            if res.errors:
                ck.violation(key, f"ad-hoc introspection selection executes with errors: {res.errors[0].message}", rep)
                continue
            d = json_diff(res.data, want)
            if d:
                ck.violation(key, f"ad-hoc selection differs from the projection of the full result: {d}", rep)
            ck.count("adhoc_queries")
        run_model(cases, meta)
        # -- client schema
        key = f"{key0}:client"
        try:
            c = build_client_schema(full)
        except Exception as e:  # noqa: BLE001
            ck.violation(key, f"build_client_schema(full result) raised {type(e).__name__}: {e}", rep0)
            continue
        ps, pc = print_schema(s), print_schema(c)
        if ps != pc:
            ck.violation(key, "print_schema(build_client_schema(introspection)) differs from print_schema(s)",
                         dict(rep0, original=ps, client=pc))
        for a, b, nm in ((s, c, "(s, client)"), (c, s, "(client, s)")):
            ch = find_schema_changes(a, b)
            if ch:
                ck.violation(key, f"find_schema_changes{nm} reports {ch[0].description}", rep0)
        d = G.first_diff(G.dump(s), G.dump(c))
        if d:
            ck.violation(key, f"client schema differs from the original: {d}", rep0)
        # extracted build_client on the wire-encoded full result vs the real client schema
        want = G.encode_schema(c, all_types=True, default_text=True)
        o = m.run_batch([[11] + wfull])[0]
        n_model_cases[0] += 1
        if o != [1] + want:
            j = next((j for j, (a, b) in enumerate(zip(o, [1] + want)) if a != b), min(len(o), len(want) + 1))
            ck.violation(key, f"model disagrees: Client.build_client(full result) vs build_client_schema (wire offset {j})",
                         dict(rep0, impl_around=want[max(0, j - 21):j + 9], model_around=o[max(0, j - 20):j + 10]))
        if validate_schema(c):
            ck.violation(key, f"client schema is invalid: {validate_schema(c)[0].message}", rep0)
        try:
            again = introspection_from_schema(c, **{k: True for k in OPTS})
            d = json_diff(again, full)
            if d:
                ck.violation(key, f"introspection of the client schema differs from the original's: {d}", rep0)
        except Exception as e:  # noqa: BLE001
            ck.violation(key, f"introspection of the client schema raised {type(e).__name__}: {e}", rep0)
    # ---- the literal printer / parser of the model (Lang/Printer.pp, Lang/Parser.parse_text EConstValue, the
    #      instance of C18_client_roundtrip_literals) against print_ast / parse_const_value on every default value
    from graphql import parse_const_value
    texts = list(literals)
    outs = m.run_batch([[12] + literals[t] for t in texts] + [[13] + G.w_text(t) for t in texts])
    for j, t in enumerate(texts):
        key = "literal:" + t
        rep = {"relation": "literal printer/parser model", "printed": t}
        if outs[j] != [1] + G.w_text(t):
            got = "".join(chr(c) for c in outs[j][2:]) if outs[j][:1] == [1] else outs[j][:5]
            ck.violation(key, f"model print_literal differs from print_ast: {got!r} vs {t!r}", rep)
        try:
            want = [1] + G.w_value(parse_const_value(t))
        except Exception as e:  # noqa: BLE001
            ck.violation(key, f"parse_const_value(print_ast(default)) raised {type(e).__name__}: {e}", rep)
            continue
        if outs[len(texts) + j] != want:
            ck.violation(key, f"model parse_literal differs from parse_const_value on {t!r}",
                         dict(rep, model=outs[len(texts) + j][:40], impl=want[:40]))
    ck.count("default_value_literals", len(texts))
    n_model_cases[0] += 2 * len(texts)
    ck.count("model_cases", n_model_cases[0])
    ck.extra["option_combinations_exercised"] = len(validated)
    ck.samples.append({"options": OPTS, "full_query_head": full_query[:200]})
    return ck.finish()


def replay(path):
    """Re-evaluate the direct laws for the schema of a replay file (SDL-built schemas only)."""
    from graphql import build_schema, graphql_sync, print_schema
    from graphql.utilities import build_client_schema, find_schema_changes, introspection_from_schema
    d = json.loads(open(path).read())
    print(json.dumps({k: v for k, v in d.items() if k not in ("original", "client", "sdl")}, indent=1)[:3000])
    if "sdl" not in d or d.get("programmatic"):
        print("programmatic schema: re-run ./check C18 with the recorded seed")
        return 1
    try:
        s = build_schema(d["sdl"], experimental_directives_on_directive_definitions=True)
        full = introspection_from_schema(s, **{k: True for k in OPTS})
        bad = []
        o = d.get("options")
        if o:
            r = introspection_from_schema(s, **o)
            dd = json_diff(r, py_prune(full, o))
            if dd:
                bad.append("prune: " + dd)
        if d.get("query"):
            res = graphql_sync(s, d["query"])
            print("ad-hoc result:", json.dumps(res.data)[:500], res.errors)
        c = build_client_schema(full)
        if print_schema(c) != print_schema(s):
            bad.append("client print differs")
        if find_schema_changes(s, c) or find_schema_changes(c, s):
            bad.append("client changes")
        if introspection_from_schema(c, **{k: True for k in OPTS}) != full:
            bad.append("client re-introspection differs")
        print("failed laws:", bad)
        return 1 if bad else 0
    except Exception as e:  # noqa: BLE001
        print("replay raised", type(e).__name__, e)
        return 1
