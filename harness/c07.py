"""C07 - a subscription maps source events to responses one-to-one and in order."""
from __future__ import annotations

import asyncio
import json
import re

from . import common, gen_exec as G
from .common import Check, Model

ASSUMPTIONS = [
    "C07 model: Exec/Subscribe.v (pull-driven pipeline machine; theorems for every source, every per-event execution function, every interleaving) + Exec/Spec.v as the per-event execution oracle (C02's model)",
    "the per-event oracle is the C02 fragment: the subscription's single root field is executed by the model as the same selection on a Query type with identical fields",
    "custom subscribe resolvers returning non-generator async iterables (class-based iterators) are included; sync iterables are a creation failure by the specification",
    "asyncio scheduling is explored: source emission vs consumer pulls vs asynchronous field resolvers are interleaved by explicit awaits, not enumerated exhaustively",
]


class ClassSource:
    """A class-based async iterator (no aclose) over scripted items."""

    def __init__(self, items, log, gate=None):
        self.items, self.i, self.log, self.gate = items, 0, log, gate

    def __aiter__(self):
        return self

    async def __anext__(self):
        if self.gate:
            await self.gate(self.i)
        if self.i >= len(self.items):
            self.log.append(("src", "end"))
            raise StopAsyncIteration
        it = self.items[self.i]
        self.i += 1
        if isinstance(it, Exception):
            self.log.append(("src", "raise"))
            raise it
        self.log.append(("src", "yield", self.i - 1))
        return it


class ClassSourceWithClose(ClassSource):
    """Class-based iterator whose aclose() returns a truthy value."""

    async def aclose(self):
        self.log.append(("closed",))
        return True


class CloseBoom(Exception):
    pass


class ClassSourceCloseRaises(ClassSource):
    """Class-based iterator whose aclose() itself fails (with a scripted exception class)."""

    exc = ValueError

    async def aclose(self):
        self.log.append(("closed",))
        raise self.exc("close failed")


def root_checking(resolver, problems):
    """Per-event execution = executing with the EVENT as root value: at a root field the source argument is the
    event, and info.root_value must be that same object (as in execute(document, root_value=event))."""
    def wrapped(source, info, **args):
        if info.path.prev is None and info.root_value is not source:
            problems.append((tuple(info.path.as_list()), type(info.root_value).__name__))
        return resolver(source, info, **args)
    return wrapped


DISABLED_SDL = """
type Query { ev: Ev xs: [Int] n: Int }
type Subscription { ev: Ev xs: [Int] n: Int }
type Ev { xs: [Int] tick: Int o: Ev os: [Ev] }
"""
DISABLED_DOCS = [
    ("subscription { xs @stream(if: false) n }", {}),
    ("subscription ($s: Boolean = false) { xs @stream(if: $s, initialCount: 1) n }", {}),
    ("subscription ($s: Boolean!) { ev { xs @stream(if: $s) os @stream(if: $s, initialCount: 0) { tick } } }", {"s": False}),
    ("subscription { ev { ... @defer(if: false) { tick } xs } }", {}),
    ("subscription ($d: Boolean!) { ev { ...F @defer(if: $d, label: \"l\") o { ... @defer(if: $d) { tick } } } } fragment F on Ev { tick xs }", {"d": False}),
    ("subscription { ev { os @stream(if: false) { xs @stream(if: false) ... @defer(if: false) { tick } } } }", {}),
]


def disabled_incremental_directives(ck):
    """Subscriptions whose @defer/@stream are switched off must behave like plain subscriptions: response i equals the
    (non-incremental) execution of the same selection set with event i as root value."""
    import asyncio
    from graphql import build_schema, execute_sync, parse
    from graphql.execution import subscribe, ExecutionResult
    schema = build_schema(DISABLED_SDL)
    events = [{"ev": {"xs": [1, 2, 3], "tick": 1, "o": {"tick": 2, "xs": []}, "os": [{"tick": 3, "xs": [4]}, {"tick": 5, "xs": None}]},
               "xs": [7, 8], "n": 1},
              {"ev": None, "xs": None, "n": 2},
              {"ev": {"xs": [], "tick": None, "o": None, "os": []}, "xs": [], "n": 3}]
    for text, variables in DISABLED_DOCS:
        sdoc = parse(text)
        qdoc = parse(text.replace("subscription", "query", 1))

        async def run_one():
            async def src():
                for e in events:
                    yield e
            res = subscribe(schema, sdoc, variable_values=variables, subscribe_field_resolver=lambda *_a, **_k: src())
            if hasattr(res, "__await__"):
                res = await res
            if isinstance(res, ExecutionResult):
                return ("errors-only", [e.message for e in res.errors or []])
            out = []
            async for r in res:
                out.append(r)
            return ("stream", out)
        loop = asyncio.new_event_loop()
        try:
            outcome = loop.run_until_complete(asyncio.wait_for(run_one(), 10))
        except Exception as e:  # noqa: BLE001
            outcome = ("raised", type(e).__name__ + ": " + str(e)[:200])
        finally:
            loop.close()
        ck.evaluations += 1
        key = f"disabled-incremental:{text!r}"
        rep = {"relation": "disabled @defer/@stream: response i = execute(event i)", "document": text, "variables": variables}
        ck.note_case(("disabled", text), nontrivial=True)
        if outcome[0] != "stream":
            ck.violation(key, f"subscription with switched-off @defer/@stream did not give a response stream: {outcome}"[:300], dict(rep, impl=repr(outcome)[:400]))
            continue
        got = outcome[1]
        want = [execute_sync(schema, qdoc, root_value=e, variable_values=variables) for e in events]
        if len(got) != len(want):
            ck.violation(key, f"{len(got)} responses for {len(want)} events", dict(rep, impl=len(got)))
            continue
        for i, (g, w) in enumerate(zip(got, want)):
            gd, wd = getattr(g, "data", None), w.data
            ge = sorted(tuple(e.path or ()) for e in (getattr(g, "errors", None) or []))
            we = sorted(tuple(e.path or ()) for e in (w.errors or []))
            if not hasattr(g, "data") or gd != wd or ge != we:
                ck.violation(key, f"response {i} is {g!r:.200}, executing the selection set on event {i} gives data {wd!r:.120} errors {we}",
                             dict(rep, index=i, impl=repr(g)[:400], model=repr((wd, we))[:400]))
                break


def options_forwarded(ck):
    """Options of subscribe() that change the per-event responses must reach the per-event executor: with
    hide_suggestions (and error messages compared implementation-vs-implementation), response i must equal
    execute_sync(event i) under the same option - also for the errors-only response of a failed creation."""
    import asyncio
    from graphql import build_schema, execute_sync, parse
    from graphql.execution import subscribe, ExecutionResult
    schema = build_schema("""
      enum Color { RED GREEN }
      input In { color: Color }
      type Ev { pick(c: Color): String  inp(i: In): String  n: Int }
      type Query { ev(c: Color): Ev }
      type Subscription { ev(c: Color): Ev }
    """)
    events = [{"ev": {"pick": "p", "inp": "i", "n": 1}}, {"ev": {"pick": "q", "inp": "j", "n": 2}}]
    cases = [("subscription { ev { pick(c: REDD) n } }", {}), ("subscription { ev { inp(i: {color: GREN}) } }", {}),
             ("subscription ($c: Color) { ev { pick(c: $c) n } }", {"c": "REDD"}), ("subscription { ev(c: GREE) { n } }", {}),
             ("subscription ($i: In) { ev { inp(i: $i) n } }", {"i": {"colour": "RED"}})]
    for text, variables in cases:
        for hide in (True, False):
            sdoc = parse(text)
            qdoc = parse(text.replace("subscription", "query", 1))

            async def run_one():
                async def src():
                    for e in events:
                        yield e
                res = subscribe(schema, sdoc, variable_values=variables, hide_suggestions=hide,
                                subscribe_field_resolver=lambda *_a, **_k: src())
                if hasattr(res, "__await__"):
                    res = await res
                if isinstance(res, ExecutionResult):
                    return ("errors-only", [res])
                return ("stream", [r async for r in res])
            loop = asyncio.new_event_loop()
            try:
                kind, got = loop.run_until_complete(asyncio.wait_for(run_one(), 10))
            except Exception as e:  # noqa: BLE001
                kind, got = "raised", [type(e).__name__ + ": " + str(e)[:200]]
            finally:
                loop.close()
            ck.evaluations += 1
            ck.note_case(("options", text, hide), nontrivial=True)
            key = f"subscribe-options:{text!r}:hide_suggestions={hide}"
            rep = {"relation": "response i = execute(event i) under the same options", "document": text,
                   "variables": variables, "hide_suggestions": hide}
            want = [execute_sync(schema, qdoc, root_value=e, variable_values=variables, hide_suggestions=hide) for e in events]
            if kind == "errors-only":
                want = want[:1]
            if kind == "raised" or len(got) != len(want):
                ck.violation(key, f"subscribe(hide_suggestions={hide}) gave {kind} with {len(got)} responses, expected {len(want)}",
                             dict(rep, impl=repr(got)[:300]))
                continue
            for i, (g, w) in enumerate(zip(got, want)):
                gm = sorted((e.message, tuple(e.path or ())) for e in (g.errors or []))
                wm = sorted((e.message, tuple(e.path or ())) for e in (w.errors or []))
                if kind == "errors-only":
                    gm, wm = sorted(m for m, _ in gm), sorted(m for m, _ in wm)
                if g.data != (w.data if kind == "stream" else None) or gm != wm:
                    ck.violation(key, f"response {i} under hide_suggestions={hide} has errors {gm!r:.200}, executing the selection "
                                      f"set on event {i} under the same option gives {wm!r:.200}",
                                 dict(rep, index=i, impl=repr((g.data, gm))[:400], model=repr((w.data, wm))[:400]))
                    break


def background_error_isolation(ck):
    """Work of event k that is left to settle in the background (a sibling abandoned after a synchronous non-null
    failure) may fail while event k+1 is executing: response k+1 must still equal the execution of event k+1 alone."""
    import asyncio
    from graphql import build_schema, parse
    from graphql.execution import subscribe
    schema = build_schema("type Ev { bad: Int! slow: Int ok: Int n: Int } type Query { tick: Ev } type Subscription { tick: Ev }")
    doc = parse("subscription { tick { slow bad ok n } }")
    for late in (False, True):
        async def run_one():
            g0, g1 = asyncio.Event(), asyncio.Event()

            async def slow0():
                await g0.wait()
                raise RuntimeError("slow failed for event 0")

            def bad0():
                raise RuntimeError("bad")

            async def ok1():
                await g1.wait()
                return 1
            events = [{"tick": {"slow": slow0, "bad": bad0, "ok": 0, "n": 0}},
                      {"tick": {"slow": 5, "bad": 7, "ok": ok1, "n": 1}}]

            async def src():
                for e in events:
                    yield e

            def resolver(source, info, **_a):
                v = source.get(info.field_name) if isinstance(source, dict) else None
                return v() if callable(v) else v
            res = subscribe(schema, doc, subscribe_field_resolver=lambda *_a, **_k: src(), field_resolver=resolver)
            if hasattr(res, "__await__"):
                res = await res
            it = res.__aiter__()
            r0 = await asyncio.wait_for(it.__anext__(), 5)
            t1 = asyncio.ensure_future(it.__anext__())
            for _ in range(5):
                await asyncio.sleep(0)
            if late:
                g1.set()
                r1 = await asyncio.wait_for(t1, 5)
                g0.set()
            else:
                g0.set()  # the abandoned sibling of event 0 fails while event 1 is executing
                for _ in range(5):
                    await asyncio.sleep(0)
                g1.set()
                r1 = await asyncio.wait_for(t1, 5)
            for _ in range(5):
                await asyncio.sleep(0)
            try:
                await asyncio.wait_for(it.__anext__(), 5)
                ended = False
            except StopAsyncIteration:
                ended = True
            return r0, r1, ended
        loop = asyncio.new_event_loop()
        try:
            r0, r1, ended = loop.run_until_complete(asyncio.wait_for(run_one(), 20))
            obs = ((r0.data, sorted(tuple(e.path or ()) for e in r0.errors or [])),
                   (r1.data, sorted(tuple(e.path or ()) for e in r1.errors or [])), ended)
        except Exception as e:  # noqa: BLE001
            obs = ("raised", type(e).__name__ + ": " + str(e)[:200])
        finally:
            loop.close()
        ck.evaluations += 1
        ck.note_case(("background-isolation", late), nontrivial=True)
        want = (({"tick": None}, [("tick", "bad")]), ({"tick": {"slow": 5, "bad": 7, "ok": 1, "n": 1}}, []), True)
        # the abandoned sibling's own error may or may not be reported in response 0 (already delivered): only its path is fixed
        ok = obs[0] != "raised" and obs[1] == want[1] and obs[2] is True and obs[0][0] == want[0][0] \
            and set(obs[0][1]) <= {("tick", "bad"), ("tick", "slow")} and ("tick", "bad") in obs[0][1]
        if not ok:
            ck.violation(f"background-error-isolation:late={late}",
                         f"responses {obs!r:.300} for an event with an abandoned failing sibling followed by a normal event; "
                         f"expected {want!r:.300}",
                         {"relation": "response i = execute(event i); work of an earlier event does not leak into a later response",
                          "late": late, "impl": repr(obs)[:600], "model": repr(want)[:600]})


def gen_source(items, log, gate=None):
    async def gen():
        log.append(("open",))
        try:
            for i, it in enumerate(items):
                if gate:
                    await gate(i)
                if isinstance(it, Exception):
                    log.append(("src", "raise"))
                    raise it
                log.append(("src", "yield", i))
                yield it
            if gate:
                await gate(len(items))
            log.append(("src", "end"))
        finally:
            log.append(("closed",))
    return gen()


class SourceBoom(Exception):
    pass


def run(tier):
    from graphql import build_schema, execute_sync, parse, print_ast, validate, specified_rules
    from graphql.execution import subscribe, ExecutionResult
    from graphql.language import ast as A

    ck = Check("C07", tier)
    ck.assumptions += ASSUMPTIONS
    br = common.build("C07", models=("subscribe", "exec"))
    ck.proofs(br)
    if not br.ok:
        return ck.finish()
    m_exec, m_sub = Model("exec"), Model("subscribe")
    quick = tier == "quick"
    root_problems = []
    rng = ck.rng
    ck.rule = ("generated schemas (C02 generator + a Subscription type with the Query fields) x subscription documents (one root "
               "field taken from a generated operation, with variables/fragments/directives/abstract types) x event sequences of "
               "length 0..6 (payloads incl. raising/null/ill-typed positions) x failure position (source raises at index i, "
               "creation failure kinds) x source kind (async generator / class iterator) x timing (source gated behind the "
               "consumer, consumer lagging, asynchronous per-event resolvers): response i == execute_sync(event i) == Spec model; "
               "count/order/termination; recorded pull/source/callback trace accepted by the extracted pipeline machine. "
               "non-trivial = at least 2 events or a failure")
    nschemas = 90 if quick else 300
    ncases = 0
    for _ in range(nschemas):
        gs = G.GSchema(rng)
        sdl = gs.sdl()
        mq = re.search(r"type Query[^{]*\{(.*?)\n\}", sdl, re.S)
        if not mq:
            continue
        sdl_sub = sdl + "\ntype Subscription {" + mq.group(1) + "\n}\n"
        try:
            schema = build_schema(sdl_sub)
            wschema = G.enc_schema(build_schema(sdl))
        except Exception:  # noqa: BLE001
            ck.count("generator_invalid_schema")
            continue
        for _ in range(12 if quick else 30):
            dg = G.DocGen(rng, gs, max_depth=3)
            text = dg.document()
            try:
                qdoc0 = parse(text)
            except Exception:  # noqa: BLE001
                continue
            op = next(d for d in qdoc0.definitions if isinstance(d, A.OperationDefinitionNode))
            if op.operation.value != "query":
                continue
            flds = [s for s in op.selection_set.selections if isinstance(s, A.FieldNode) and s.name.value != "__typename"]
            if not flds:
                continue
            f = flds[0]
            ftext = print_ast(f)
            frags = [print_ast(d) for d in qdoc0.definitions if isinstance(d, A.FragmentDefinitionNode)
                     and d.type_condition.name.value != "Query"]
            if "Query" in ftext or any("...F" in ftext and False for _ in [0]):
                continue
            vdefs = ("(" + ", ".join(print_ast(v) for v in op.variable_definitions) + ")") if op.variable_definitions else ""
            body = " { " + ftext + " }\n" + "\n".join(frags)
            try:
                sdoc = parse("subscription S" + vdefs + body)
                qdoc = parse("query S" + vdefs + body)
            except Exception:  # noqa: BLE001
                continue
            rules = [r for r in specified_rules if r.__name__ not in ("NoUnusedFragmentsRule", "NoUnusedVariablesRule")]
            if validate(schema, sdoc, rules):
                ck.count("rejected_by_validate")
                continue
            variables = dg.variables()
            if G.null_directive_condition(schema, qdoc, qdoc.definitions[0], variables):
                ck.count("skipped_out_of_fragment")
                continue
            dgen = G.DataGen(rng, gs, dg.used_fields, p_bad=rng.choice([0.0, 0.1, 0.3]))
            nev = rng.choice([0, 1, 2, 2, 3, 4, 6])
            events = []
            for _i in range(nev):
                ev = dgen.obj("Query", 4)
                ev.pop("__typename", None)
                events.append(ev if rng.random() > 0.12 else None)
            sub_root = dgen.obj("Query", 3)
            sub_root.pop("__typename", None)
            fail_at = rng.choice([None, None, None] + list(range(nev + 1)))
            items = list(events)
            if fail_at is not None:
                items = items[:fail_at] + [SourceBoom("source broke")]
            expected_events = events if fail_at is None else events[:fail_at]
            kind = rng.choice(["gen", "gen", "class", "class-aclose", "class-aclose-raises"])
            close_exc = rng.choice([ValueError, KeyError, RuntimeError, CloseBoom, OSError, StopIteration, AttributeError])
            timing = rng.choice(["eager", "gated", "lagging"])
            # ---- per-event oracle: implementation execute_sync and the Spec model
            try:
                wires = [[1] + G.flatten(G.W(100, [], [wschema, G.enc_doc(qdoc), G.enc_vars(variables), G.enc_data(ev)]))
                         for ev in expected_events]
            except G.OutOfFragment:
                ck.count("skipped_out_of_fragment")
                continue
            mouts = m_exec.run_batch(wires) if wires else []
            refs = []
            for ev in expected_events:
                refs.append(G.run_impl(schema, sdoc, ev, variables))
            if any(r["kind"] != "response" for r in refs):
                ck.count("skipped_request_error")
                continue
            # ---- the real subscription
            log = []

            async def scenario():
                pulls = [0]
                waiters = {}

                async def gate(i):
                    # "gated": the source may produce item i only after the consumer asked for it
                    if timing == "gated":
                        while pulls[0] <= i:
                            await asyncio.sleep(0)
                    elif timing == "lagging":
                        await asyncio.sleep(0)

                src = (gen_source(items, log, gate) if kind == "gen" else
                       ClassSource(items, log, gate) if kind == "class" else
                       ClassSourceWithClose(items, log, gate) if kind == "class-aclose" else
                       type("Src", (ClassSourceCloseRaises,), {"exc": close_exc})(items, log, gate))
                clog = []
                root_problems.clear()
                res = subscribe(schema, sdoc, root_value=sub_root, variable_values=variables,
                                subscribe_field_resolver=lambda _r, _i, **_a: src,
                                field_resolver=root_checking(G.make_resolver(clog), root_problems))
                if hasattr(res, "__await__"):
                    res = await res
                if isinstance(res, ExecutionResult):
                    return ("errors-only", res, [])
                got = []
                terminal = "end"
                it = res.__aiter__()
                while True:
                    if timing == "lagging":
                        for _ in range(rng.randint(0, 3)):
                            await asyncio.sleep(0)
                    pulls[0] += 1
                    log.append(("pull",))
                    try:
                        r = await asyncio.wait_for(it.__anext__(), 5)
                    except StopAsyncIteration:
                        break
                    except asyncio.TimeoutError:
                        terminal = "hang"
                        break
                    except SourceBoom:
                        terminal = "raised"
                        break
                    except Exception as e:  # noqa: BLE001
                        terminal = "raised-other:" + type(e).__name__
                        break
                    log.append(("resp", len(got)))
                    got.append(r)
                return ("stream", terminal, got)

            loop = asyncio.new_event_loop()
            try:
                outcome = loop.run_until_complete(scenario())
                loop.run_until_complete(asyncio.sleep(0))
                leftovers = [t for t in asyncio.all_tasks(loop) if not t.done()]
                loop.run_until_complete(loop.shutdown_asyncgens())
            except Exception as e:  # noqa: BLE001
                import traceback
                outcome = ("harness-raised", type(e).__name__ + ": " + str(e)[:100] + traceback.format_exc()[-1500:], [])
                leftovers = []
            finally:
                loop.close()
            ncases += 1
            key = f"sub:{print_ast(sdoc)[:150]!r}:{nev}:{fail_at}:{kind}:{timing}"
            rep = {"relation": "responses = map execute(events before failure), then failure/end", "sdl": sdl_sub,
                   "document": print_ast(sdoc), "variables": variables, "events": [G.data_to_jsonable(e) if e is not None else None for e in events],
                   "fail_at": fail_at, "source_kind": kind, "timing": timing}
            ck.note_case(("sub", print_ast(sdoc), nev, fail_at, kind, timing, repr(variables)), nontrivial=nev >= 2 or fail_at is not None,
                         sample={"document": print_ast(sdoc)[:200], "events": nev, "fail_at": fail_at, "timing": timing})
            if outcome[0] == "errors-only":
                # legitimate creation failures: variables do not coerce, or the root field's arguments do not
                from graphql.execution.values import get_argument_values, get_variable_values
                sop = sdoc.definitions[0]
                cv = get_variable_values(schema, sop.variable_definitions or (), variables or {})
                legit = isinstance(cv, list)
                if not legit:
                    rf = sop.selection_set.selections[0]
                    fdef = schema.subscription_type.fields.get(rf.name.value)
                    try:
                        get_argument_values(fdef, rf, cv)
                    except Exception:  # noqa: BLE001
                        legit = True
                res0 = outcome[1]
                if legit and res0.data is None and res0.errors:
                    ck.count("creation_failure_errors_only")
                    continue
            if outcome[0] != "stream":
                ck.violation(key, f"subscribe did not return a response stream: {outcome[0]} {outcome[1]!r}"[:300], dict(rep, impl=repr(outcome[:2])))
                continue
            _, terminal, got = outcome
            if root_problems:
                ck.violation(key, f"during per-event execution info.root_value is not the event at root field {root_problems[0][0]} "
                                  f"(it is a {root_problems[0][1]}): not the same as executing with the event as root value",
                             dict(rep, relation="per-event execution has the event as root value (info.root_value)",
                                  impl=[list(map(str, x)) for x in root_problems[:3]]))
            want_terminal = "raised" if fail_at is not None else "end"
            if terminal != want_terminal:
                ck.violation(key, f"stream terminated with {terminal!r}, expected {want_terminal!r} (after {len(got)} responses)",
                             dict(rep, impl=terminal, model=want_terminal))
            if len(got) != len(expected_events):
                ck.violation(key, f"{len(got)} responses for {len(expected_events)} source events before the failure/end",
                             dict(rep, impl=len(got), model=len(expected_events)))
                continue
            for i, (r, ref, mo) in enumerate(zip(got, refs, mouts)):
                errs = r.errors or []
                mine = {"data": G.canon_pyjson(r.data), "errors": sorted((tuple(e.path or ()) for e in errs), key=repr)}
                if mine["data"] != ref["data"] or mine["errors"] != ref["errors"]:
                    ck.violation(key, f"response {i} differs from executing the selection set with event {i} as root value",
                                 dict(rep, index=i, impl=repr(mine)[:1500], reference=repr({k: ref[k] for k in ('data', 'errors')})[:1500]))
                    break
                model = G.dec_response(mo)
                if model.get("kind") == "response" and (model["data"] != mine["data"] or model["errors"] != mine["errors"]):
                    ck.violation(key, f"response {i} differs from the specification model's execution of event {i}",
                                 dict(rep, index=i, impl=repr(mine)[:1500], model=repr(model)[:1500]))
                    break
            if leftovers:
                ck.violation(key, f"{len(leftovers)} tasks still pending after the response stream ended", dict(rep))
            if kind == "gen" and log.count(("closed",)) != 1:
                ck.violation(key, f"source generator closed {log.count(('closed',))} times", dict(rep, log=repr(log)[:500]))
            # ---- trace acceptance by the pipeline machine
            evs = []
            for e in log:
                if e[0] == "pull":
                    evs.append(0)
                elif e[0] == "src":
                    evs.append(1)
                elif e[0] == "resp":
                    evs.append(2)
            # reorder-free check: machine outputs on the recorded trace
            srcenc = [(i + 1) if not isinstance(it, Exception) else 0 for i, it in enumerate(items)]
            # gated/eager sources may become ready before the pull is logged: normalise by moving
            # each source event after the pull that requested it (the machine ignores disabled events)
            out = m_sub.run_batch([[1, len(srcenc)] + srcenc + normalise(evs)])[0]
            want = [1] + [i + 2 for i in range(len(expected_events))] + [0 if fail_at is not None else 1]
            if out != want:
                ck.violation(key, "recorded pull/source/response trace is not accepted by the pipeline machine with the observed outputs",
                             dict(rep, trace=evs, model=out, expected=want))
        # creation failures
        for mode in ("raise", "not-iterable", "sync-list", "await-raise"):
            doc = parse("subscription { " + mq.group(1).split(":")[0].split("(")[0].strip().split()[-1] + " }") if False else None
    # creation failures on a fixed schema
    fixed = build_schema("type Query { a: Int } type Subscription { ev(x: Int!): Ev  n: Int } type Ev { v: Int }")
    docs = {"ok": "subscription { ev(x: 1) { v } }", "bad-arg": "subscription { ev { v } }", "bad-var": "subscription($x: Int!) { ev(x: $x) { v } }",
            "unknown-field": "subscription { zz }", "no-op": "query { a }"}

    async def creation(kind, doc, variables=None):
        async def araise():
            raise RuntimeError("subscribe failed")

        def resolver(_r, _i, **_a):
            if kind == "raise":
                raise RuntimeError("subscribe failed")
            if kind == "not-iterable":
                return 5
            if kind == "sync-list":
                return [1, 2]
            if kind == "await-raise":
                return araise()
            if kind == "return-exception":
                return ValueError("as value")
            return gen_source([{"ev": {"v": 1}}], [])
        res = subscribe(fixed, parse(doc), subscribe_field_resolver=resolver, variable_values=variables)
        if hasattr(res, "__await__"):
            res = await res
        return res

    for kind in ("raise", "not-iterable", "sync-list", "await-raise", "return-exception"):
        for dk in ("ok",):
            try:
                res = asyncio.run(creation(kind, docs[dk]))
            except Exception as e:  # noqa: BLE001
                res = e
            ncases += 1
            ck.note_case(("create", kind, dk), nontrivial=True)
            ok = isinstance(res, ExecutionResult) and res.data is None and res.errors and len(res.errors) >= 1
            if not ok:
                ck.violation(f"creation:{kind}:{dk}", f"source creation failure ({kind}) did not yield a single errors-only response: {res!r}"[:300],
                             {"relation": "creation failure -> single errors-only response", "kind": kind, "document": docs[dk]})
    for dk, variables in (("bad-arg", None), ("bad-var", {}), ("bad-var", {"x": "s"}), ("unknown-field", None)):
        try:
            res = asyncio.run(creation("fine", docs[dk], variables))
        except Exception as e:  # noqa: BLE001
            res = e
        ncases += 1
        ck.note_case(("create", "fine", dk, repr(variables)), nontrivial=True)
        ok = isinstance(res, ExecutionResult) and res.data is None and res.errors
        if not ok:
            ck.violation(f"creation:{dk}:{variables!r}", f"invalid subscription request ({dk}) did not yield an errors-only response: {res!r}"[:300],
                         {"relation": "creation failure -> single errors-only response", "document": docs[dk], "variables": repr(variables)})
    ck.count("cases", ncases)
    disabled_incremental_directives(ck)
    options_forwarded(ck)
    background_error_isolation(ck)
    return ck.finish()


def normalise(evs):
    """Order the recorded events so that each source event follows the pull that consumed it
    (a source may become ready before the consumer's pull is logged; the machine only fetches on demand)."""
    out, pending_src, idle = [], 0, True
    stage = "idle"
    for e in evs:
        if e == 0:
            out.append(0)
            if stage == "idle":
                stage = "fetching"
                if pending_src:
                    pending_src -= 1
                    out.append(1)
                    stage = "mapping"
        elif e == 1:
            if stage == "fetching":
                out.append(1)
                stage = "mapping"
            else:
                pending_src += 1
        else:
            out.append(2)
            stage = "idle"
    out += [1] * pending_src
    return out


def replay(path):
    d = json.loads(open(path).read())
    print(json.dumps(d, indent=1)[:4000])
    return 0
