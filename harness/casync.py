"""CASYNC - the scheduling part of C03: the real executor under a controlled event loop vs the Coq model Exec/Async.v.

Theorems: coq/theories/Properties/C03async.v (termination and progress, order independence of data and nulled
positions, error-set characterisation, well-formedness, serial mutation roots incl. background work; proofs in
Exec/AsyncProps.v).
Correspondence: for the requests of harness/c03.py (its schema, queries, World and controlled loop) the abstract
response tree is derived (positions and their order from an all-value run, nullability from the schema types seen
by the resolvers, outcome and sync/awaitable flag per position from the behaviour table); the real execute() is run
under a completion order (called outside or inside the running loop), the extracted model `async` is run with the
completion order the loop actually used; compared: final data, nulled positions (CollectedErrors), reported error
paths (set; order counted), the futures cancelled / completed / still pending when the response is delivered, the
sequence of resolver invocations of the whole run including background work.  Direct predicates on the
implementation: no resolver below mutation root field i runs, and no awaitable below it is still unwinding, once
root field j > i has started.
Stand-alone: ./check CASYNC; as part of C03: casync.core(ck, tier, model_ok)."""
from __future__ import annotations

import itertools
import json
import os
import time

from . import c03, common
from .common import Check, Model
from .loopctl import Controller

PID = "CASYNC"
THMS = "C03async"
MODEL = "async"

ASSUMPTIONS = [
    "CASYNC model: Exec/Async.v - a request is abstracted to its response tree (per position: outcome raise/null/leaf/"
    "composite with children, nullability, sync/awaitable flag); a scheduler step completes ONE pending awaitable and "
    "runs its continuation to quiescence (error propagation to the nearest nullable position, cancellation of the "
    "siblings being gathered, children of a new value started left to right) - the granularity of the controlled loop "
    "harness/loopctl.py, which completes a future only when the loop is quiescent; two awaitables completing in the same "
    "loop iteration of a real loop are not modelled as such",
    "siblings abandoned after a SYNCHRONOUS failure (executor.settle_in_background) stay in the model as background work "
    "below the nulled position: they can be stepped like live work, their results are discarded and their errors are "
    "dropped (CollectedErrors); a serial root starts its next field only when the previous one is done and the background "
    "work below it has settled (the behaviour of /repo since 449e9f5); without a running loop (synchronous part of "
    "execute() called outside a loop) abandoned coroutines are closed and never run",
    "abstract-type resolution (is_type_of/resolve_type awaitables) and async iterators are outside the modelled fragment "
    "(explored by harness/c03.py only); list items are synchronous values",
]

# requests in addition to c03.QUERIES: deeper non-null chains, several failing siblings, serial roots with subtrees
EXTRA_QUERIES = [
    "{ me { name req nnFriend { name req } } a { name req } }",
    "{ me { nnFriend { name req nnFriend { name req } } friends { name req } } a { nnFriends { req name } } }",
    "{ nn { name req } me { name } }",
    "{ nnlist { name req } me { friends { nnFriend { name req } } } }",
    "mutation { m1 { name req bestFriend { name } } m2 { id } }",
    "mutation { m1 { bestFriend { name req id } nnFriend { name req } } m2 { name nnFriend { req id } } m3 { id name } }",
    "mutation { m1 { friends { name req } } m2 { nnFriends { req name } id } }",
    "{ a { bestFriend { nnFriend { req name } name } nnFriend { bestFriend { req } name } } b { req name } }",
    "mutation { m1 { bestFriend { bestFriend { name } req } req } m2 { name } }",
    "mutation { m1 { bestFriend { nnFriend { bestFriend { id } req } name } req id } m2 { id } m3 { name req } }",
]

ORPHAN_KEY = "mutation-root-starts-while-background-work-of-earlier-root-pending"
DELIVERY_KEY = "response-delivered-while-resolver-still-unwinding"
# True: also run an unused abort signal together with resolvers that need several loop iterations of cleanup on cancellation
# (a defect of /repo cf8f094: with_abort_signal cancels the wrapped task without awaiting it, see
# corpus/CASYNC/repro_unused_abort_signal_cleanup_on_cancel.py and the suggested fix next to it; CASYNC_ABORT_WITH_CLEANUP=1
# turns the configuration on, violations are reported under UNWIND_KEY / DELIVERY_KEY)
ABORT_WITH_CLEANUP = os.environ.get("CASYNC_ABORT_WITH_CLEANUP", "1") == "1"  # on by default since the repair in /repo
UNWIND_KEY = "mutation-root-starts-while-awaitable-of-earlier-root-unwinding"
# True: the overlap is a violation of the serial clause (one stable key); False: it is only counted
REPORT_ORPHAN_OVERLAP = True

A, S = "async", "sync"
# (query, behaviours, completion order): deterministic cases run first
FIXED = [
    ("{ a{id} b{id} c{id} me{id} slow{bestFriend{name}} }", {("slow",): (A, "value")}, [("slow",)]),
    # two awaitable siblings, one fails at a non-null position: the other is cancelled / completes first
    ("{ me { name req } a { id } }", {("me", "name"): (A, "value"), ("me", "req"): (A, "raise"), ("a", "id"): (A, "value")},
     [("me", "req"), ("me", "name"), ("a", "id")]),
    ("{ me { name req } a { id } }", {("me", "name"): (A, "raise"), ("me", "req"): (A, "raise"), ("a", "id"): (A, "value")},
     [("me", "name"), ("a", "id"), ("me", "req")]),
    # synchronous failure next to a pending sibling: the sibling is left to the background
    ("{ me { name req } a { id } }", {("me",): (A, "value"), ("me", "name"): (A, "value"), ("me", "req"): (S, "raise"), ("a", "id"): (A, "value")},
     [("me",), ("me", "name"), ("a", "id")]),
    # nested non-null chain: the error passes two gathers, everything below the nulled position is cancelled
    ("{ me { nnFriend { name req nnFriend { name req } } friends { name req } } a { nnFriends { req name } } }",
     {("me", "nnFriend", "name"): (A, "value"), ("me", "nnFriend", "nnFriend", "req"): (A, "null"),
      ("me", "nnFriend", "nnFriend", "name"): (A, "value"), ("me", "friends", 0, "name"): (A, "raise"),
      ("a", "nnFriends"): (A, "value"), ("a", "nnFriends", 1, "req"): (A, "raise")},
     [("me", "friends", 0, "name"), ("a", "nnFriends"), ("me", "nnFriend", "nnFriend", "req"), ("a", "nnFriends", 1, "req")]),
    # serial roots: m1 fails synchronously inside its awaitable value while a sibling of the failing field is pending
    ("mutation { m1 { bestFriend { name } req } m2 { name } }",
     {("m1",): (A, "value"), ("m1", "bestFriend"): (A, "value"), ("m1", "req"): (S, "raise"), ("m2", "name"): (A, "value")},
     [("m1",), ("m1", "bestFriend"), ("m2", "name")]),
    ("mutation { m1 { bestFriend { name } req } m2 { name } m3 { req } }",
     {("m1",): (A, "value"), ("m1", "bestFriend"): (A, "value"), ("m1", "req"): (A, "raise"), ("m2", "name"): (A, "value"),
      ("m3", "req"): (A, "null")},
     [("m1",), ("m1", "req"), ("m2", "name"), ("m3", "req")]),
    # a cancelled sibling that needs several loop iterations to wind down (awaited cleanup / the extra task of an unused
    # abort signal) must have finished before the next root field starts / before the response is delivered
    ("mutation { m1 { name req id } m2 { id } }",
     {("m1", "name"): (A, "value"), ("m1", "req"): (A, "raise"), ("m1", "id"): (A, "value")},
     [("m1", "req"), ("m1", "name"), ("m1", "id")],
     {("m1", "name"): "coroutine_cleanup", ("m1", "id"): "coroutine", ("m1", "req"): "future"}),
    ("mutation { m1 { name req } m2 { id } }",
     {("m1",): (A, "value"), ("m1", "name"): (A, "value"), ("m1", "req"): (A, "raise"), ("m2", "id"): (A, "value")},
     [("m1",), ("m1", "req"), ("m2", "id"), ("m1", "name")],
     {("m1", "name"): "coroutine_cleanup", ("m1", "req"): "generator", ("m2", "id"): "object"}),
    ("{ me { name req id } a { id } }",
     {("me", "name"): (A, "value"), ("me", "req"): (A, "raise"), ("me", "id"): (A, "value")},
     [("me", "req"), ("me", "name")],
     {("me", "name"): "coroutine_cleanup", ("me", "id"): "coroutine", ("me", "req"): "task"}),
    # two nesting levels of "synchronous non-null failure next to a pending awaitable" inside one mutation root field:
    # the abandoned sibling, going on in the background, abandons a sibling of its own
    ("mutation { m1 { bestFriend { bestFriend { name } req } req } m2 { name } }",
     {("m1",): (A, "value"), ("m1", "bestFriend"): (A, "value"), ("m1", "req"): (S, "raise"),
      ("m1", "bestFriend", "bestFriend"): (A, "value"), ("m1", "bestFriend", "req"): (S, "raise"), ("m2", "name"): (A, "value")},
     [("m1",), ("m1", "bestFriend"), ("m1", "bestFriend", "bestFriend"), ("m2", "name")]),
    ("mutation { m1 { bestFriend { nnFriend { bestFriend { id } req } name } req } m2 { id } }",
     {("m1",): (A, "value"), ("m1", "bestFriend"): (A, "value"), ("m1", "req"): (S, "raise"),
      ("m1", "bestFriend", "name"): (A, "value"),
      ("m1", "bestFriend", "nnFriend", "bestFriend"): (A, "value"), ("m1", "bestFriend", "nnFriend", "req"): (S, "null")},
     [("m1",), ("m1", "bestFriend"), ("m1", "bestFriend", "nnFriend", "bestFriend"), ("m1", "bestFriend", "name")]),
]


# --------------------------------------------------------------------------- implementation side


class RecWorld(c03.World):
    """c03.World that also records the return type of every resolver position."""

    def __init__(self, rng, holder, behaviours, log, types):
        super().__init__(rng, holder, behaviours, log)
        self.types = types

    def leaf(self, kind):
        fn = super().leaf(kind)

        def rec(info, **a):
            self.types[tuple(info.path.as_list())] = info.return_type
            return fn(info, **a)
        return rec


class Ctl(Controller):
    """Controller that remembers every future it handed out."""

    def __init__(self):
        super().__init__()
        self.made = []

    def future(self, label, value=None, exc=None):
        fut = super().future(label, value, exc)
        self.made.append((label, fut))
        return fut


EXEC_MODES = ("default", "base-subclass", "base")


def spy_executor(captured, mode="default"):
    """The executor class handed to execute(executor_class=...): a trivial subclass (recording the instance) of the default
    IncrementalExecutor or of the base Executor - the documented extension point -, or the base Executor itself."""
    from graphql.execution import Executor
    from graphql.execution.execute import IncrementalExecutor
    if mode == "base":
        return Executor

    class Spy(Executor if mode == "base-subclass" else IncrementalExecutor):
        def __init__(self, *a, **k):
            super().__init__(*a, **k)
            captured.append(self)
    return Spy


def run_real(schema, doc, beh, order, lp=False, signal=False, kinds=None, mode="default"):
    """execute() under the controlled loop (lp: execute() itself is called inside the running loop).
    Returns a dict of observations."""
    from graphql import execute
    log, captured, snap = [], [], {}
    ctl = Ctl()
    # an abort signal that never fires must not change anything; (on a tree where with_abort_signal does not await the
    # work it cancels, several ticks of cleanup behind the signal's extra task are a known defect: ABORT_WITH_CLEANUP)
    w = c03.World(None, [ctl], beh, log, cleanup=0 if signal and not ABORT_WITH_CLEANUP else 3)
    w.kind_override = dict(kinds or {})
    kw = {}
    if signal:
        from graphql.pyutils import AbortController
        kw["abort_signal"] = AbortController().signal
    try:
        spy = spy_executor(captured, mode)
    except Exception:  # noqa: BLE001
        spy = None

    def snapshot():
        snap["futures"] = [(lab, "cancelled" if f.cancelled() else ("done" if f.done() else "pending"))
                           for lab, f in ctl.made]
        snap["ncalls"] = len([1 for ev, _ in log if ev == "call"])
        snap["nlog"] = len(log)

    def call():
        return execute(schema, doc, w.root(), executor_class=spy, **kw) if spy else execute(schema, doc, w.root(), **kw)

    def make(_c):
        if lp:
            async def inside():
                r = call()
                try:
                    return (await r) if hasattr(r, "__await__") else r
                finally:
                    snapshot()
            return inside()
        r = call()
        if not hasattr(r, "__await__"):
            snapshot()
            return r

        async def wrapper():
            try:
                return await r
            finally:
                snapshot()
        return wrapper()

    kind, res = ctl.run(make, list(order))
    obs = {"kind": kind, "log": log, "completed": list(ctl.completed_order), "futures": snap.get("futures", []),
           "ncalls_at_finish": snap.get("ncalls", 0), "nlog_at_finish": snap.get("nlog", len(log)), "positions": None,
           "result": res, "kinds_used": sorted(getattr(w, "kinds_used", ())), "spied": mode != "base" and spy is not None}
    if captured:
        try:
            obs["positions"] = {tuple(p.as_list()) if p is not None else () for p in captured[0].collected_errors._error_positions}
        except Exception:  # noqa: BLE001
            obs["positions"] = None
    return obs


# --------------------------------------------------------------------------- the abstract tree


class Keys:
    """response keys <-> wire ints (list indices stay themselves)."""

    def __init__(self):
        self.names = []

    def enc(self, k):
        if isinstance(k, int):
            return k
        if k not in self.names:
            self.names.append(k)
        return 1000 + self.names.index(k)

    def dec(self, n):
        return self.names[n - 1000] if n >= 1000 else n

    def path(self, p):
        return [self.enc(k) for k in p]

    def unpath(self, p):
        return tuple(self.dec(n) for n in p)


def derive_tree(schema, doc, beh):
    """The abstract response tree of (doc, beh) as a nested python structure, plus the leaf value table.
    node = (key, nonnull, async, tag, payload); positions and their order come from an all-value synchronous run."""
    from graphql import execute_sync, get_nullable_type, is_leaf_type, is_list_type, is_non_null_type
    from graphql.language import OperationType
    types, log = {}, []
    w = RecWorld(None, [None], {}, log, types)
    r0 = execute_sync(schema, doc, w.root())
    if r0.errors or r0.data is None:
        return None
    leaves = []

    def build(key, path, typ, value):
        nn = is_non_null_type(typ)
        inner = get_nullable_type(typ)
        mode, what = beh.get(path, ("sync", "value"))
        a = mode == "async"
        if what == "raise":
            return (key, nn, a, 0, None)
        if what == "null":
            return (key, nn, a, 1, None)
        if is_list_type(inner):
            return (key, nn, a, 3, (1, [build(i, path + (i,), inner.of_type, v) for i, v in enumerate(value)]))
        if is_leaf_type(inner):
            leaves.append(value)
            return (key, nn, a, 2, len(leaves) - 1)
        return (key, nn, a, 3, (0, [build(k, path + (k,), types[path + (k,)], v) for k, v in value.items()]))

    op = [d for d in doc.definitions if hasattr(d, "operation")][0]
    serial = op.operation == OperationType.MUTATION
    root = (0, False, False, 3, (2 if serial else 0, [build(k, (k,), types[(k,)], v) for k, v in r0.data.items()]))
    return root, leaves, sorted(types, key=repr)


def enc_node(n, keys):
    key, nn, a, tag, payload = n
    out = [keys.enc(key), int(nn), int(a), tag]
    if tag == 2:
        out.append(payload)
    elif tag == 3:
        kd, ks = payload
        out += [kd, len(ks)]
        for c in ks:
            out += enc_node(c, keys)
    return out


def count_nodes(n, pred):
    c = 1 if pred(n) else 0
    if n[3] == 3:
        c += sum(count_nodes(k, pred) for k in n[4][1])
    return c


def dec_path(out, i):
    n = out[i]
    return out[i + 1:i + 1 + n], i + 1 + n


def dec_data(out, i, keys, leaves):
    t = out[i]
    if t == 0:
        return ("errnull", None), i + 1
    if t == 1:
        return ("null", None), i + 1
    if t == 2:
        return ("leaf", leaves[out[i + 1]]), i + 2
    kd, cnt = out[i + 1], out[i + 2]
    i += 3
    items = []
    for _ in range(cnt):
        k = keys.dec(out[i])
        d, i = dec_data(out, i + 1, keys, leaves)
        items.append((k, d))
    return ("list" if kd == 1 else "obj", items), i


def plain(d):
    t, v = d
    if t in ("errnull", "null"):
        return None
    if t == "leaf":
        return v
    if t == "list":
        return [plain(x) for _, x in v]
    return {k: plain(x) for k, x in v}


def errnulls(d, path=()):
    t, v = d
    if t == "errnull":
        return [path]
    if t in ("list", "obj"):
        return [p for k, x in v for p in errnulls(x, path + (k,))]
    return []


def dec_answer(out, keys, leaves):
    if not out or out[0] >= 999990:
        return None
    final = out[0]
    data, i = dec_data(out, 1, keys, leaves)
    lists = []
    for _ in range(2):
        n = out[i]
        i += 1
        cur = []
        for _ in range(n):
            p, i = dec_path(out, i)
            cur.append(keys.unpath(p))
        lists.append(cur)
    n = out[i]
    i += 1
    evs = []
    for _ in range(n):
        t, bg = out[i], out[i + 1]
        p, i = dec_path(out, i + 2)
        if t == 2:
            o, i = dec_path(out, i)
            evs.append(("err", bool(bg), keys.unpath(p), keys.unpath(o)))
        else:
            evs.append((("call", "done", None, "cancel", "orphan")[t], bool(bg), keys.unpath(p)))
    return {"final": final == 1, "data": data if final == 1 else None, "skipped": lists[0], "pending": lists[1], "events": evs}


_REPORTED = set()


def report_once(ck, key, what, rep):
    """Violations with a stable key (usable as a `known` entry) are reported once per run, with the first input."""
    if key not in _REPORTED:
        _REPORTED.add(key)
        ck.violation(key, what, rep)


# --------------------------------------------------------------------------- one comparison


def observe(schema, q, doc, beh, order, tree_info, lp=False, signal=False, kinds=None, mode="default"):
    """Run the implementation under `order`; returns the observations and the model request (the schedule is the
    completion order the loop actually used)."""
    root, leaves, _paths = tree_info
    obs = run_real(schema, doc, beh, order, lp, signal, kinds, mode)
    keys = Keys()
    wire_tree = enc_node(root, keys)
    sched = [keys.path(p) for p in obs["completed"]]
    wire = [1, int(lp)] + wire_tree + [len(sched)] + [x for p in sched for x in [len(p)] + p]
    return {"q": q, "beh": beh, "order": order, "obs": obs, "keys": keys, "wire": wire, "root": root, "leaves": leaves,
            "lp": lp, "signal": signal, "kinds": kinds or {}, "mode": mode}


def compare(ck, m, schema, q, doc, beh, order, tree_info, rep_extra=None, lp=False, signal=False, kinds=None, mode="default"):
    """One request through implementation and model."""
    o = observe(schema, q, doc, beh, order, tree_info, lp, signal, kinds, mode)
    judge(ck, o, m.run_batch([o["wire"]])[0], rep_extra)


def judge(ck, o, out, rep_extra=None):
    q, beh, order, obs, keys, wire, root, leaves = (o[k] for k in ("q", "beh", "order", "obs", "keys", "wire", "root", "leaves"))
    ans = dec_answer(out, keys, leaves)
    n_async = count_nodes(root, lambda n: n[2])
    n_err = count_nodes(root, lambda n: n[3] == 0 or (n[3] == 1 and n[1]))
    canon = (q, repr(sorted(beh.items())), tuple(order), o.get("lp", False), o.get("signal", False), repr(sorted(o.get("kinds", {}).items())),
             o.get("mode", "default"))
    ck.note_case(("casync",) + canon, nontrivial=n_async >= 2 and n_err >= 1)
    key = f"async-model:{q}:{sorted(beh.items())!r}:{tuple(order)!r}:{o.get('lp', False)}:{o.get('signal', False)}:{o.get('mode', 'default')}"
    rep = {"kind": "casync", "lp": o.get("lp", False), "signal": o.get("signal", False), "executor": o.get("mode", "default"),
           "kinds": [[list(p), k] for p, k in sorted(o.get("kinds", {}).items(), key=repr)], "query": q, "behaviours": [[list(p), mo, wh] for p, (mo, wh) in sorted(beh.items(), key=repr)],
           "order": [list(p) for p in order], "completed": [list(p) for p in obs["completed"]], "wire": wire}
    if rep_extra:
        rep.update(rep_extra)
    if ans is None:
        ck.violation(key, f"model rejected the encoded request: {out[:3]}", dict(rep, relation="harness encoding"))
        return
    if obs["kind"] in ("hang", "raised", "cancelled"):
        ck.violation(key, f"execute() under completion order {order!r} ended as {obs['kind']}: {obs['result']!r}"[:300],
                     dict(rep, relation="execution completes for every completion order", impl=obs["kind"]))
        return
    res = obs["result"]
    f = res.formatted
    evs = ans["events"]
    lp = o.get("lp", False)
    m_errs = [(e[2], e[3]) for e in evs if e[0] == "err" and not e[1]]
    m_cancel = {e[2] for e in evs if e[0] == "cancel"}
    m_orphan = {e[2] for e in evs if e[0] == "orphan"}
    m_calls = [e[2] for e in evs if e[0] == "call" and not isinstance(e[2][-1], int)]
    m_done = {e[2] for e in evs if e[0] == "done"}
    # awaitables abandoned by the synchronous part of execute() outside a running loop are closed: they never run
    first_step = next((i for i, e in enumerate(evs) if e[0] == "done"), len(evs))
    m_closed = set() if lp else {e[2] for e in evs[:first_step] if e[0] == "orphan"}
    m_pending = set(ans["pending"])
    diffs = []
    if not ans["final"]:
        diffs.append("the implementation delivered a response but the model's root is not done after the same completions")
    else:
        if plain(ans["data"]) != f.get("data"):
            diffs.append(f"data: impl {f.get('data')!r} model {plain(ans['data'])!r}")
        r_paths = [tuple(e.get("path") or ()) for e in (f.get("errors") or [])]
        mo_paths = [o_ for _, o_ in m_errs]
        if set(r_paths) != set(mo_paths) or len(r_paths) != len(mo_paths):
            diffs.append(f"reported error paths: impl {sorted(r_paths, key=repr)} model {sorted(mo_paths, key=repr)}")
        elif r_paths != mo_paths:
            ck.count("casync_error_order_differs")
        if obs["positions"] is None and not obs.get("spied", True):
            pass  # the base Executor itself: no instance to look into
        elif obs["positions"] is None:
            if "CASYNC: CollectedErrors._error_positions not observable" not in ck.degraded:
                ck.degraded.append("CASYNC: CollectedErrors._error_positions not observable")
        elif obs["positions"] != {a for a, _ in m_errs}:
            diffs.append(f"nulled positions: impl {sorted(obs['positions'], key=repr)} model {sorted({a for a, _ in m_errs}, key=repr)}")
        # visible nulled positions = nulls of the data that are not null values
        natural = {p for p, (_mo, wh) in beh.items() if wh == "null"}
        vis_model = set(errnulls(ans["data"]))
        vis_impl = {p for p in c03.positions(f.get("data")) if c03.get_at(f.get("data"), p) == ("ok", None) and p not in natural} \
            if f.get("data") is not None else {()}
        if vis_model != vis_impl:
            diffs.append(f"positions nulled in data: impl {sorted(vis_impl, key=repr)} model {sorted(vis_model, key=repr)}")
    # futures at the moment the response is delivered: cancelled / still pending (background work, closed coroutines)
    futs = dict(obs["futures"])
    r_cancel = {lab for lab, stt in futs.items() if stt == "cancelled"}
    r_pending = {lab for lab, stt in futs.items() if stt == "pending"}
    r_done = {lab for lab, stt in futs.items() if stt == "done"}
    if r_cancel != m_cancel:
        diffs.append(f"cancelled futures: impl {sorted(r_cancel, key=repr)} model {sorted(m_cancel, key=repr)}")
    if r_pending != (m_pending | m_closed) - r_done:
        diffs.append(f"futures pending when the response was delivered: impl {sorted(r_pending, key=repr)} model pending "
                     f"{sorted(m_pending, key=repr)} closed {sorted(m_closed, key=repr)}")
    if not set(ans["skipped"]) <= m_closed:
        diffs.append(f"completions the model cannot replay {ans['skipped']} are not awaitables closed by the synchronous part {sorted(m_closed, key=repr)}")
    if r_done != (m_done | set(ans["skipped"])):
        diffs.append(f"completed futures: impl {sorted(r_done, key=repr)} model {sorted(m_done, key=repr)} + skipped {ans['skipped']}")
    # resolver invocations of the whole run, background work included
    r_calls_all = [p for ev, p in obs["log"] if ev == "call"][:obs["ncalls_at_finish"]]
    if r_calls_all != m_calls:
        diffs.append(f"resolver invocation sequence: impl {r_calls_all} model {m_calls}")
    r_calls_all = [p for ev, p in obs["log"] if ev == "call"]
    if m_orphan:
        ck.count("casync_runs_with_abandoned_awaitables")
    if m_cancel:
        ck.count("casync_runs_with_cancellation")
    if any(e[1] for e in evs):
        ck.count("casync_runs_with_background_steps")
    if lp:
        ck.count("casync_runs_inside_running_loop")
    for d in diffs[:3]:
        ck.violation(key, "model Exec/Async.v vs execute(): " + d,
                     dict(rep, relation="extracted model = implementation", impl=f, model_events=[list(map(str, e)) for e in evs][:60]))
    for k in obs.get("kinds_used", ()):
        ck.count("casync_awaitable_kind_" + k)
    if o.get("signal"):
        ck.count("casync_runs_with_unused_abort_signal")
    ck.count("casync_executor_class_" + o.get("mode", "default"))
    # when the response is delivered only background work (abandoned siblings) may still be running: a cancelled resolver
    # must have finished unwinding
    running = {}
    for ev, p in obs["log"][:obs["nlog_at_finish"]]:
        if ev == "begin":
            running[p] = True
        elif ev == "end":
            running.pop(p, None)
    late = [p for p in running if p not in m_pending]
    if late:
        report_once(ck, DELIVERY_KEY, f"the response was delivered while the resolver awaitable of {list(late[0])} was still running "
                    f"(model: {'cancelled' if late[0] in m_cancel else 'not pending'})",
                    dict(rep, relation="the response is delivered only after every awaited or cancelled resolver has finished", impl=f))
    # the serial clause on the implementation, including background work and the unwinding of cancelled awaitables
    if q.startswith("mutation"):
        root_keys = [c[0] for c in root[4][1]]
        running = {}
        for ev, p in obs["log"]:
            if ev == "begin":
                running[p] = root_keys.index(p[0])
            elif ev == "end":
                running.pop(p, None)
            elif ev == "call" and len(p) == 1:
                late = [x for x, ri in running.items() if ri < root_keys.index(p[0])]
                if late:
                    report_once(ck, UNWIND_KEY, f"root mutation field {p[0]!r} started while the awaitable of {list(late[0])} below an earlier "
                                 f"root field had not finished (or finished unwinding after its cancellation)",
                                 dict(rep, relation="each root mutation field starts only after the previous one and its whole subtree completed",
                                      impl=[[ev2, list(p2)] for ev2, p2 in obs["log"]][:80]))
                    break
        roots = list(dict.fromkeys(p[0] for p in r_calls_all if len(p) == 1))
        started = -1
        for p in r_calls_all:
            ri = roots.index(p[0]) if p[0] in roots else -1
            if len(p) == 1:
                started = max(started, ri)
            elif ri < started and not REPORT_ORPHAN_OVERLAP:
                ck.count("casync_mutation_background_work_overlaps_next_root")
                break
            elif ri < started:
                report_once(ck, ORPHAN_KEY, f"resolver {list(p)} below mutation root field {p[0]!r} was invoked after root field "
                             f"{roots[started]!r} had started (work left to the background by settle_in_background)",
                             dict(rep, relation="each root mutation field starts only after the previous one and its whole subtree completed",
                                  impl=[list(x) for x in r_calls_all]))
                break


# --------------------------------------------------------------------------- generation


def gen_behaviours(rng, paths, trial, p_async=0.35):
    beh = {}
    for p in paths:
        x = rng.random()
        mode = "async" if rng.random() < p_async else "sync"
        nonnull = p[-1] in ("req", "nnFriend", "nnFriends", "nn", "m3", "nnlist")
        lim = (0.2, 0.4) if nonnull and trial % 2 else (0.10, 0.17)
        what = "raise" if x < lim[0] else ("null" if x < lim[1] else "value")
        if mode != "sync" or what != "value":
            beh[p] = (mode, what)
    return beh


def orders_for(rng, labels, quick):
    if not labels:
        return [()]
    if len(labels) <= (3 if quick else 4):
        return list(itertools.permutations(labels))
    out = [tuple(rng.sample(labels, len(labels))) for _ in range(4 if quick else 24)]
    out.append(tuple(labels))
    out.append(tuple(reversed(labels)))
    return out


def exhaustive_small(ck, m):
    """All complete schedules of small trees inside the model: data and visible nulls equal the synchronous run
    (op 4) - the statement of C03_async_order_independent evaluated before/besides its proof."""
    rng = ck.rng
    cases = []

    n_async = [0]

    def gen(depth, key):
        nn, a = int(rng.random() < 0.4), int(rng.random() < 0.6)
        n_async[0] += a
        x = rng.random()
        if x < 0.2:
            return [key, nn, a, 0]
        if x < 0.3:
            return [key, nn, a, 1]
        if depth == 0 or x < 0.55:
            return [key, nn, a, 2, 5]
        n = rng.randint(1, 3)
        out = [key, nn, a, 3, rng.choice([0, 0, 1, 2]), n]
        for i in range(n):
            out += gen(depth - 1, i)
        return out
    for _ in range(300):
        n = rng.randint(1, 3)
        t = [0, 0, 0, 3, rng.choice([0, 2]), n]
        for i in range(n):
            t += gen(2, i)
        if n_async[0] <= 6:
            cases.append([4, rng.randint(0, 1)] + t + [12])
        n_async[0] = 0
    outs = m.run_batch(cases)
    for c, o in zip(cases, outs):
        if len(o) != 2 or o[0] != o[1] or o[0] == 0:
            ck.violation(f"async-exhaustive:{c}", f"model: {o} complete schedules (total, agreeing with the synchronous run)",
                         {"kind": "casync-exhaustive", "wire": c, "relation": "data(order) == data(sync) for every schedule of the model"})
        ck.count("casync_model_schedules_enumerated", o[0] if o else 0)


def core(ck, tier, model_ok, budget_s=None):
    """The scheduling correspondence, reporting into `ck` (./check CASYNC and a part of ./check C03)."""
    import sys
    import warnings
    warnings.filterwarnings("ignore", category=RuntimeWarning)
    sys.unraisablehook = lambda *_a: None
    _REPORTED.clear()
    for a in ASSUMPTIONS:
        if a not in ck.assumptions:
            ck.assumptions.append(a)
    if not model_ok:
        ck.degraded.append("CASYNC: model `async` not built, correspondence skipped")
        return
    from graphql import build_schema, parse
    quick = tier == "quick"
    budget = budget_s if budget_s is not None else (25 if quick else 420)
    t0 = time.time()
    rng = ck.rng
    m = Model(MODEL)
    exhaustive_small(ck, m)
    schema = build_schema(c03.SDL)
    for c in common.load_corpus(PID):
        run_corpus_case(ck, m, schema, c)
    for q, beh, order, *kinds in FIXED:
        doc = parse(q)
        for lp in (False, True):
            for signal in (False, True):
                for mode in EXEC_MODES:
                    compare(ck, m, schema, q, doc, beh, order, derive_tree(schema, doc, beh), lp=lp, signal=signal,
                            kinds=kinds[0] if kinds else None, mode=mode)
    queries = [q for q in c03.QUERIES + EXTRA_QUERIES]
    docs = [(q, parse(q)) for q in queries]
    base = {}
    for q, doc in docs:
        info = derive_tree(schema, doc, {})
        if info is None:
            ck.count("skipped_out_of_fragment")
            continue
        base[q] = info[2]
    ntrials = 40 if quick else 400
    nruns = 0
    stop = False
    for trial in range(1, ntrials + 1):
        for q, doc in docs:
            if q not in base:
                continue
            if time.time() - t0 > budget:
                stop = True
                break
            paths = base[q]
            beh = gen_behaviours(rng, paths, trial, p_async=rng.choice([0.3, 0.5]))
            info = derive_tree(schema, doc, beh)
            labels = [p for p, (mo, _) in sorted(beh.items(), key=repr) if mo == "async"]
            lp = rng.random() < 0.5
            signal = rng.random() < 0.25
            mode = rng.choice(("default", "default", "base-subclass", "base"))
            batch = [observe(schema, q, doc, beh, order, info, lp, signal, mode=mode) for order in orders_for(rng, labels, quick)]
            for o, out in zip(batch, m.run_batch([o["wire"] for o in batch])):
                judge(ck, o, out)
                nruns += 1
        if stop:
            ck.count("casync_stopped_on_time_budget")
            break
    ck.count("casync_runs", nruns)
    rule = ("CASYNC: the queries of c03 plus 8 with deeper non-null chains and serial roots x generated behaviour tables (each resolver "
            "position sync/awaitable x value/null/raise) x completion orders (all permutations up to 3 (quick) / 4 (thorough) awaitables, "
            "else sampled + FIFO + LIFO); execute() under the controlled loop vs the extracted model run with the completion order actually "
            "used, execute() called outside or inside the running loop: data, CollectedErrors positions, reported error paths, futures "
            "cancelled / completed / pending at delivery, sequence of resolver invocations incl. background work; direct predicate: no "
            "resolver below mutation root i runs after root j>i started; plus all maximal schedules of 300 small random trees enumerated "
            "inside the model against its synchronous run (data, outermost nulled positions, error cover, serial order). "
            "non-trivial = at least 2 awaitable positions and at least one failing position")
    ck.rule = (ck.rule + " || " + rule) if ck.rule else rule


def run_corpus_case(ck, m, schema, c):
    from graphql import parse
    try:
        doc = parse(c["query"])
        beh = {tuple(p): (mo, wh) for p, mo, wh in c["behaviours"]}
        order = [tuple(p) for p in c["order"]]
        info = derive_tree(schema, doc, beh)
    except Exception:  # noqa: BLE001
        ck.count("corpus_case_unusable")
        return
    if info is None:
        ck.count("corpus_case_unusable")
        return
    compare(ck, m, schema, c["query"], doc, beh, order, info, lp=bool(c.get("lp", False)), signal=bool(c.get("signal", False)),
            kinds={tuple(p): k for p, k in c.get("kinds", [])}, mode=c.get("executor", "default"))


def build():
    has_thms = (common.COQ / "theories" / "Properties" / f"{THMS}.v").exists()
    return common.build(PID, models=(MODEL,), extra_targets=(f"theories/Properties/{THMS}.vo",) if has_thms else ())


def account_proofs(ck, br):
    """Check.proofs for a theorem file that is not named after the check id."""
    saved = ck.pid
    try:
        ck.pid = THMS
        ok = ck.proofs(br)
    finally:
        ck.pid = saved
    return ok


def run(tier):
    ck = Check(PID, tier)
    br = build()
    account_proofs(ck, br)
    if not br.ok:
        return ck.finish()
    core(ck, tier, True)
    return ck.finish()


def replay(path):
    from graphql import build_schema
    c = json.loads(open(path).read())
    br = build()
    if not br.ok:
        print("build failed", br.failed_file)
        return 2
    ck = Check(PID + "-replay", "quick")
    if c.get("kind") == "casync-exhaustive":
        print(Model(MODEL).run_batch([c["wire"]]))
        return 0
    run_corpus_case(ck, Model(MODEL), build_schema(c03.SDL), c)
    for key, what, rep in ck.violations:
        print("STILL FAILING:", what)
    if not ck.violations:
        print("passes now")
    return 1 if ck.violations else 0
