"""C13 - a document that passes validation cannot go wrong at execution time."""
from __future__ import annotations

import json
import re
import time

from . import common, gen_exec as G
from .common import Check, Model

ASSUMPTIONS = [
    "C13 model: Exec/Typing.v (runtime-type-directed typing judgment + checker for FieldsOnCorrectType, ScalarLeafs, "
    "KnownArgumentNames, ProvidedRequiredArguments, ValuesOfCorrectType incl. input objects/OneOf, UniqueInputFieldNames, "
    "VariablesAreInputTypes, NoUndefinedVariables, VariablesInAllowedPosition (a OneOf field is a non-null position, as "
    "in the specification's IsNonNullPosition), KnownFragmentNames, NoFragmentCycles, the same-field part of "
    "OverlappingFieldsCanBeMerged; `conforms` for data graphs) over the execution model Exec/Spec.v (tied to /repo by "
    "C02's correspondence, repeated here on every executed case)",
    "schema_ok (defaults of arguments/input fields coerce, input field names distinct, OneOf fields nullable without "
    "default) is a hypothesis of the theorems; it is evaluated on every generated schema that validate_schema accepts",
    "validate()==[] => well_typed is checked on every generated document and mutant; the converse (model more "
    "permissive than validation) is counted, not a violation",
    "OverlappingFieldsCanBeMerged is modelled by the part execution relies on (same response key on one runtime "
    "object type => same field name, recursively through merged sub-selections)",
    "attribution of an error to the data: the value found in the data graph at the error path is a raising resolver, a "
    "null/absent value at a non-null type, a non-list at a list type, an unserialisable leaf, or an object whose "
    "__typename is not a possible type",
]


# --------------------------------------------------------------------------- mutants

NAME_POOL = G.FIELD_NAMES + ["x", "y", "z", "w", "k1", "nope", "__typename", "T0", "T1", "I0", "U0", "Query", "Color"]
LITS = ["1", "-3", "2.5", '"s"', "true", "null", "RED", "[1]", "[]", '["a", null]', "[[1]]", "$v0", "$zz", "99999999999",
        "{}", "{p: 1}", '{a: "x"}', "{a: null}", '{a: "x", b: "y"}', "{q: $v1}", "[{}]", "{t: {}}"]
TYPES = ["Int", "Int!", "[Int]", "[Int!]!", "String", "Boolean!", "Boolean", "ID", "Float!", "Color", "[Color!]", "T0", "[[String]]",
         "In0", "In0!", "[In0]", "Pick", "Pick!", "In1"]


def mutate(rng, text):
    """One small textual edit of a document (may or may not keep it valid)."""
    k = rng.randrange(10)

    def sub_random(pattern, repl):
        ms = list(re.finditer(pattern, text))
        if not ms:
            return None
        m = rng.choice(ms)
        r = repl(m) if callable(repl) else repl
        return text[:m.start()] + r + text[m.end():]

    if k == 0:      # another field / type / alias name
        return sub_random(r"(?<![$@\w])[A-Za-z_]\w*(?=[\s({:])", lambda m: rng.choice(NAME_POOL))
    if k == 1:      # another literal or variable as argument value
        return sub_random(r"(?<=: )(-?\d[\d.e]*|\"[^\"]*\"|true|false|null|\$\w+|[A-Z]+)(?=[,)\] ])",
                          lambda m: rng.choice(LITS))
    if k == 2:      # drop an argument list
        return sub_random(r"\((?![^)]*\$v\d+: )[^()]*\)", "")
    if k == 3:      # another variable type
        return sub_random(r"(?<=\$v\d: )[\[\]\w!]+|(?<=\$v\d\d: )[\[\]\w!]+", lambda m: rng.choice(TYPES))
    if k == 4:      # toggle a non-null marker in the variable definitions
        head, _, rest = text.partition(") {")
        if "$" not in head:
            return None
        t2 = sub_random(r"(?<=[\w\]])!(?=[ ,)=])", "") if rng.random() < 0.5 else None
        return t2 or text.replace(": Int ", ": Int! ", 1)
    if k == 5:      # drop a sub-selection
        return sub_random(r" \{ __typename \}", "")
    if k == 6:      # give a sub-selection to whatever precedes
        return sub_random(r"(?<=\w)(?= [a-z])", " { __typename }")
    if k == 7:      # drop a variable default
        return sub_random(r" = (\[[^\]]*\]|\"[^\"]*\"|[-\w.]+)(?=[,)])", "")
    if k == 8:      # another type condition
        return sub_random(r"(?<=\.\.\. on )\w+", lambda m: rng.choice(["T0", "T1", "T2", "I0", "I1", "U0", "Query", "Color"]))
    # add an unknown / duplicate argument
    return sub_random(r"(?<=\w)\((?=\w+: )", lambda m: "(" + rng.choice(["x: 1, ", "zz: 1, ", "y: null, "]))


# --------------------------------------------------------------------------- attribution

def classify_error(schema, data, path, fields):
    """Why the data graph explains an error at `path` - or None if it does not."""
    from graphql import (GraphQLList, GraphQLNonNull, is_abstract_type, is_leaf_type, is_object_type)
    cur, t = data, None
    for i, seg in enumerate(path):
        pre = tuple(path[: i + 1])
        if isinstance(seg, str):
            if pre not in fields:
                return None                     # the resolver was never called: not a data fault
            _, fname, rtype = fields[pre]
            cur = cur.get(fname) if isinstance(cur, dict) else None
            t = rtype
        else:
            while isinstance(t, GraphQLNonNull):
                t = t.of_type
            if not isinstance(t, GraphQLList) or not isinstance(cur, list) or seg >= len(cur):
                return None
            cur, t = cur[seg], t.of_type
    if isinstance(cur, G.Raise):
        return "raise"
    if isinstance(t, GraphQLNonNull):
        if cur is None:
            return "null_in_nonnull"
        t = t.of_type
    if cur is None:
        return None
    if isinstance(t, GraphQLList):
        return None if isinstance(cur, list) else "non_list"
    if is_leaf_type(t):
        try:
            v = t.coerce_output_value(cur)
            return "bad_leaf" if v is None else None
        except Exception:  # noqa: BLE001
            return "bad_leaf"
    if is_abstract_type(t):
        tn = cur.get("__typename") if isinstance(cur, dict) else None
        rt = schema.get_type(tn) if isinstance(tn, str) else None
        if rt is None or not is_object_type(rt) or not schema.is_sub_type(t, rt):
            return "unresolvable_type"
    return None


# --------------------------------------------------------------------------- one schema

def run_schema(ck, m, rng, n_docs, max_depth):
    from graphql import build_schema, parse, validate
    from graphql.language import ast as A
    from graphql.type import validate_schema
    gs = G.GSchema(rng)
    sdl = gs.sdl()
    try:
        schema = build_schema(sdl)
        errs = validate_schema(schema)
    except Exception as e:  # noqa: BLE001
        errs = [e]
    if errs:
        ck.count("generator_invalid_schema")
        return
    ck.count("schemas")
    wschema = G.enc_schema(schema)
    items = []      # dict(text, doc, valid, dg, mutant)
    for _ in range(n_docs):
        dg = G.DocGen(rng, gs, max_depth=max_depth)
        text = dg.document()
        cands = [(text, False)]
        for _ in range(2):
            t2 = mutate(rng, text)
            if t2 and t2 != text:
                cands.append((t2, True))
        for t, is_mut in cands:
            try:
                doc = parse(t)
            except Exception:  # noqa: BLE001
                ck.count("mutant_syntax_error" if is_mut else "generator_syntax_error")
                continue
            try:
                verrs = validate(schema, doc)
            except Exception as e:  # noqa: BLE001
                ck.count("validate_raised")
                continue
            ops = [d for d in doc.definitions if isinstance(d, A.OperationDefinitionNode)
                   and (dg.operation_name is None or (d.name and d.name.value == dg.operation_name))]
            if len(ops) != 1:
                continue
            try:
                wdoc = G.enc_doc(doc, dg.operation_name)
            except G.OutOfFragment as e:
                ck.count("skipped_out_of_fragment")
                continue
            items.append({"text": t, "doc": doc, "valid": not verrs, "dg": dg, "mutant": is_mut, "wdoc": wdoc,
                          "verr": verrs[0].message if verrs else None, "op": ops[0]})
    process(ck, m, rng, gs, schema, sdl, wschema, items, max_depth)


class FixedRequest:
    """Stands for the document generator of a corpus case."""

    def __init__(self, operation_name=None):
        self.operation_name, self.features, self.used_fields = operation_name, {"corpus"}, set()


def process(ck, m, rng, gs, schema, sdl, wschema, items, max_depth):
    """Typing direction for all items; execution checks for those validate() accepts."""
    # requests for the valid ones
    for it in items:
        if "variables" in it:
            continue                        # a corpus case brings its request
        it["variables"], it["data"], it["conforming_gen"] = {}, None, False
        if it["valid"]:
            dg = it["dg"]
            it["variables"] = dg.variables()
            root = "Mutation" if it["op"].operation.value == "mutation" else "Query"
            conforming = rng.random() < 0.6
            dgen = G.DataGen(rng, gs, dg.used_fields, p_bad=0.0 if conforming else rng.choice([0.03, 0.06]),
                             all_nonnull=True)
            data = dgen.obj(root, max_depth + 1)
            data.pop("__typename", None)
            it["data"], it["conforming_gen"] = data, conforming
    wires2, wires1 = [], []
    for it in items:
        try:
            payload = G.W(100, [], [wschema, it["wdoc"], G.enc_vars(it["variables"]), G.enc_data(it["data"])])
            it["payload"] = G.flatten(payload)
            if len(it["payload"]) > 150000:
                it["payload"] = None
                ck.count("skipped_too_large_for_the_wire")
        except G.OutOfFragment:
            it["payload"] = None
            ck.count("skipped_out_of_fragment")
    items = [it for it in items if it["payload"] is not None]
    flags = m.run_batch([[2] + it["payload"] for it in items])
    to_exec = []
    for it, fl in zip(items, flags):
        wt, wt_at, sok, req_ok, conf = fl
        it.update(wt=wt, wt_at=wt_at, req_ok=req_ok, conf=conf)
        kind = "mutant" if it["mutant"] else "generated"
        key = ("typing", sdl, it["text"])
        kid = "typing:" + common.hashlib.blake2b(repr(key).encode("utf-8", "surrogatepass"), digest_size=8).hexdigest()
        ck.note_case(key, nontrivial=it["mutant"] or bool(it["dg"].features))
        ck.count(f"{kind}_{'accepted' if it['valid'] else 'rejected'}_by_validate")
        if not sok:
            ck.violation(kid + ":schema", "a schema accepted by validate_schema has an argument default the model rejects",
                         {"relation": "valid schema => schema_ok", "sdl": sdl})
        if it["valid"] and not wt:
            ck.violation(kid, "validate() accepts the document but the model's typing judgment rejects it "
                              "(the soundness theorem does not cover it)",
                         {"relation": "validate(schema, doc) == [] => well_typed", "sdl": sdl, "document": it["text"],
                          "mutant": it["mutant"]})
        if not it["valid"]:
            ck.count("rejected_but_well_typed(model incompleteness)" if wt else "rejected_and_ill_typed")
            if wt:
                r = re.sub(r"'[^']*'", "'_'", it["verr"] or "")[:60]
                ck.extra.setdefault("incompleteness_reasons", {})
                ck.extra["incompleteness_reasons"][r] = ck.extra["incompleteness_reasons"].get(r, 0) + 1
            continue
        to_exec.append(it)
    # execution of the accepted documents
    shape_wires, shape_items = [], []
    model_out = m.run_batch([[1] + it["payload"] for it in to_exec])
    for it, mo in zip(to_exec, model_out):
        try:
            if G.null_directive_condition(schema, it["doc"], it["op"], it["variables"]):
                ck.count("skipped_out_of_fragment")
                ck.count("deferred_case_in_directive_condition(skipped)")
                continue
        except Exception:  # noqa: BLE001
            ck.count("skipped_out_of_fragment")
            continue
        try:
            r = G.run_impl(schema, it["doc"], it["data"], it["variables"], it["dg"].operation_name)
        except Exception as e:  # noqa: BLE001
            r = {"kind": "raised", "messages": [repr(e)]}
        model = G.dec_response(mo)
        key = ("exec", sdl, it["text"], json.dumps(it["variables"], sort_keys=True, default=repr),
               repr(G.data_to_jsonable(it["data"])))
        kid = "exec:" + common.hashlib.blake2b(repr(key).encode("utf-8", "surrogatepass"), digest_size=8).hexdigest()
        rep = {"sdl": sdl, "document": it["text"], "variables": it["variables"],
               "data": G.data_to_jsonable(it["data"]), "mutant": it["mutant"],
               "flags": {k: it[k] for k in ("wt", "wt_at", "req_ok", "conf")},
               "impl": repr({k: v for k, v in r.items() if k not in ("raw", "fields")})[:3000], "model": repr(model)[:2000]}
        if r["kind"] == "request-error":
            ck.count("variables_rejected")
            if it["req_ok"]:
                ck.violation(kid, "variable coercion of the implementation rejects values the model accepts", rep)
            continue
        if not it["req_ok"]:
            ck.violation(kid, "variable coercion of the implementation accepts values the model rejects", rep)
            continue
        if r["kind"] != "response":
            ck.violation(kid, f"execute_sync {r['kind']} on a validated request: {r['messages'][:1]}", rep)
            continue
        ck.note_case(key, nontrivial=True,
                     sample={"document": it["text"], "variables": it["variables"]}
                     if len(ck.samples) < 3 and len(it["text"]) < 300 else None)
        # the execution model must agree (C02's relation; a disagreement voids the transfer of the theorem)
        if model["kind"] != "response" or model["data"] != r["data"] or model["errors"] != r["errors"]:
            ck.violation(kid + ":model", "response differs from the specification model (see C02)", rep)
        # the spec-deferred case: statically well typed, but a nullable variable that is null sits in a
        # non-null position (well_typed_at the coerced variables = false)
        deferred = bool(it["wt"]) and it["wt_at"] == 0
        nerr = len(r["errors"])
        if it["conforming_gen"] and not it["conf"]:
            ck.count("generator_data_not_conforming")
        if it["conf"]:
            ck.count("conforming_data")
            if deferred:
                ck.count("deferred_case(null in nullable variable)")
                ck.count("deferred_case_with_errors" if nerr else "deferred_case_without_errors")
            else:
                ck.count("theorem_hypotheses_hold")
                if nerr:
                    ck.violation(kid, "a validated document reports errors on conforming data: "
                                 + "; ".join(r["messages"][:2]), rep)
                try:
                    shape_wires.append([4] + G.flatten(G.W(100, [], [wschema, it["wdoc"], G.enc_vars(it["variables"]),
                                                                      G.enc_pyjson(r["raw"])])))
                    shape_items.append((kid, rep))
                except G.OutOfFragment:
                    ck.count("skipped_out_of_fragment")
        else:
            ck.count("non_conforming_data")
            if deferred:
                ck.count("deferred_case(null in nullable variable)")
                continue
            for p in r["errors"]:
                why = classify_error(schema, it["data"], p, r["fields"])
                mc = model.get("causes", {}).get(p)
                if why is None:
                    ck.violation(kid, f"error at {list(p)} is not attributable to the data graph: "
                                 + "; ".join(r["messages"][:3]), dict(rep, path=list(p), model_cause=mc))
                else:
                    ck.count("error:" + why)
                    if mc is not None and mc != why:
                        ck.violation(kid + ":cause", f"error at {list(p)}: the data graph says {why}, the model {mc}",
                                     dict(rep, path=list(p)))
            # shape holds on every response, errors or not
            try:
                shape_wires.append([4] + G.flatten(G.W(100, [], [wschema, it["wdoc"], G.enc_vars(it["variables"]),
                                                                  G.enc_pyjson(r["raw"])])))
                shape_items.append((kid, rep))
            except G.OutOfFragment:
                ck.count("skipped_out_of_fragment")
    for (kid, rep), o in zip(shape_items, m.run_batch(shape_wires)):
        ck.count("shape_checked")
        if o != [1]:
            ck.violation(kid + ":shape", "response data does not have the shape the selection set and the types "
                                         "prescribe (extracted shape_ok = false)", rep)


def run(tier):
    ck = Check("C13", tier)
    ck.assumptions += ASSUMPTIONS
    br = common.build("C13", models=("exec", "rules13", "overlap"), extra_targets=("theories/Properties/C13rules.vo",))
    ck.proofs(br, extra_files=("C13rules",))
    if not br.ok:
        return ck.finish()
    m = Model("exec")
    t0 = time.time()
    n_schemas, n_docs = (20, 40) if tier == "quick" else (300, 120)
    budget = 55 if tier == "quick" else 900
    for c in common.load_corpus("C13"):
        run_corpus_case(ck, m, c)
    for i in range(n_schemas):
        if time.time() - t0 > budget:
            ck.count("stopped_on_time_budget")
            break
        run_schema(ck, m, ck.rng, n_docs, max_depth=ck.rng.choice([2, 3, 3, 4]))
    fragment_arguments(ck, 250 if tier == "quick" else 5000)
    ck.rule = ("per generated schema: type-directed documents (as C02) plus two textual mutants each (other name, other "
               "literal/variable, dropped arguments, other variable type, toggled non-null, dropped/added sub-selection, "
               "dropped default, other type condition, extra argument); (1) validate()==[] must imply extracted "
               "well_typed; (2) accepted documents are executed with accepted variables over conforming data (no "
               "errors, extracted shape_ok on the implementation's data) and over non-conforming data (every error "
               "attributable to the data; shape_ok); the spec-deferred case (a nullable variable that is null) is "
               "classified and counted. non-trivial = mutant or document using fragments/aliases/directives/variables, "
               "and every executed request")
    if br.ok:
        # the merge clause of the chain (C13_rules_sound assumes the overlap specification function is silent):
        # documents accepted by the real overlap rule must have no conflict under the extracted specification
        # function - on fragment-heavy documents incl. the memo-order templates of harness/c14.py
        from . import c14
        m_ov = Model("overlap")
        rng14 = ck.rng
        for _ in range(25 if tier == "quick" else 300):
            try:
                info = c14.gen_schema(rng14)
            except Exception:  # noqa: BLE001
                continue
            batch = []
            for j in range(30):
                g = c14.DocGen(rng14, info, rng14.choice([2, 2, 3, 4]))
                text = None
                if j % 3 == 2:
                    text = c14.template_document(rng14, info, g)
                elif j % 3 == 1:
                    text = c14.forwarding_document(rng14, info, g)
                batch.append((info.sdl, info.schema, text or g.document(rng14.randint(1, 3))))
            c14.compare_documents(ck, m_ov, batch)
        c14.compare_documents(ck, m_ov, c14.corpus_items(ck))
        c14.pairset_scripts(ck, m_ov, 400 if tier == "quick" else 4000)
        # abstract type resolution through is_type_of / resolve_type in every sync/awaitable mix: a valid document over
        # conforming data must execute without type errors under asynchronous predicates too (scenarios of harness/c03.py)
        from . import c03
        nty = c03.is_type_of_scenarios(ck, tier == "quick")
        ck.count("is_type_of_scenarios", nty)
        # the ten schema-dependent rules the typing judgment relies on: extracted models vs the real rules
        from . import crules13
        rule0 = ck.rule
        ck.assumptions += crules13.ASSUMPTIONS
        crules13.core(ck, tier, True, budget_s=20 if tier == "quick" else 240)
        ck.extra["rules13_rule"] = ck.rule
        ck.rule = rule0 + " (validation rules) see coverage.rules13_rule"
    return ck.finish()


# --------------------------------------------------------------------------- fragment arguments

FA_SDL = "type Query { t: T, ts: [T!]!, a: Int, b: String }\ntype T { a: Int, b: String, c: Boolean!, n: T }"


def _fa_data(depth=4):
    d = None
    for i in range(depth):
        d = {"a": i, "b": f"s{i}", "c": i % 2 == 0, "n": d}
    return {"t": d, "ts": [d, dict(d, a=9)], "a": 1, "b": "root"}


def fragment_arguments(ck, n):
    """Documents with fragment arguments (outside the Coq fragment; experimental_fragment_arguments):
    fragment variables in @skip/@include on fields, inline fragments and in the arguments of nested
    spreads, shadowing a same-named operation variable of a different value.  Direct predicates on
    the implementation: validate() accepts; over conforming data no errors; the response equals that
    of the equivalent document with the fragment arguments substituted by hand (spreads expanded to
    inline fragments)."""
    from graphql import build_schema, execute_sync, parse, validate
    rng = ck.rng
    schema = build_schema(FA_SDL)
    data = _fa_data()

    def cond(scope):
        """a Boolean! condition: literal, fragment variable in scope, or operation variable"""
        k = rng.random()
        if scope and k < 0.6:
            return ("var", rng.choice(scope))
        if k < 0.8:
            return ("lit", rng.choice(["true", "false"]))
        return ("op", rng.choice(["x", "y"]))

    def directive(scope):
        if rng.random() < 0.25:
            return []
        return [(d, cond(scope)) for d in rng.sample(["include", "skip"], rng.choice([1, 1, 2]))]

    def body(scope, depth, allow_nested):
        items = []
        for _ in range(rng.randint(1, 4)):
            k = rng.random()
            if k < 0.55 or depth <= 0:
                items.append(("field", rng.choice(["a", "b", "c", "k: a", "k2: b"]), directive(scope)))
            elif k < 0.85:
                items.append(("inline", rng.choice(["", " on T"]), directive(scope), body(scope, depth - 1, False)))
            elif allow_nested:
                allow_nested = False
                args = {"flag": cond(scope)}
                if rng.random() < 0.5:
                    args["g"] = cond(scope)
                items.append(("nested", "n", directive(scope), ("spread", "G", args)))
        if not items:
            items.append(("field", "c", directive(scope)))
        return items

    def show_cond(c, env):
        kind, v = c
        if kind == "lit":
            return v
        if kind == "op":
            return "$" + v
        return "$" + v if env is None else env[v]

    def show_dirs(ds, env):
        return "".join(f" @{d}(if: {show_cond(c, env)})" for d, c in ds)

    def show(items, env, frags):
        out = []
        for it in items:
            if it[0] == "field":
                out.append(it[1] + show_dirs(it[2], env))
            elif it[0] == "inline":
                out.append("..." + it[1] + show_dirs(it[2], env) + " { " + show(it[3], env, frags) + " }")
            else:
                out.append(it[1] + show_dirs(it[2], env) + " { " + show_spread(it[3], env, frags) + " }")
        return " ".join(out)

    def show_spread(sp, env, frags):
        _, name, args = sp
        if env is None:
            return f"...{name}(" + ", ".join(f"{k}: {show_cond(c, None)}" for k, c in args.items()) + ")"
        params, fbody = frags[name]
        env2 = {p: (show_cond(args[p], env) if p in args else dflt) for p, (_t, dflt) in params.items()}
        return "... on T { " + show(fbody, env2, frags) + " }"

    for _ in range(n):
        g_default = rng.choice(["true", "false"])
        frags = {"G": ({"flag": ("Boolean!", None), "g": ("Boolean", g_default)}, None),
                 "F": ({"flag": ("Boolean!", None), "g": ("Boolean", rng.choice(["true", "false"]))}, None)}
        # every fragment variable is used at least once (NoUnusedFragmentVariables)
        use_all = [("field", "kf: a", [(rng.choice(["include", "skip"]), ("var", "flag"))]),
                   ("inline", "", [(rng.choice(["include", "skip"]), ("var", "g"))], [("field", "kg: b", [])])]
        frags["G"] = (frags["G"][0], body(["flag", "g"], 2, False) + use_all)
        frags["F"] = (frags["F"][0], body(["flag", "g"], 2, True) + use_all)
        roots = []
        for f_ in rng.sample(["t", "ts"], rng.randint(1, 2)):
            fr = rng.choice(["F", "F", "G"])
            args = {"flag": cond([])}
            if rng.random() < 0.6:
                args["g"] = cond([])
            roots.append((f_, ("spread", fr, args)))
        # operation variables; `flag` and `g` exist at operation level too, with values of their own
        variables = {"x": rng.choice([True, False]), "y": rng.choice([True, False]),
                     "flag": rng.choice([True, False]), "g": rng.choice([True, False])}
        head = "query Q($x: Boolean!, $y: Boolean!, $flag: Boolean!, $g: Boolean!)"
        opsel = " ".join(f"{f_} {{ {show_spread(sp, None, frags)} }}" for f_, sp in roots)
        tail = " a @include(if: $flag) b @skip(if: $g) kx: a @include(if: $x) ky: b @skip(if: $y)"

        def fdef(name):
            params, fb = frags[name]
            ps = ", ".join(f"${p}: {t}" + (f" = {d}" if d is not None else "") for p, (t, d) in params.items())
            return f"fragment {name}({ps}) on T {{ {show(fb, None, frags)} }}"
        used = {sp[1] for _f, sp in roots}
        if any(it[0] == "nested" for it in frags["F"][1]) and "F" in used:
            used.add("G")
        text = f"{head} {{ {opsel}{tail} }}\n" + "\n".join(fdef(nm) for nm in sorted(used))
        expanded = f"{head} {{ " + " ".join(f"{f_} {{ {show_spread(sp, {}, frags)} }}" for f_, sp in roots) + tail + " }"
        try:
            doc = parse(text, experimental_fragment_arguments=True)
            doc2 = parse(expanded)
        except Exception as e:  # noqa: BLE001
            ck.count("fragment_argument_generator_error")
            ck.extra.setdefault("generator_errors", []).append(f"{e!r}: {text}"[:300])
            continue
        key = f"fragment-arguments:{text}:{sorted(variables.items())!r}"
        rep = {"relation": "fragment arguments = substitution by hand; validated => no errors on conforming data",
               "sdl": FA_SDL, "document": text, "expanded": expanded, "variables": variables}
        try:
            verrs = validate(schema, doc)
        except Exception as e:  # noqa: BLE001
            verrs = [e]
        if verrs:
            ck.count("fragment_argument_document_rejected")
            ck.extra.setdefault("fragment_argument_rejections", [])
            if len(ck.extra["fragment_argument_rejections"]) < 3:
                ck.extra["fragment_argument_rejections"].append(f"{verrs[0]!r}: {text}"[:400])
            continue
        try:
            r1 = execute_sync(schema, doc, root_value=data, variable_values=variables)
            r2 = execute_sync(schema, doc2, root_value=data, variable_values=variables)
        except Exception as e:  # noqa: BLE001
            ck.violation(key, f"execute_sync raised {type(e).__name__} on a validated document with fragment arguments", rep)
            continue
        ck.note_case(("fragment-arguments", text, repr(sorted(variables.items()))), nontrivial=True)
        ck.count("fragment_argument_cases")
        if r1.errors:
            ck.violation(key, "a validated document with fragment arguments reports errors on conforming data: "
                         + "; ".join(e.message for e in r1.errors[:2]), dict(rep, impl=repr(r1.data)))
        elif json.dumps(r1.data) != json.dumps(r2.data) or r2.errors:
            ck.violation(key, "the response of a document with fragment arguments differs from the response of the "
                              "document with the arguments substituted by hand",
                         dict(rep, impl=repr(r1.data), model=repr(r2.data)))


def run_corpus_case(ck, m, c):
    from graphql import build_schema, parse, validate
    from graphql.language import ast as A
    try:
        schema = build_schema(c["sdl"])
        doc = parse(c["document"])
        verrs = validate(schema, doc)
        opn = c.get("operation_name")
        ops = [d for d in doc.definitions if isinstance(d, A.OperationDefinitionNode)
               and (opn is None or (d.name and d.name.value == opn))]
        item = {"text": c["document"], "doc": doc, "valid": not verrs, "dg": FixedRequest(opn), "mutant": False,
                "wdoc": G.enc_doc(doc, opn), "verr": verrs[0].message if verrs else None, "op": ops[0],
                "variables": c.get("variables") or {}, "data": G.data_from_jsonable(c.get("data")),
                "conforming_gen": False}
        process(ck, m, ck.rng, None, schema, c["sdl"], G.enc_schema(schema), [item], 3)
    except Exception as e:  # noqa: BLE001
        ck.count("corpus_case_unusable")
        ck.extra.setdefault("corpus_errors", []).append(repr(e)[:200])


def replay(path):
    from graphql import build_schema, parse, validate
    c = json.loads(open(path).read())
    common.build("C13", models=("exec",))
    schema = build_schema(c["sdl"])
    doc = parse(c["document"])
    print("document:", c["document"])
    print("validate:", [e.message for e in validate(schema, doc)])
    data = G.data_from_jsonable(c.get("data"))
    variables = c.get("variables") or {}
    payload = G.flatten(G.W(100, [], [G.enc_schema(schema), G.enc_doc(doc), G.enc_vars(variables), G.enc_data(data)]))
    m = Model("exec")
    print("model flags [well_typed, well_typed_at(vars), schema_ok, vars_ok, conforms]:", m.run_batch([[2] + payload])[0])
    if data is not None:
        r = G.run_impl(schema, doc, data, variables)
        print("impl:", {k: v for k, v in r.items() if k not in ("raw", "fields")})
        print("model:", G.dec_response(m.run_batch([[1] + payload])[0]))
    return 1
