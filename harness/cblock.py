"""CBLOCK - block-string part of C08: print_block_string / re-indentation / lexer round trip.

Proofs: coq/theories/Properties/BlockStringThms.v (model Lang/BlockString.v + Lang/Lexer.v).
Correspondence: extracted model `blockstring` vs /repo on the same inputs.
"""
from __future__ import annotations

import itertools
import json
import re
import subprocess

from . import common
from .common import Check, Model, cps, from_cps

THMS = "Properties/BlockStringThms.v"
MODEL = "blockstring"

# LF CR VT FF U+001C U+0085 U+2028 quote backslash space tab a halfwidth-ideographic-full-stop U+1F600
ALPHA14 = ["\n", "\r", "\x0b", "\x0c", "\x1c", "\x85", " ", '"', "\\", " ", "\t", "a", "｡", "\U0001F600"]
ALPHA8 = ["\n", "\r", " ", '"', "\\", " ", "\t", "a"]
BLOCKY = set('\n\r"\\ \t')

ASSUMPTIONS = [
    "CBLOCK model: Lang/BlockString.v (print_block_string, is_printable_as_block_string, indent_by = textual "
    "'\\n' -> '\\n'+pad of printer.indent) and the block-string part of Lang/Lexer.v (read_block_loop, dedent, join_lf)",
    "values are lists of Unicode scalar values (lone surrogates outside); a value with a CR, or outside "
    "in_block_range, has no block-string representation at all and is outside the theorem (witness theorem "
    "out_of_range_refuted)",
    "print_ast places a block string so that its continuation lines are prefixed by 2 spaces per enclosing "
    "selection set / field list / argument list: checked on every run by the substring correspondence of (D)",
]


class _Distinct:
    """set of digests plus a counter for cases that are distinct by construction
    (exhaustive enumeration without repetition)."""

    def __init__(self):
        self.s, self.n = set(), 0

    def add(self, h):
        self.s.add(h)

    def __len__(self):
        return len(self.s) + self.n


# --------------------------------------------------------------------------- proofs accounting


def proofs(ck, br):
    """Check.proofs for a theorem file that is not named after the check id."""
    ck.checker_cmd = ("cd /verif/coq && coq_makefile -f _CoqProject <all theories/*.v> -o Makefile && make "
                      f"theories/{THMS}o && coqc -Q theories GV theories/{THMS}")
    deps = common.dep_closure([THMS])
    bad = common.scan_forbidden(deps)
    ck.extra["coq_files"] = deps
    if bad:
        ck.proof_breaks.append("forbidden construct: " + "; ".join(bad[:5]))
    f = common.COQ / "theories" / THMS
    names = re.findall(r"^\s*(?:Theorem|Lemma|Corollary)\s+(\w+)", f.read_text(), re.M) if f.exists() else []
    ck.theorems = names
    ck.obligations = len(names)
    ck.partial = [n for n in names if n.endswith("_partial")]
    if not br.ok:
        ck.discharged = 0
        ck.proof_breaks.append(f"build failed at {br.failed_file}: " + br.log[-800:])
        return False
    lock = common._lock()
    try:
        p = subprocess.run(["timeout", "900", "coqc", "-Q", "theories", "GV", "-w",
                            "-notation-overridden,-deprecated-hint-without-locality", f"theories/{THMS}"],
                           cwd=common.COQ, capture_output=True, text=True)
    finally:
        lock.close()
    out = p.stdout + p.stderr
    assumptions = []
    for b in re.split(r"(?=Closed under the global context|Axioms:)", out):
        if b.startswith("Closed under"):
            assumptions.append("Closed under the global context")
        elif b.startswith("Axioms:"):
            assumptions.append(" ".join(b.split())[:600])
    ck.print_assumptions = assumptions
    if p.returncode == 0 and len(assumptions) == len(names) and all(a.startswith("Closed") for a in assumptions):
        ck.discharged = len(names)
        return True
    ck.discharged = 0
    if p.returncode != 0:
        ck.proof_breaks.append(f"coqc {THMS} failed: " + out[-800:])
    else:
        ck.proof_breaks.append(f"{THMS}: {len(names)} theorems but Print Assumptions gave {assumptions}")
    return False


# --------------------------------------------------------------------------- implementation side


def impl_print(v, minimize):
    from graphql.language.block_string import print_block_string
    try:
        return cps(print_block_string(v, minimize))
    except Exception as e:  # noqa: BLE001
        return ["raised", type(e).__name__]


def impl_printable(v):
    from graphql.language.block_string import is_printable_as_block_string
    try:
        return [1 if is_printable_as_block_string(v) else 0]
    except Exception as e:  # noqa: BLE001
        return ["raised", type(e).__name__]


def impl_first_token(text):
    """('ok', kind name, value, end) | ('syntax', pos) | ('raised', name)."""
    from graphql.error import GraphQLSyntaxError
    from graphql.language import Lexer, Source
    try:
        t = Lexer(Source(text)).advance()
        return ("ok", t.kind.name, t.value, t.end)
    except GraphQLSyntaxError as e:
        return ("syntax", e.positions[0] if e.positions else -1)
    except Exception as e:  # noqa: BLE001
        return ("raised", type(e).__name__)


def impl_block_value(raw):
    """encoded like RunBlockstring.enc_out (block_value raw)."""
    r = impl_first_token('"""' + raw + '"""')
    if r[0] == "ok":
        if r[1] != "BLOCK_STRING":
            return ["kind", r[1]]
        return [0] + cps(r[2])
    if r[0] == "syntax":
        return [1, r[1]]
    return ["raised", r[1]]


def lws(l):
    i = 0
    for c in l:
        if c not in " \t":
            return i
        i += 1
    return i


def blank(l):
    return lws(l) == len(l)


def in_range_py(v):
    """the characterisation, written independently of the Coq text"""
    if "\r" in v:
        return False
    if v == "":
        return True
    ls = v.split("\n")
    if blank(ls[0]) or blank(ls[-1]):
        return False
    return len(ls) == 1 or any((not blank(l)) and lws(l) == 0 for l in ls[1:]) or lws(ls[0]) == 0


def indent_all_py(pads, s):
    for p in pads:
        s = s.replace("\n", "\n" + p)
    return s


def enc_pads(pads):
    out = [len(pads)]
    for p in pads:
        out += [len(p)] + cps(p)
    return out


def model_batch(m, cases, chunk=200000):
    out = []
    for i in range(0, len(cases), chunk):
        out += m.run_batch(cases[i:i + chunk])
    return out


# --------------------------------------------------------------------------- documents


def _mk():
    from graphql.language import (ArgumentNode, DocumentNode, FieldDefinitionNode, FieldNode,
                                  InputValueDefinitionNode, NamedTypeNode, NameNode, ObjectTypeDefinitionNode,
                                  OperationDefinitionNode, OperationType, SelectionSetNode, StringValueNode,
                                  VariableDefinitionNode, VariableNode)

    def name(x):
        return NameNode(value=x)

    def sv(v):
        return StringValueNode(value=v, block=True)

    def op_doc(v, level):
        """block string under `level` enclosing indentation levels (0: variable default value)."""
        if level == 0:
            return DocumentNode(definitions=(OperationDefinitionNode(
                operation=OperationType.QUERY, name=name("q"),
                variable_definitions=(VariableDefinitionNode(
                    variable=VariableNode(name=name("v")), type=NamedTypeNode(name=name("String")),
                    default_value=sv(v)),),
                selection_set=SelectionSetNode(selections=(FieldNode(name=name("f")),))),))
        sel = FieldNode(name=name("f"), arguments=(ArgumentNode(name=name("a"), value=sv(v)),))
        for _ in range(level - 1):
            sel = FieldNode(name=name("g"), selection_set=SelectionSetNode(selections=(sel,)))
        return DocumentNode(definitions=(OperationDefinitionNode(
            operation=OperationType.QUERY, selection_set=SelectionSetNode(selections=(sel,))),))

    def sdl_doc(v):
        """descriptions at indentation levels 0 (type), 1 (field), 2 (argument)."""
        arg = InputValueDefinitionNode(name=name("a"), description=sv(v), type=NamedTypeNode(name=name("Int")))
        fld = FieldDefinitionNode(name=name("f"), description=sv(v), arguments=(arg,),
                                  type=NamedTypeNode(name=name("Int")))
        return DocumentNode(definitions=(ObjectTypeDefinitionNode(name=name("Q"), description=sv(v), fields=(fld,)),))

    return op_doc, sdl_doc


def strings_of(node, out):
    """all StringValueNode values of a parsed document in document order"""
    from graphql.language import Node, StringValueNode
    if isinstance(node, StringValueNode):
        out.append((node.value, node.block))
        return
    for k in node.keys:
        v = getattr(node, k, None)
        if isinstance(v, Node):
            strings_of(v, out)
        elif isinstance(v, (list, tuple)):
            for x in v:
                if isinstance(x, Node):
                    strings_of(x, out)


# --------------------------------------------------------------------------- the check


def run(tier):
    ck = Check("CBLOCK", tier)
    ck.nontrivial = _Distinct()
    ck.assumptions += ASSUMPTIONS
    br = common.build("CBLOCK", models=(MODEL,), extra_targets=(f"theories/{THMS}o",))
    proofs(ck, br)
    core(ck, tier, br.ok)
    return ck.finish()


def core(ck, tier, model_ok):
    """The block-string correspondence and round-trip exploration, reporting into `ck`
    (used by `./check CBLOCK` and as the block-string part of `./check C08`)."""
    from graphql import parse, print_ast

    m = Model(MODEL) if model_ok else None
    quick = tier == "quick"
    rng = ck.rng
    nv = 4 if quick else 5          # values: all strings of length <= nv
    nraw = 5 if quick else 6        # raw contents: all strings of length <= nraw (+ length 7 over 8 symbols)
    ck.rule = (
        f"(A) print_block_string(v, minimize) and is_printable_as_block_string(v): implementation vs extracted model, exact "
        f"text, on all strings of length <= {nv} over the 14-symbol alphabet (LF CR VT FF U+001C U+0085 U+2028 quote "
        "backslash space tab a U+FF61 U+1F600), both minimize modes, plus random long values around the 70-character "
        f"threshold and low control characters; (B) value of the token lexed from \"\"\"raw\"\"\" vs the model's block_value on "
        f"all raw strings of length <= {nraw}" + ("" if quick else " and of length 7 over an 8-symbol sub-alphabet") +
        "; every lexed value must satisfy in_block_range (model and an independent Python reading), every string of (A) in "
        "range must be a lexed value or round-trip; (C) every value of the lexer's range (from B, raw length <= "
        f"{nv}): re-lexing the implementation's printed text under 5 indentation stacks and both minimize modes gives the "
        "value back and leaves the tail (implementation and model); (D) the same values in programmatic trees "
        "(StringValueNode block=True) at 0-3 enclosing indentation levels (variable default, field argument nested 0-2 deep) "
        "and as type/field/argument descriptions: parse(print_ast(doc)) gives the value back, print_ast is a fixed point, "
        "and the printed document contains the model's indent_all text. non-trivial = the string contains one of "
        "LF CR quote backslash space tab")

    PRIO = {"roundtrip": 0, "tree": 0, "printable-range": 1, "range-sound": 1, "range-complete": 1, "lex": 2,
            "model-roundtrip": 2, "range-def": 2, "printable": 3, "print": 3, "layout": 4}
    pending, per_kind = [], {}

    def viol(key, what, rep):
        k = rep.get("kind")
        per_kind[k] = per_kind.get(k, 0) + 1
        if per_kind[k] <= 100:
            pending.append((PRIO.get(k, 5), len(pending), key, what, rep))

    def flush():
        # property violations (round trip) first, model/implementation text differences after
        for _, _, key, what, rep in sorted(pending, key=lambda x: (x[0], x[1])):
            ck.violation(key, what, rep)
        for k, n in per_kind.items():
            ck.count(f"violations_{k}", n)

    def note_enum(nontrivial):
        ck.evaluations += 1
        if nontrivial:
            ck.nontrivial.n += 1

    # ------------------------------------------------------------------ (A) print / printable
    values = ["".join(s) for s in itertools.chain.from_iterable(
        itertools.product(ALPHA14, repeat=k) for k in range(nv + 1))]
    extra_vals = []
    for c in common.load_corpus("CBLOCK"):
        if "value" in c:
            extra_vals.append(from_cps(c["value"]))
    pool = ALPHA14 + ["a"] * 6 + ["\x00", "\x01", "\x08", "\x0e", "\x0f", "\x10", "\x1f", "\x7f", "b", "#", "'",
                                    "\ufeff", "\ud7ff", "\ue000", "\U0010ffff"]
    for _ in range(1500 if quick else 20000):
        k = rng.choice([rng.randint(5, 12), rng.randint(66, 75), rng.randint(5, 90)])
        extra_vals.append("".join(rng.choice(pool) for _ in range(k)))
    for base in ("a", " a", "a\"", "a\\", "a\"\"\"", "a\nb", "a\n b"):
        for k in (68, 69, 70, 71, 72):
            extra_vals.append(base + "a" * max(0, k - len(base)))
            extra_vals.append("a" * max(0, k - len(base)) + base)
    nA = 0
    allv = values + extra_vals
    if m is not None:
        outs_p0 = model_batch(m, [[1, 0] + cps(v) for v in allv])
        outs_p1 = model_batch(m, [[1, 1] + cps(v) for v in allv])
        outs_pr = model_batch(m, [[2] + cps(v) for v in allv])
        outs_rg = model_batch(m, [[4] + cps(v) for v in allv])
    else:
        outs_p0 = outs_p1 = outs_pr = outs_rg = [None] * len(allv)
    model_range = {}
    for i, v in enumerate(allv):
        nt = bool(BLOCKY & set(v))
        if i < len(values):
            note_enum(nt)
        else:
            ck.note_case(("A", v), nontrivial=nt)
        nA += 1
        for mini, want in ((False, outs_p0[i]), (True, outs_p1[i])):
            got = impl_print(v, mini)
            if want is not None and got != want:
                viol(f"print:{v!r}:{mini}",
                             f"print_block_string({v!r}, minimize={mini}) = "
                             f"{from_cps(got) if got and got[0] != 'raised' else got!r}, model gives {from_cps(want)!r}",
                             {"kind": "print", "relation": "print_block_string = model (exact text)", "value": cps(v),
                              "minimize": mini, "impl": got, "model": want})
        got = impl_printable(v)
        if outs_pr[i] is not None and got != outs_pr[i]:
            viol(f"printable:{v!r}", f"is_printable_as_block_string({v!r}) = {got}, model gives {outs_pr[i]}",
                         {"kind": "printable", "relation": "is_printable_as_block_string = model", "value": cps(v),
                          "impl": got, "model": outs_pr[i]})
        rg = in_range_py(v)
        if outs_rg[i] is not None:
            model_range[v] = outs_rg[i] == [1]
            if (outs_rg[i] == [1]) != rg:
                viol(f"range-def:{v!r}", f"in_block_range({v!r}): Coq definition gives {outs_rg[i]}, the independent "
                             f"Python reading of the characterisation gives {rg}",
                             {"kind": "range-def", "relation": "in_block_range (Coq) = characterisation (Python)", "value": cps(v)})
        if got == [1] and not rg:
            viol(f"printable-range:{v!r}", f"{v!r} is printable as a block string but outside the lexer's range",
                         {"kind": "printable-range", "relation": "is_printable_as_block_string v -> in_block_range v", "value": cps(v)})
    ck.count("print_values", nA)
    ck.samples.append({"value": allv[len(values) // 2], "printed": from_cps(impl_print(allv[len(values) // 2], False))})

    # ------------------------------------------------------------------ (B) lexer denotation
    lexed = set()            # values from raws of length <= nv (used by C, D)
    lexed_all = set()
    nB = nok = 0

    def lex_block(raws, collect_small):
        nonlocal nB, nok
        outs = model_batch(m, [[3] + cps(r) for r in raws]) if m is not None else [None] * len(raws)
        for r, want in zip(raws, outs):
            got = impl_block_value(r)
            nB += 1
            note_enum(bool(BLOCKY & set(r)))
            if want is not None and got != want:
                viol(f"lex:{r!r}", f'lexing """{r}""" ({r!r}): implementation {describe(got)}, model {describe(want)}',
                             {"kind": "lex", "relation": "block string token value = model", "raw": cps(r), "impl": got, "model": want})
            if got and got[0] == 0:
                nok += 1
                v = from_cps(got[1:])
                lexed_all.add(v)
                if collect_small and len(r) <= nv:
                    lexed.add(v)

    for k in range(nraw + 1):
        buf = []
        for tup in itertools.product(ALPHA14, repeat=k):
            buf.append("".join(tup))
            if len(buf) >= 400000:
                lex_block(buf, True)
                buf = []
        lex_block(buf, True)
    if not quick:
        buf = []
        for tup in itertools.product(ALPHA8, repeat=7):
            buf.append("".join(tup))
            if len(buf) >= 400000:
                lex_block(buf, False)
                buf = []
        lex_block(buf, False)
    ck.count("raw_contents", nB)
    ck.count("raw_lexed_ok", nok)
    ck.count("distinct_lexed_values", len(lexed_all))
    # range: every lexed value is in range (python reading + Coq definition) ...
    lv = sorted(lexed_all)
    outs = model_batch(m, [[4] + cps(v) for v in lv]) if m is not None else [None] * len(lv)
    for v, o in zip(lv, outs):
        if not in_range_py(v) or (o is not None and o != [1]):
            viol(f"range-sound:{v!r}", f"the lexer yields the block value {v!r}, which is outside in_block_range",
                         {"kind": "range-sound", "relation": "lexed block value -> in_block_range", "value": cps(v)})
    # ... and every short string in range is a lexed value (exactness of the characterisation)
    nexact = 0
    for v in values:
        if in_range_py(v):
            nexact += 1
            if v not in lexed_all:
                r = impl_block_value(impl_body(v))
                if r != [0] + cps(v):
                    viol(f"range-complete:{v!r}", f"{v!r} satisfies in_block_range but no raw content was found for it",
                                 {"kind": "range-complete", "relation": "in_block_range v -> some raw denotes v", "value": cps(v)})
    ck.count("values_in_range", nexact)
    ck.exhaustive = True

    # ------------------------------------------------------------------ (C) token-level round trip, impl and model
    stacks = [[], ["  "], ["  ", "  "], ["\t"], [" \t", "  ", "\t\t"]]
    rvals = sorted(lexed)
    if quick and len(rvals) > 12000:
        rvals = rng.sample(rvals, 12000)
    for v in extra_vals:
        if in_range_py(v) and all(not (0xD800 <= ord(c) <= 0xDFFF) for c in v):
            rvals.append(v)
    cases, meta = [], []
    for v in rvals:
        nt = bool(BLOCKY & set(v))
        for mini in (False, True):
            p = impl_print(v, mini)
            if p and p[0] == "raised":
                viol(f"print-raises:{v!r}", f"print_block_string({v!r}) raised {p[1]}", {"kind": "print", "value": cps(v), "minimize": mini})
                continue
            ptxt = from_cps(p)
            for st in stacks:
                ck.note_case(("C", v, mini, tuple(st)), nontrivial=nt)
                q = indent_all_py(st, ptxt) + " x"
                r = impl_first_token(q)
                if not (r[0] == "ok" and r[1] == "BLOCK_STRING" and r[2] == v and q[r[3]:] == " x"):
                    viol(f"roundtrip:{v!r}:{mini}:{st!r}",
                                 f"block value {v!r} printed (minimize={mini}) under indentation {st!r} as {q!r} lexes back as {r!r}",
                                 {"kind": "roundtrip", "relation": "lex(indent(print_block_string v)) = v", "value": cps(v),
                                  "minimize": mini, "pads": [cps(x) for x in st], "printed": q, "impl": repr(r)})
                cases.append([6, 1 if mini else 0] + enc_pads(st) + cps(v))
                meta.append((v, mini, st))
    if m is not None:
        for (v, mini, st), o in zip(meta, model_batch(m, cases)):
            if o != [0, 2] + cps(v):
                viol(f"model-roundtrip:{v!r}:{mini}:{st!r}",
                             f"model: block value {v!r} (minimize={mini}, pads {st!r}) re-lexes as {o}",
                             {"kind": "model-roundtrip", "relation": "theorem instance on the extracted model", "value": cps(v),
                              "minimize": mini, "pads": [cps(x) for x in st], "model": o})
    ck.count("roundtrip_values", len(rvals))

    # ------------------------------------------------------------------ (D) programmatic trees through print_ast / parse
    op_doc, sdl_doc = _mk()
    dvals = rvals if not quick else (rvals if len(rvals) <= 6000 else rng.sample(rvals, 6000))
    lv_cases, lv_meta = [], []
    nD = 0
    for v in dvals:
        nt = bool(BLOCKY & set(v))
        docs = [(f"level{k}", op_doc(v, k), [k], 1) for k in range(4)] + [("sdl", sdl_doc(v), [0, 1, 2], 3)]
        for tag, doc, levels, nstr in docs:
            nD += 1
            ck.note_case(("D", v, tag), nontrivial=nt)
            key = f"tree:{v!r}:{tag}"
            try:
                text = print_ast(doc)
                back = parse(text, no_location=True)
                found = []
                strings_of(back, found)
            except Exception as e:  # noqa: BLE001
                viol(key, f"block string value {v!r} ({tag}): print_ast/parse raised {type(e).__name__}: {str(e)[:80]}",
                             {"kind": "tree", "relation": "print then parse", "value": cps(v), "where": tag})
                continue
            if [x for x, _ in found] != [v] * nstr:
                viol(key, f"block string value {v!r} ({tag}) reparsed as {[x for x, _ in found]!r}",
                             {"kind": "tree", "relation": "string value preserved character for character", "value": cps(v),
                              "where": tag, "printed": text, "impl": [cps(x) for x, _ in found]})
                continue
            if not all(b for _, b in found):
                viol(key, f"block string value {v!r} ({tag}) came back in quoted form",
                             {"kind": "tree", "relation": "block flag preserved", "value": cps(v), "where": tag, "printed": text})
            try:
                if print_ast(back) != text:
                    viol(key, f"printing is not a fixed point for block string {v!r} ({tag})",
                                 {"kind": "tree", "relation": "print(parse(print d)) == print d", "value": cps(v), "where": tag})
            except Exception as e:  # noqa: BLE001
                viol(key, f"re-printing block string {v!r} ({tag}) raised {type(e).__name__}",
                             {"kind": "tree", "relation": "print(parse(print d))", "value": cps(v), "where": tag})
            if len(v) <= 40:   # long argument lists are wrapped onto extra lines (one more level); not compared
                for k in levels:
                    lv_cases.append([5, 0] + enc_pads(["  "] * k) + cps(v))
                    lv_meta.append((v, tag, k, text))
    if m is not None:
        for (v, tag, k, text), o in zip(lv_meta, model_batch(m, lv_cases)):
            if from_cps(o) not in text:
                viol(f"layout:{v!r}:{tag}:{k}",
                             f"print_ast output for block string {v!r} ({tag}) does not contain the model's text for {k} indentation levels",
                             {"kind": "layout", "relation": "print_ast re-indents a block string line by line (2 spaces per level)",
                              "value": cps(v), "where": tag, "level": k, "printed": text, "model": o})
    ck.count("tree_documents", nD)
    ck.samples.append({"value": dvals[len(dvals) // 2] if dvals else "", "document": print_ast(op_doc(dvals[len(dvals) // 2], 2)) if dvals else ""})
    flush()


def impl_body(v):
    """raw content chosen by the implementation's printer for v"""
    from graphql.language.block_string import print_block_string
    return print_block_string(v)[3:-3]


def describe(enc):
    if not enc:
        return enc
    if enc[0] == 0:
        return {"value": from_cps(enc[1:])}
    if enc[0] == 1:
        return {"syntax_error_at": enc[1]}
    return {"other": enc}


# --------------------------------------------------------------------------- replay


def replay(path):
    """Re-evaluate a recorded failing input on the current /repo and the current model."""
    d = json.loads(open(path).read())
    kind = d.get("kind")
    print(json.dumps({k: d[k] for k in d if k not in ("printed",)}, indent=1, default=repr)[:3000])
    br = common.build("CBLOCK", models=(MODEL,), extra_targets=(f"theories/{THMS}o",))
    m = Model(MODEL) if br.ok else None
    fails = False
    if kind in ("print", "printable", "range-def", "printable-range", "range-sound", "range-complete",
                "roundtrip", "model-roundtrip", "tree", "layout"):
        v = from_cps(d["value"])
        for mini in (False, True):
            got = impl_print(v, mini)
            want = m.run_batch([[1, 1 if mini else 0] + cps(v)])[0] if m else None
            print(f"print_block_string({v!r}, {mini}): impl {from_cps(got) if got and got[0] != 'raised' else got!r}"
                  f" model {from_cps(want) if want is not None else None!r}")
            fails |= want is not None and got != want
            if got and got[0] != "raised" and in_range_py(v):
                for st in ([], ["  "], ["  ", "  "], ["\t"]):
                    q = indent_all_py(st, from_cps(got)) + " x"
                    r = impl_first_token(q)
                    ok = r[0] == "ok" and r[1] == "BLOCK_STRING" and r[2] == v and q[r[3]:] == " x"
                    if not ok:
                        print(f"  round trip under {st!r}: {q!r} -> {r!r}")
                    fails |= not ok
        gp = impl_printable(v)
        wp = m.run_batch([[2] + cps(v)])[0] if m else None
        print(f"is_printable_as_block_string: impl {gp} model {wp}; in_block_range (python) {in_range_py(v)}")
        fails |= wp is not None and gp != wp
        fails |= gp == [1] and not in_range_py(v)
        if kind in ("tree", "layout") and in_range_py(v):
            from graphql import parse, print_ast
            op_doc, sdl_doc = _mk()
            for doc in [op_doc(v, k) for k in range(4)] + [sdl_doc(v)]:
                try:
                    text = print_ast(doc)
                    found = []
                    strings_of(parse(text, no_location=True), found)
                    ok = all(x == v for x, _ in found) and found
                except Exception as e:  # noqa: BLE001
                    ok = False
                    text = repr(e)
                if not ok:
                    print(f"  tree: {text!r}")
                fails |= not ok
    elif kind == "lex":
        r = from_cps(d["raw"])
        got = impl_block_value(r)
        want = m.run_batch([[3] + cps(r)])[0] if m else None
        print(f'"""{r!r}""": impl {describe(got)} model {describe(want)}')
        fails |= want is not None and got != want
    else:
        print("(no re-evaluation for this record)")
        return 0
    print("STILL FAILING" if fails else "passes now")
    return 1 if fails else 0
