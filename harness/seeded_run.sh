#!/bin/sh
# usage: seeded_run.sh <patch.diff> <Cxx> [tier]
# Runs the check against a scratch copy of /repo's HEAD with the patch applied (VERIF_REPO), so that
# /repo itself is never modified while other checks may be reading it.  Equivalent to
# `git -C /repo apply <patch>; ./check Cxx; git -C /repo checkout -- .`.
patch="$1"; pid="$2"; tier="${3:-quick}"
d=$(mktemp -d /tmp/seedrun.XXXXXX) || exit 2
git -C /repo archive HEAD | tar -x -C "$d" || exit 2
( cd "$d" && git init -q . >/dev/null 2>&1 && git apply "$patch" ) || { echo "patch does not apply"; rm -rf "$d"; exit 2; }
cd /verif && VERIF_REPO="$d" ./check "$pid" --tier "$tier" > "$d.out" 2>&1; rc=$?
grep -c '^VIOLATION' "$d.out" | sed "s/^/violations: /"
grep '^VIOLATION' "$d.out" | head -3
tail -1 "$d.out"
echo "exit=$rc"
rm -rf "$d" "$d.out"
