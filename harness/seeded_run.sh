#!/bin/sh
# usage: seeded_run.sh <patch.diff> <Cxx> [tier]   -- applies the patch to /repo, runs the check, reverts.
patch="$1"; pid="$2"; tier="${3:-quick}"
cd /repo || exit 2
if ! git diff --quiet; then echo "/repo is dirty; refusing"; exit 2; fi
git apply "$patch" || { echo "patch does not apply"; exit 2; }
cd /verif && ./check "$pid" --tier "$tier" > /tmp/seeded_out.txt 2>&1; rc=$?
cd /repo && git checkout -- . 
grep -c '^VIOLATION' /tmp/seeded_out.txt | sed "s/^/violations: /"
grep '^VIOLATION' /tmp/seeded_out.txt | head -3
tail -1 /tmp/seeded_out.txt
echo "exit=$rc"
