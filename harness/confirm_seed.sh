#!/bin/sh
# usage: confirm_seed.sh <seeded dir>  -- confirms: demo passes on HEAD, fails with the patch, full test suite passes with the patch.
d=$(cd "$1" && pwd); name=$(basename "$d")
w=$(mktemp -d /tmp/confirm.XXXXXX) || exit 2
git -C /repo archive HEAD | tar -x -C "$w" || exit 2
r_clean="n/a"; r_patched="n/a"
if [ -f "$d/demo.py" ]; then
  ( cd "$w" && PYTHONPATH="$w/src" timeout 300 /venv/bin/python "$d/demo.py" "$w/src" >/dev/null 2>&1 ); r_clean=$?
fi
( cd "$w" && git init -q . >/dev/null 2>&1 && git apply "$d/patch.diff" ) || { echo "$name: PATCH DOES NOT APPLY"; rm -rf "$w"; exit 1; }
if [ -f "$d/demo.py" ]; then
  ( cd "$w" && PYTHONPATH="$w/src" timeout 300 /venv/bin/python "$d/demo.py" "$w/src" >/dev/null 2>&1 ); r_patched=$?
fi
t=$( cd "$w" && PYTHONPATH="$w/src" timeout 1500 /venv/bin/python -m pytest -q -p no:cacheprovider --timeout=900 tests 2>&1 | tail -1 )
echo "$name: demo_clean_exit=$r_clean demo_patched_exit=$r_patched tests_with_patch: $t"
python3 - "$d" "$r_clean" "$r_patched" "$t" <<'PY'
import json, sys, os
d, rc, rp, t = sys.argv[1:5]
p = os.path.join(d, "meta.json")
m = json.load(open(p)) if os.path.exists(p) else {}
m["confirmed"] = {"demo_exit_on_head": rc, "demo_exit_with_patch": rp, "test_suite_with_patch": t,
                  "how": "harness/confirm_seed.sh: scratch copy of /repo HEAD (git archive), demo.py run before/after `git apply patch.diff`, then the full pytest suite on the patched copy"}
json.dump(m, open(p, "w"), indent=1)
PY
rm -rf "$w"
