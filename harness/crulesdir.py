"""CRULESDIR - three further rules of specified_rules that read the schema's root operation types and its
directive table: implementation vs Valid/RulesDir.v (extracted in the `rules` model, op 5).

  23 KnownOperationTypesRule   24 KnownDirectivesRule   25 UniqueDirectivesPerLocationRule
  26 DeferStreamDirectiveLabel

Theorems: coq/theories/Properties/C12dirs.v.
Correspondence: generated schemas (gen_exec.GSchema plus random directive definitions, with and without
mutation / subscription types), type-directed documents with directives strewn over every executable
location, operation keywords exchanged, and documents mixing type-system definitions / extensions / directive
definitions in; each real rule ALONE and the three TOGETHER vs the extracted model as multisets of
(rule, paths of the error's AST nodes).

`run(tier)` = ./check CRULESDIR; `core(ck, tier, model_ok, budget_s)` is the part ./check C12 can call."""
from __future__ import annotations

import json
import re
import time
from collections import Counter

from . import common, crules, gen_exec as G
from . import parsecorr as pc
from .common import Check, Model, cps, from_cps

PID = "CRULESDIR"
THMS = "C12dirs"
MODEL = "rules"
BIG = 10 ** 9

RULES = [(23, "KnownOperationTypesRule"), (24, "KnownDirectivesRule"), (25, "UniqueDirectivesPerLocationRule"),
         (26, "DeferStreamDirectiveLabel"), (28, "DeferStreamDirectiveOnRootField"),
         (29, "DeferStreamDirectiveOnValidOperationsRule")]
RULE_NAME = dict(RULES)

ASSUMPTIONS = [
    "CRULESDIR model: Valid/RulesDir.v - KnownOperationTypes, KnownDirectives, UniqueDirectivesPerLocation, DeferStreamDirectiveLabel as functions "
    "of the parser AST, the presence of the three root operation types and the schema's directive table (name, "
    "location indices in enum DirectiveLocation, is_repeatable); the visited nodes are Rules.doc_items, the visitor's "
    "`ancestors` list is a function of document and path (RulesDir.chain); the per-group dictionaries of "
    "UniqueDirectivesPerLocation are one dictionary with (group, name) keys; an error is (rule, paths of "
    "GraphQLError.nodes), messages are not compared",
    "CRULESDIR: a document on which a rule raises (not reachable from parser output) is modelled by the answer None",
]

LOCS = ["QUERY", "MUTATION", "SUBSCRIPTION", "FIELD", "FRAGMENT_DEFINITION", "FRAGMENT_SPREAD", "INLINE_FRAGMENT",
        "VARIABLE_DEFINITION", "FRAGMENT_VARIABLE_DEFINITION", "SCHEMA", "SCALAR", "OBJECT", "FIELD_DEFINITION",
        "ARGUMENT_DEFINITION", "INTERFACE", "UNION", "ENUM", "ENUM_VALUE", "INPUT_OBJECT", "INPUT_FIELD_DEFINITION",
        "DIRECTIVE_DEFINITION"]
EXEC_LOCS = LOCS[:8]
DIR_NAMES = ["d0", "d1", "d2", "rep", "once", "tag", "skip", "include", "deprecated", "nope", "oneOf",
             'defer(label: "a")', 'stream(label: "a", initialCount: 0)', 'defer(label: $v0)', "defer(label: null)", "defer",
             'stream(label: "b")', 'defer(if: true, label: "b")', "defer(label: 1)", 'defer(label: """a""")',
             'stream(initialCount: 1, label: "")', 'defer(label: "")', 'd0(label: "a")', 'defer(labe: "a", label: "c", label: 2)',
             "stream(label: [\"a\"])", "defer(label: A)"]


def account_proofs(ck, br):
    f = common.COQ / "theories" / "Properties" / f"{THMS}.v"
    if not f.exists():
        ck.degraded.append(f"Properties/{THMS}.v not present: correspondence only")
        if not br.ok:
            ck.proof_breaks.append(f"build failed at {br.failed_file}: " + br.log[-800:])
        return br.ok
    deps = common.dep_closure([f"Properties/{THMS}.v", "Extract/ExtractRules.v"])
    ck.extra["coq_files"] = deps
    bad = common.scan_forbidden(deps)
    if bad:
        ck.proof_breaks.append("forbidden construct: " + "; ".join(bad[:5]))
    names = re.findall(r"^\s*(?:Theorem|Lemma|Corollary)\s+(\w+)", f.read_text(), re.M)
    ck.theorems = names
    ck.obligations = len(names)
    ck.partial = [n for n in names if n.endswith("_partial")]
    if not br.ok:
        ck.proof_breaks.append(f"build failed at {br.failed_file}: " + br.log[-800:])
        return False
    ok, names2, assumptions, out = common.check_property_file(THMS, timeout=1200)
    ck.print_assumptions = assumptions
    if ok:
        ck.discharged = len(names2)
        for n, a in zip(names2, assumptions):
            if not a.startswith("Closed under"):
                ck.proof_breaks.append(f"{n} depends on axioms: {a}")
    else:
        ck.proof_breaks.append(f"coqc Properties/{THMS}.v failed: " + out[-800:])
    return ok


# --------------------------------------------------------------------------- encoders

def enc_dschema(schema):
    from graphql.language import DirectiveLocation
    idx = {m: i for i, m in enumerate(DirectiveLocation)}
    out = [int(schema.query_type is not None), int(schema.mutation_type is not None),
           int(schema.subscription_type is not None), len(schema.directives)]
    for d in schema.directives:
        out += [len(d.name)] + cps(d.name) + [len(d.locations)] + [idx[x] for x in d.locations] + [int(d.is_repeatable)]
    return out


# --------------------------------------------------------------------------- generators

def gen_directive_defs(rng):
    """random directive definitions (SDL) - some repeatable, any locations"""
    out = []
    for name in rng.sample(["d0", "d1", "d2", "rep", "once"], rng.randint(1, 5)):
        locs = rng.sample(LOCS, rng.randint(1, 6)) if rng.random() < 0.5 else rng.sample(EXEC_LOCS, rng.randint(1, 5))
        rep = " repeatable" if (name == "rep" or rng.random() < 0.25) else ""
        out.append(f"directive @{name}{rep} on {' | '.join(locs)}")
    return out


def gen_sdl(rng, gs):
    sdl = gs.sdl()
    extra = gen_directive_defs(rng)
    k = rng.randrange(4)
    if k in (1, 3) and "type Mutation" not in sdl:
        extra.append("type Mutation { m: Int }")
    if k in (2, 3) and "type Subscription" not in sdl:
        extra.append("type Subscription { s: Int }")
    return sdl + "\n" + "\n".join(extra)


def some_dirs(rng, n=None):
    n = n if n is not None else rng.choice([1, 1, 1, 2, 2, 3])
    return "".join(" @" + rng.choice(DIR_NAMES) for _ in range(n))


def strew(rng, text):
    """directives at random executable positions; operation keyword exchanged"""
    k = rng.randrange(8)

    def at(pattern, repl, count=1):
        ms = list(re.finditer(pattern, text))
        if not ms:
            return None
        out, last = [], 0
        for m in sorted(rng.sample(ms, min(count, len(ms))), key=lambda x: x.start()):
            out.append(text[last:m.start()])
            out.append(repl(m))
            last = m.end()
        out.append(text[last:])
        return "".join(out)

    if k == 0:     # after a field name / arguments
        return at(r"(?<=[\w)])(?= [{a-z_.}])", lambda m: some_dirs(rng), rng.randint(1, 4))
    if k == 1:     # operation keyword and directives on the operation
        return at(r"^(query|mutation|subscription)( \w+)?(\([^{]*\))?(?= \{)",
                  lambda m: rng.choice(["query", "mutation", "subscription"]) + (m.group(2) or "") + (m.group(3) or "")
                  + some_dirs(rng, rng.choice([0, 1, 2])))
    if k == 2:     # on fragment spreads / inline fragments
        return at(r"\.\.\.\w+|\.\.\. on \w+|\.\.\.(?= \{)", lambda m: m.group(0) + some_dirs(rng), rng.randint(1, 3))
    if k == 3:     # on a fragment definition
        return at(r"(?<=fragment )(\w+ on \w+)", lambda m: m.group(1) + some_dirs(rng))
    if k == 4:     # on variable definitions
        return at(r"(\$\w+: [\[\]\w!]+)(?=[,)= ])", lambda m: m.group(1) + some_dirs(rng), rng.randint(1, 2))
    if k == 5:     # a second operation of another kind
        return text + " " + rng.choice(["mutation M2", "subscription S2", "query Q2", "mutation", "subscription"]) \
            + some_dirs(rng, rng.choice([0, 1])) + " { __typename" + some_dirs(rng, rng.choice([0, 2])) + " }"
    if k == 6:     # type-system definitions, extensions and directive definitions mixed in
        return text + "\n" + gen_sdl_part(rng)
    return at(r"@\w+", lambda m: m.group(0) + " " + m.group(0))    # the same directive twice in a row


def gen_sdl_part(rng):
    parts = []
    for _ in range(rng.randint(1, 5)):
        k = rng.randrange(12)
        d = lambda n=None: some_dirs(rng, n)   # noqa: E731
        tn = rng.choice(["A", "B", "T0"])
        if k == 0:
            parts.append(f"type {tn}{d()} {{ f(x: Int{d(rng.choice([0, 1, 2]))}): Int{d(rng.choice([0, 1]))} }}")
        elif k == 1:
            parts.append(f"extend type {tn}{d()}")
        elif k == 2:
            parts.append(f"scalar {tn}{d()}")
        elif k == 3:
            parts.append(f"extend scalar {tn}{d()}")
        elif k == 4:
            parts.append(f"enum {tn}{d(rng.choice([0, 1, 2]))} {{ V{d(rng.choice([0, 1, 2]))} }}")
        elif k == 5:
            parts.append(f"input {tn}{d(rng.choice([0, 1]))} {{ i: Int{d(rng.choice([0, 1, 2]))} }}")
        elif k == 6:
            parts.append(f"extend input {tn}{d()} {{ j: Int{d(rng.choice([1, 2]))} }}")
        elif k == 7:
            parts.append(f"schema{d()} {{ query: Query }}")
        elif k == 8:
            parts.append(f"extend schema{d()}")
        elif k == 9:
            nm = rng.choice(["d0", "once", "nope", "skip", "rep"])
            rep = rng.choice(["", " repeatable"])
            parts.append(f"directive @{nm}(a: Int{d(rng.choice([0, 1]))}){rep} on {' | '.join(rng.sample(LOCS, rng.randint(1, 4)))}")
        elif k == 10:
            parts.append(f"interface {tn}{d()} {{ f: Int }} union U9{d(rng.choice([0, 2]))} = {tn}")
        else:
            parts.append(f"extend interface {tn}{d()} extend union {tn}{d()} extend enum {tn}{d()}")
    return "\n".join(parts)


# --------------------------------------------------------------------------- the check

def fmt(obs):
    return [(RULE_NAME.get(c, c), [list(map(list, p)) if p is not None else None for p in ps]) for c, ps in obs]


def impl_rules(schema, doc, classes, paths):
    """-> ({code: observations | ('raised', name)}, together)"""
    from graphql.validation import validate
    alone = {}
    for code, name in RULES:
        try:
            errs = validate(schema, doc, [classes[name]], max_errors=BIG)
            alone[code] = [(code, tuple(paths.get(id(n)) for n in (e.nodes or ()))) for e in errs]
        except Exception as e:  # noqa: BLE001
            alone[code] = ("raised", type(e).__name__)
    tags = {}
    tagged = []
    for code, name in RULES:
        cls = classes[name]

        def mk(cls=cls, code=code):
            class Tagged(cls):
                def report_error(self, error):
                    tags[id(error)] = code
                    super().report_error(error)
            return Tagged
        tagged.append(mk())
    try:
        errs = validate(schema, doc, tagged, max_errors=BIG)
        together = [(tags.get(id(e)), tuple(paths.get(id(n)) for n in (e.nodes or ()))) for e in errs]
        keep = errs
    except Exception as e:  # noqa: BLE001
        together, keep = ("raised", type(e).__name__), None
    del keep
    return alone, together


def judge(ck, sdl, schema, classes, text, label, doc, out):
    paths = crules.node_paths(doc)
    replay = {"sdl": sdl, "text": cps(text)}
    ck.count(label)
    alone, together = impl_rules(schema, doc, classes, paths)
    if not out or out[0] != 0:
        raised = [RULE_NAME[c] for c, a in alone.items() if not isinstance(a, list)]
        if out and out[0] == 3 and raised:
            ck.count("both_raise")
            return
        ck.violation(f"modeldir:{text!r}", f"the model gives no answer ({(out or [])[:4]}) for {text[:160]!r}",
                     dict(replay, relation="the model answers where the rules do"))
        return
    n, i = out[1], 2
    model = {c: [] for c, _ in RULES}
    for _ in range(n):
        code = out[i]
        ps, i = crules.dec_paths(out, i + 1)
        model.setdefault(code, []).append((code, tuple(ps)))
    nerr = 0
    for code, name in RULES:
        a = alone[code]
        if not isinstance(a, list):
            ck.violation(f"modeldir-raised:{name}:{text!r}", f"{name} raised {a[1]}; the model answers on {text[:160]!r}",
                         dict(replay, relation="rule = Valid/RulesDir.v: raising", rule=name))
            continue
        nerr += len(a)
        if a:
            ck.count(f"docs_with_{name}")
        if Counter(a) != Counter(model[code]):
            ck.violation(f"modeldir:{name}:{text!r}",
                         f"{name} reports {fmt(a)} but the model {fmt(model[code])} on {text[:200]!r}",
                         dict(replay, relation="rule = Valid/RulesDir.v (multiset of (rule, node paths))", rule=name,
                              impl=str(a), model=str(model[code])))
    if isinstance(together, list):
        allm = [e for c, _ in RULES for e in model[c]]
        if Counter(together) != Counter(allm):
            ck.violation(f"modeldir-together:{text!r}",
                         f"the rules in one validate() report {fmt(together)} but the model {fmt(allm)} on {text[:200]!r}",
                         dict(replay, relation="rules together = union of the model's rules"))
    ck.note_case(("crulesdir", sdl, text), nontrivial=nerr > 0 or "@" in text,
                 sample={"text": text[:200], "errors": nerr} if nerr and label == "corpus" else None)


ROOT_SCHEMAS = [
    "type Query { a: Int } type M { a: [Int] b: Int } type S { a: [Int] b: Int } schema { query: Query mutation: M subscription: S }",
    "type Query { a: Int } type M { a: [Int] b: Int } schema { query: Query mutation: M }",
    "type Query { a: [Int] b: Int }",
]


def root_doc(rng):
    """documents aimed at the root-level walk of DeferStreamDirectiveOnRootField: repeated, cyclic and undefined
    spreads at the root level of mutations / subscriptions / queries, inline fragments nested in each other, fields with
    sub-selections, duplicate fragment definitions, @defer / @stream (repeated, mixed with other directives) anywhere"""
    names = ["A", "B", "C", "Z"]

    def dirs():
        return rng.choice(["", "", "", " @defer", " @stream", " @defer @defer", " @skip(if: true) @defer", " @stream @defer",
                           ' @defer(label: "x")', " @stream @stream", " @skip(if: false) @defer", " @include(if: false) @stream",
                           " @defer(if: false)", " @defer(if: $v)", " @stream(if: true)", " @skip @defer", " @include @defer",
                           " @skip(if: $v) @stream", " @include(if: true) @defer", " @defer(if: 1)", " @skip(if: false) @include(if: $v) @defer",
                           ' @stream(label: "l", if: false)', " @defer(if: true)"])

    def sels(depth):
        out = []
        for _ in range(rng.randint(1, 4)):
            k = rng.randrange(5)
            if k == 0:
                out.append(rng.choice("ab") + dirs() + (" { ...A" + dirs() + " a" + dirs() + " }" if rng.random() < 0.2 else ""))
            elif k in (1, 2):
                out.append("..." + rng.choice(names) + dirs())
            elif depth < 2:
                out.append("..." + rng.choice(["", " on M"]) + dirs() + " { " + sels(depth + 1) + " }")
            else:
                out.append("a")
        return " ".join(out)

    defs = [rng.choice(["mutation", "subscription", "query", "mutation M1", "subscription S1"]) + dirs() + " { " + sels(0) + " }"]
    if rng.random() < 0.2:
        defs.append(rng.choice(["mutation M2", "subscription S2"]) + " { " + sels(0) + " }")
    for nm in [rng.choice(["A", "B", "C"]) for _ in range(rng.randint(1, 4))]:
        defs.append(f"fragment {nm} on M" + dirs() + " { " + sels(0) + " }")
    rng.shuffle(defs)
    return " ".join(defs)


def core_root(ck, tier, m, classes):
    from graphql import build_schema, parse
    n = 120 if tier == "quick" else 1500
    for sdl in ROOT_SCHEMAS:
        schema = build_schema(sdl)
        head = enc_dschema(schema)
        items = []
        for _ in range(n):
            text = root_doc(ck.rng)
            try:
                doc = parse(text)
                items.append((text, "rootwalk", doc, pc.enc_node(doc)))
            except Exception:  # noqa: BLE001
                ck.count("skipped_unparseable")
        outs = m.run_batch([[5] + head + it[3] for it in items])
        for (text, label, doc, w), out in zip(items, outs):
            judge(ck, sdl, schema, classes, text, label, doc, out)


def core(ck, tier, model_ok, budget_s=None):
    from graphql import build_schema, parse
    import graphql.validation as v

    quick = tier == "quick"
    rng = ck.rng
    t0 = time.time()
    budget = budget_s if budget_s is not None else (30 if quick else 400)
    m = Model(MODEL) if model_ok else None
    if m is None:
        ck.degraded.append("rules model not built: nothing compared")
        return
    rule_text = ("for every generated (schema, document): validate(schema, doc, [R]) as a multiset of (rule, node paths) "
                 "= the extracted Valid/RulesDir.v rule, for R in KnownOperationTypes, KnownDirectives, "
                 "UniqueDirectivesPerLocation, DeferStreamDirectiveLabel, DeferStreamDirectiveOnRootField (Valid/RulesRoot.v), DeferStreamDirectiveOnValidOperationsRule (Valid/RulesValidOps.v), alone and together; plus a directed family for the root-level walk (repeated / cyclic / undefined spreads, nested inline fragments, duplicate fragment definitions on three fixed schemas with / without mutation and subscription types). non-trivial = an error of one of them or a directive in the document")
    ck.extra["rulesdir_rule"] = rule_text
    if not ck.rule:
        ck.rule = rule_text
    classes = {name: getattr(v, name) for _, name in RULES}
    corpus = [c for c in common.load_corpus(PID) if "sdl" in c and "text" in c]
    n_docs = 10 if quick else 30
    nschemas = 0
    core_root(ck, tier, m, classes)
    while True:
        if time.time() - t0 > budget:
            ck.count("rulesdir_stopped_on_time_budget")
            break
        if corpus:
            c = corpus.pop()
            sdl, texts = c["sdl"], [(from_cps(c["text"]), "corpus")]
        else:
            gs = G.GSchema(rng)
            sdl, texts = gen_sdl(rng, gs), []
            for _ in range(n_docs):
                dg = G.DocGen(rng, gs, max_depth=rng.choice([1, 2, 2, 3]))
                text = dg.document()
                texts.append((text, "generated"))
                for _ in range(5):
                    t2 = text
                    for _ in range(rng.randint(1, 4)):
                        t2 = strew(rng, t2) or t2
                    if t2 != text:
                        texts.append((t2, "strewn"))
        try:
            schema = build_schema(sdl)
            head = enc_dschema(schema)
        except Exception:  # noqa: BLE001
            ck.count("generator_invalid_schema")
            continue
        nschemas += 1
        items = []
        for text, label in texts:
            try:
                doc = parse(text)
                w = pc.enc_node(doc)
            except Exception:  # noqa: BLE001
                ck.count("skipped_unparseable")
                continue
            items.append((text, label, doc, w))
        if not items:
            continue
        outs = m.run_batch([[5] + head + it[3] for it in items])
        for (text, label, doc, w), out in zip(items, outs):
            judge(ck, sdl, schema, classes, text, label, doc, out)
    ck.count("rulesdir_schemas", nschemas)
    ck.extra["rulesdir_t_s"] = round(time.time() - t0, 1)


def run(tier):
    ck = Check(PID, tier)
    ck.assumptions += ASSUMPTIONS
    has_thms = (common.COQ / "theories" / "Properties" / f"{THMS}.v").exists()
    br = common.build(PID, models=(MODEL,), extra_targets=(f"theories/Properties/{THMS}.vo",) if has_thms else ())
    account_proofs(ck, br)
    core(ck, tier, br.ok, budget_s=60 if tier == "quick" else 600)
    return ck.finish()


def replay(path):
    from graphql import build_schema, parse
    import graphql.validation as v
    d = json.loads(open(path).read())
    br = common.build(PID, models=(MODEL,))
    if not br.ok:
        print("build failed:", br.log[-400:])
        return 2
    ck = Check(PID, "replay")
    ck.known = []
    m = Model(MODEL)
    schema = build_schema(d["sdl"])
    text = from_cps(d["text"])
    print("schema:\n" + d["sdl"][-600:])
    print("document:", text)
    doc = parse(text)
    out = m.run_batch([[5] + enc_dschema(schema) + pc.enc_node(doc)])[0]
    judge(ck, d["sdl"], schema, {name: getattr(v, name) for _, name in RULES}, text, "replay", doc, out)
    for key, what, _ in ck.violations:
        print("VIOLATION:", what)
    print("STILL FAILING" if ck.violations else "passes now")
    return 1 if ck.violations else 0
