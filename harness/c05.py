"""C05 - the incremental payload stream obeys the delivery protocol.

(A) WorkQueue driven directly (scripted Computations, scripted stream queues) on generated work graphs x
    event orders: flattened work-queue events vs the extracted model; the real IncrementalPublisher on
    the real batches vs the model publisher; payloads checked by the extracted `valid` and by an
    independent Python validator.
(B) end to end: experimental_execute_incrementally on @defer/@stream requests under explored
    completion orders; formatted payloads checked by both validators (direct search).
(C) StreamItemQueue.batches() driven directly vs the extracted queue model.
"""
from __future__ import annotations

import asyncio
import copy
import itertools
import json
import time

from . import common
from .common import Check, Model

ASSUMPTIONS = [
    "C05 model: Incr/WorkQueue.v (graph state machine of work_queue.py with all task computations as pending "
    "futures settled by explicit events and scripted stream queues), Incr/Publisher.v (id table), Incr/Protocol.v "
    "(payload validator), Incr/NodeProtocol.v (the protocol on work-queue events), Incr/StreamQueue.v (ordered "
    "delivery of batches())",
    "proved by induction over all runs: stream queue order, termination exactly once, publisher+protocol for every "
    "node-level well-formed event trace, and - for FLAT work (no nested work in task results / stream items) whose "
    "initial graph state passes the executable check init_ok - the graph invariant and protocol validity of "
    "publish(run ...) for every enabled event sequence and batching; for work with nested results the same is "
    "established only by exhaustive exploration (inside Coq for an explicit family of 49 graphs, and by the extracted "
    "explorer on generated graphs at every run)",
    "asyncio hand-off (Queue/Event pacing between pump and consumer, done-callbacks) is abstracted to one graph event "
    "per settled future / delivered queue batch; tied by driving the real WorkQueue in a real event loop",
    "synchronously completing tasks (values instead of futures) occur only in the end-to-end runs, which are checked by "
    "the validators, not by the graph model",
    "the clause 'targets an existing object or list in the data assembled so far' is checked by the Python validator on "
    "real payloads (entries applied one by one in list order); in Coq data is abstracted to the creation-order rule "
    "(work declared by a task result / stream item is delivered and announced after that result)",
    "'enclosing fragment' = a deferred fragment whose label is a syntactic ancestor (from the request document) and whose "
    "path is a prefix, unless a stream announced in between delivers the list item; payload granularity: an enclosing "
    "fragment completed in the same payload does not count as pending",
]

SETTLE_MAX = 400


async def settle(probe=None, quiet=6):
    """Let the loop run until nothing observable changes for `quiet` iterations."""
    last, same = None, 0
    for _ in range(SETTLE_MAX):
        await asyncio.sleep(0)
        cur = probe() if probe else None
        if cur == last:
            same += 1
            if same >= quiet:
                return
        else:
            last, same = cur, 0


def fresh_loop_run(coro_fn, timeout=20.0):
    """Run coro_fn() in a fresh event loop; returns (result, leftover task count)."""
    loop = asyncio.new_event_loop()
    try:
        asyncio.set_event_loop(loop)
        res = loop.run_until_complete(asyncio.wait_for(coro_fn(), timeout))
        left = [t for t in asyncio.all_tasks(loop) if not t.done()]
        for t in left:
            t.cancel()
        if left:
            loop.run_until_complete(asyncio.gather(*left, return_exceptions=True))
        return res, len(left)
    finally:
        try:
            loop.run_until_complete(loop.shutdown_asyncgens())
        except Exception:  # noqa: BLE001
            pass
        asyncio.set_event_loop(None)
        loop.close()


# =========================================================================== abstract payloads
# abstract payload = dict(has_next, pending=[(id,label,is_stream,next,path)], incr=[(0,id)|(1,id,[idx])], completed=[id])


def enc_abs_payload(p):
    out = [1 if p["has_next"] else 0, len(p["pending"])]
    for (i, lab, st, nx, path) in p["pending"]:
        out += [i, lab, 1 if st else 0, nx, len(path)] + list(path)
    out.append(len(p["incr"]))
    for e in p["incr"]:
        if e[0] == 0:
            out += [0, e[1]]
        else:
            out += [1, e[1], len(e[2])] + list(e[2])
    out += [len(p["completed"])] + list(p["completed"])
    return out


def enc_validator_case(parents, payloads):
    out = [1, len(parents)]
    for a, b in parents:
        out += [a, b]
    out.append(len(payloads))
    for p in payloads:
        out += enc_abs_payload(p)
    return out


def dec_payloads(out, i):
    n = out[i]
    i += 1
    ps = []
    for _ in range(n):
        hn = out[i]
        i += 1
        npend = out[i]
        i += 1
        pend = []
        for _ in range(npend):
            pid, lab, st, nx, pl = out[i:i + 5]
            i += 5
            pend.append((pid, lab, bool(st), nx, tuple(out[i:i + pl])))
            i += pl
        ninc = out[i]
        i += 1
        inc = []
        for _ in range(ninc):
            if out[i] == 0:
                inc.append((0, out[i + 1]))
                i += 2
            else:
                k = out[i + 2]
                inc.append((1, out[i + 1], tuple(out[i + 3:i + 3 + k])))
                i += 3 + k
        nc = out[i]
        i += 1
        comp = list(out[i:i + nc])
        i += nc
        ps.append({"has_next": bool(hn), "pending": pend, "incr": inc, "completed": comp})
    return ps, i


def norm_abs(ps):
    return [{"has_next": p["has_next"],
             "pending": [(a, b, bool(c), d, tuple(e)) for (a, b, c, d, e) in p["pending"]],
             "incr": [(e[0], e[1]) if e[0] == 0 else (1, e[1], tuple(e[2])) for e in p["incr"]],
             "completed": list(p["completed"])} for p in ps]


def py_valid_abs(parents, payloads):
    """Independent implementation of the protocol predicate on abstract payloads.
    Returns (ok_prefix, ok_complete, reason)."""
    par = dict(parents)

    def ancestors(lab):
        out, seen = [], set()
        while lab in par and lab not in seen:
            seen.add(lab)
            lab = par[lab]
            out.append(lab)
        return out

    used, pend, closed = set(), {}, False
    streams = []  # (path, first streamed index) of every stream announced so far

    def cut(qp, ap):
        for sp, start in streams:
            if len(qp) <= len(sp) < len(ap) and tuple(sp[:len(qp)]) == tuple(qp) and tuple(ap[:len(sp)]) == tuple(sp):
                kx = ap[len(sp)]
                if kx % 2 == 0 and kx // 2 >= start:
                    return True
        return False
    for k, p in enumerate(payloads):
        if closed:
            return False, False, f"payload {k} after hasNext=false"
        new = []
        for (i, lab, st, nx, path) in p["pending"]:
            if i in used:
                return False, False, f"payload {k}: id {i} announced twice / reused"
            used.add(i)
            pend[i] = {"label": lab, "stream": st, "next": nx, "path": tuple(path)}
            if st:
                streams.append((tuple(path), nx))
            new.append(i)
        for e in p["incr"]:
            i = e[1]
            if i not in pend:
                return False, False, f"payload {k}: incremental entry targets id {i} which is not pending"
            if e[0] == 0:
                if pend[i]["stream"]:
                    return False, False, f"payload {k}: deferred data for stream id {i}"
            else:
                if not pend[i]["stream"]:
                    return False, False, f"payload {k}: stream items for fragment id {i}"
                items = list(e[2])
                if items != list(range(pend[i]["next"], pend[i]["next"] + len(items))):
                    return False, False, f"payload {k}: stream {i} items {items} not contiguous from {pend[i]['next']}"
                pend[i]["next"] += len(items)
        for i in p["completed"]:
            if i not in pend:
                return False, False, f"payload {k}: completed id {i} is not pending (never announced or completed twice)"
            new_info = pend.pop(i)
            if i in new:
                pend_new_done = new_info  # announced and completed in the same payload
        for i in new:
            a = pend.get(i)
            if a is None:
                # completed within the same payload: still must not have a pending enclosing fragment
                a = next(({"label": lab, "stream": st, "path": tuple(path)} for (j, lab, st, nx, path) in p["pending"] if j == i))
            if a["stream"]:
                continue
            anc = ancestors(a["label"])
            for j, q in pend.items():
                if j == i or q["stream"]:
                    continue
                if q["label"] in anc and tuple(a["path"][:len(q["path"])]) == tuple(q["path"]) \
                        and not cut(q["path"], a["path"]):
                    return False, False, f"payload {k}: fragment id {i} announced while enclosing id {j} is pending"
        if not p["has_next"]:
            if pend:
                return False, False, f"payload {k}: hasNext=false with ids {sorted(pend)} still pending"
            closed = True
    return True, closed, ""


# =========================================================================== real payloads -> abstract


class Interner:
    def __init__(self):
        self.m = {}

    def of(self, x):
        if x not in self.m:
            self.m[x] = len(self.m) + 1
        return self.m[x]


def lookup(data, path):
    cur = data
    for k in path:
        if isinstance(cur, dict) and isinstance(k, str) and k in cur:
            cur = cur[k]
        elif isinstance(cur, list) and isinstance(k, int) and 0 <= k < len(cur):
            cur = cur[k]
        else:
            return KeyError
    return cur


def deep_merge(dst, src):
    for k, v in src.items():
        if isinstance(v, dict) and isinstance(dst.get(k), dict):
            deep_merge(dst[k], v)
        else:
            dst[k] = v


def abstract_real(payloads, labels, keys):
    """Formatted payloads of a real run -> (abstract payloads, data problems).
    Assembles the data, so that kinds / stream positions / existence of targets are known."""
    problems = []
    data = None
    info = {}  # id -> dict(path, stream?, next)
    out = []
    for k, p in enumerate(payloads):
        if k == 0:
            data = copy.deepcopy(p.get("data"))
        new = []
        for e in p.get("pending", []) or []:
            try:
                i = int(e["id"])
            except Exception:  # noqa: BLE001
                problems.append(f"payload {k}: malformed pending id {e.get('id')!r}")
                continue
            info.setdefault(i, {"path": list(e.get("path", [])), "stream": None, "next": None})
            new.append((i, e))
        incr = []
        for e in p.get("incremental", []) or []:
            try:
                i = int(e["id"])
            except Exception:  # noqa: BLE001
                problems.append(f"payload {k}: malformed incremental id")
                continue
            inf = info.get(i)
            if "items" in e:
                n = len(e["items"] or [])
                if inf is None:
                    incr.append((1, i, list(range(n))))
                    continue
                tgt = lookup(data, inf["path"])
                if not isinstance(tgt, list):
                    problems.append(f"payload {k}: stream id {i} targets path {inf['path']} which is not an existing list")
                    incr.append((1, i, list(range(n))))
                    continue
                if inf["stream"] is None:
                    inf["stream"], inf["next"] = True, len(tgt)
                incr.append((1, i, list(range(len(tgt), len(tgt) + n))))
                tgt.extend(copy.deepcopy(e["items"] or []))
            else:
                if inf is None:
                    incr.append((0, i))
                    continue
                full = inf["path"] + list(e.get("subPath", []) or [])
                tgt = lookup(data, full)
                if not isinstance(tgt, dict):
                    problems.append(f"payload {k}: deferred data for id {i} targets path {full} which is not an existing object")
                else:
                    deep_merge(tgt, copy.deepcopy(e.get("data") or {}))
                if inf["stream"] is None:
                    inf["stream"] = False
                incr.append((0, i))
        pend = []
        for (i, e) in new:
            inf = info[i]
            tgt = lookup(data, inf["path"])
            if inf["stream"] is None:
                if isinstance(tgt, list):
                    inf["stream"], inf["next"] = True, len(tgt)
                elif isinstance(tgt, dict):
                    inf["stream"] = False
                else:
                    problems.append(f"payload {k}: id {i} announced for path {inf['path']} which does not exist in the data")
                    inf["stream"] = False
            start = inf["next"] if inf["stream"] else 0
            if inf["stream"]:
                # next expected index at announcement = first delivered index in this payload, if any
                first = next((x[2][0] for x in incr if x[0] == 1 and x[1] == i and x[2]), None)
                start = first if first is not None else len(tgt) if isinstance(tgt, list) else 0
            lab = e.get("label")
            pend.append((i, labels.of(lab) if lab is not None else 0, bool(inf["stream"]), start or 0,
                         [keys.of(x) * 2 + 1 if isinstance(x, str) else x * 2 for x in inf["path"]]))
        comp = []
        for e in p.get("completed", []) or []:
            try:
                comp.append(int(e["id"]))
            except Exception:  # noqa: BLE001
                problems.append(f"payload {k}: malformed completed id")
        out.append({"has_next": bool(p.get("hasNext")), "pending": pend, "incr": incr, "completed": comp})
    return out, problems, data


# =========================================================================== (B) end to end

SDL = """
directive @defer(if: Boolean = true, label: String) on FRAGMENT_SPREAD | INLINE_FRAGMENT
directive @stream(if: Boolean = true, label: String, initialCount: Int = 0) on FIELD
type Query { hero: Hero  heroes: [Hero]  agen: [Hero]  nums: [Int]  a: Int  b: Int  nn: Int!  slow: Int }
type Hero { id: Int  name: String  nn: String!  friends: [Hero]  afriends: [Hero]  pet: Hero  best: Hero }
"""


class Boom:
    """Marker: resolving this value raises."""


class AGen:
    """Marker: the field is resolved by an async generator over these items."""

    def __init__(self, items):
        self.items = items


def hero(i, depth=2):
    h = {"id": i, "name": f"h{i}", "nn": f"n{i}"}
    if depth:
        h["friends"] = [hero(i * 10 + 1, depth - 1), hero(i * 10 + 2, depth - 1)]
        h["afriends"] = AGen([hero(i * 10 + 3, depth - 1), hero(i * 10 + 4, depth - 1)])
        h["pet"] = hero(i * 10 + 5, depth - 1)
        h["best"] = hero(i * 10 + 6, depth - 1)
    return h


def root_value(variant):
    r = {"hero": hero(1), "heroes": [hero(2, 1), hero(3, 1), hero(4, 1)],
         "agen": AGen([hero(5, 1), hero(6, 1), hero(7, 1)]), "nums": [1, 2, 3, 4],
         "a": 1, "b": 2, "nn": 7, "slow": 9}
    if variant == "nn_fails":
        r["nn"] = Boom()
    elif variant == "hero_nn_fails":
        r["hero"]["nn"] = Boom()
        for f in r["hero"]["friends"]:
            f["nn"] = Boom()
    elif variant == "agen_raises":
        r["agen"] = AGen([hero(5, 1), Boom(), hero(7, 1)])
    elif variant == "item_nn_fails":
        r["heroes"][1]["nn"] = Boom()
        r["agen"].items[1]["nn"] = Boom()
    return r


QUERIES = [
    ("defer1", "{ a ... @defer(label: \"A\") { b } }", "ok"),
    ("defer2shared", "{ a ... @defer(label: \"A\") { b slow } ... @defer(label: \"B\") { b } }", "ok"),
    ("nested", "{ hero { id ... @defer(label: \"A\") { name ... @defer(label: \"B\") { nn pet { id } } } } }", "ok"),
    ("nested3", "{ ... @defer(label: \"A\") { a ... @defer(label: \"B\") { b ... @defer(label: \"C\") { slow } } } }", "ok"),
    ("shared_nested", "{ a ... @defer(label: \"A\") { nn } ... @defer(label: \"C\") { b ... @defer(label: \"B\") { nn } } }", "ok"),
    ("shared_nested_fail", "{ a ... @defer(label: \"A\") { nn } ... @defer(label: \"C\") { b ... @defer(label: \"B\") { nn } } }", "nn_fails"),
    ("defer_fail", "{ a ... @defer(label: \"A\") { nn b } ... @defer(label: \"B\") { slow } }", "nn_fails"),
    ("defer_in_list", "{ hero { friends { id ... @defer(label: \"F\") { name pet { id ... @defer(label: \"P\") { name } } } } } }", "ok"),
    ("defer_in_list_fail", "{ hero { id friends { id ... @defer(label: \"F\") { nn name } } ... @defer(label: \"H\") { nn } } }", "hero_nn_fails"),
    ("stream_sync", "{ nums @stream(initialCount: 1, label: \"S\") a }", "ok"),
    ("stream_sync0", "{ heroes @stream(initialCount: 0, label: \"S\") { id name } }", "ok"),
    ("stream_async", "{ agen @stream(initialCount: 1, label: \"S\") { id name } }", "ok"),
    ("stream_async_raise", "{ agen @stream(initialCount: 0, label: \"S\") { id } a }", "agen_raises"),
    ("stream_item_fail", "{ heroes @stream(initialCount: 1, label: \"S\") { id nn } agen @stream(label: \"T\") { nn } }", "item_nn_fails"),
    ("stream_defer_items", "{ heroes @stream(initialCount: 1, label: \"S\") { id ... @defer(label: \"D\") { name friends { id } } } }", "ok"),
    ("defer_then_stream", "{ a ... @defer(label: \"A\") { heroes @stream(initialCount: 1, label: \"S\") { id ... @defer(label: \"D\") { name } } } }", "ok"),
    ("nested_streams", "{ hero { friends @stream(initialCount: 1, label: \"S\") { id afriends @stream(label: \"T\") { id } } } }", "ok"),
    ("two_streams_defer", "{ nums @stream(label: \"N\") agen @stream(label: \"G\") { id } ... @defer(label: \"A\") { slow hero { name } } }", "ok"),
    ("frag_spread", "query { hero { ...F @defer(label: \"A\") } } fragment F on Hero { name ...G @defer(label: \"B\") } fragment G on Hero { nn best { id } }", "ok"),
    ("pruned_complete", "{ ... @defer(label: \"A\") { hero { pet { id name } } } ... @defer(label: \"B\") { hero { id ... @defer(label: \"D\") { pet { ... @defer(label: \"E\") { nn } } } } } }", "ok"),
    ("pruned_complete_lists", "{ ... @defer(label: \"A\") { hero { friends @stream(initialCount: 1, label: \"S\") { pet { id } } } } ... @defer(label: \"B\") { hero { friends @stream(initialCount: 1, label: \"S\") { ... @defer(label: \"D\") { pet { ... @defer(label: \"E\") { name } } } friends { name } } } } }", "ok"),
    ("pruned_complete_3", "{ hero { id } ... @defer(label: \"A\") { hero { pet { best { id } } } } ... @defer(label: \"B\") { hero { name ... @defer(label: \"D\") { pet { ... @defer(label: \"E\") { best { ... @defer(label: \"F\") { name } } } } } } } ... @defer(label: \"C\") { hero { pet { best { nn } } } } }", "ok"),
    # a field shared by fragments at DIFFERENT paths; the deeper fragment fails through a field of its own
    ("shared_diff_paths_fail", "{ ... @defer(label: \"B\") { hero { name } slow } hero { id ... @defer(label: \"A\") { name nn } } }", "hero_nn_fails"),
    ("shared_diff_paths_fail_list", "{ ... @defer(label: \"B\") { hero { friends { name } } slow } hero { friends { id ... @defer(label: \"A\") { name nn } } } }", "hero_nn_fails"),
    ("shared_diff_paths_fail_3", "{ a ... @defer(label: \"B\") { hero { name pet { id } } slow } ... @defer(label: \"C\") { hero { id ... @defer(label: \"A\") { name pet { id } nn } } } }", "hero_nn_fails"),
    ("shared_diff_paths_ok", "{ ... @defer(label: \"B\") { hero { name } slow } hero { id ... @defer(label: \"A\") { name nn } } }", "ok"),
    ("same_path_two", "{ hero { ... @defer(label: \"A\") { name } ... @defer(label: \"B\") { name id pet { ... @defer(label: \"C\") { name } } } } }", "ok"),
]


def label_parents(doc):
    """label -> enclosing label, from the request document."""
    from graphql.language import FieldNode, FragmentDefinitionNode, FragmentSpreadNode, InlineFragmentNode
    frags = {d.name.value: d for d in doc.definitions if isinstance(d, FragmentDefinitionNode)}
    par = {}

    def defer_label(node):
        for d in node.directives or ():
            if d.name.value == "defer":
                for a in d.arguments or ():
                    if a.name.value == "label":
                        return a.value.value
                return ""
        return None

    def walk(selset, encl, seen):
        if selset is None:
            return
        for s in selset.selections:
            if isinstance(s, FieldNode):
                walk(s.selection_set, encl, seen)
            else:
                lab = defer_label(s)
                inner = encl
                if lab:
                    if encl is not None:
                        par[lab] = encl
                    inner = lab
                if isinstance(s, InlineFragmentNode):
                    walk(s.selection_set, inner, seen)
                elif isinstance(s, FragmentSpreadNode):
                    name = s.name.value
                    if name in frags and (name, inner) not in seen:
                        walk(frags[name].selection_set, inner, seen | {(name, inner)})

    for d in doc.definitions:
        if not isinstance(d, FragmentDefinitionNode):
            walk(d.selection_set, None, frozenset())
    return par


class Ctl:
    """Schedule control: registry of harness futures created by resolvers."""

    def __init__(self, loop, async_mode, rng):
        self.loop, self.mode, self.rng = loop, async_mode, rng
        self.waiting = []  # (key, future, value)
        self.n = 0

    def is_async(self, key):
        if self.mode == "sync":
            return False
        if self.mode == "async":
            return True
        # stable per key within a run
        return (hash((key, self.mode)) & 3) != 0

    def defer_value(self, key, value):
        f = self.loop.create_future()
        self.waiting.append((key, f, value))
        return f

    def pending(self):
        self.waiting = [w for w in self.waiting if not w[1].done()]
        return self.waiting

    def release(self, idx):
        key, f, value = self.waiting.pop(idx)
        if not f.done():
            if isinstance(value, Boom):
                f.set_exception(RuntimeError("boom"))
            else:
                f.set_result(value)


def make_resolver():
    def resolve(source, info, **_args):
        ctl = info.context
        v = source.get(info.field_name) if isinstance(source, dict) else None
        key = ".".join(str(k) for k in info.path.as_list())
        if isinstance(v, AGen):
            items = v.items

            async def gen():
                for j, it in enumerate(items):
                    if ctl.is_async(key + f"#{j}"):
                        it = await ctl.defer_value(key + f"#{j}", it)
                    elif isinstance(it, Boom):
                        raise RuntimeError("boom")
                    yield it
            return gen()
        if ctl.is_async(key):
            return ctl.defer_value(key, v)
        if isinstance(v, Boom):
            raise RuntimeError("boom")
        return v
    return resolve


def run_e2e(schema, doc, variant, mode, early, decisions, rng_seed):
    """One real run under the schedule given by `decisions` (indices into the pending list; beyond the list
    index 0).  Returns dict(payloads, options (branching recorded), error)."""
    from graphql.execution import ExecutionResult, experimental_execute_incrementally

    options = []

    async def main():
        loop = asyncio.get_running_loop()
        ctl = Ctl(loop, mode if mode != "mixed" else ("mixed", rng_seed), None)
        payloads = []
        state = {"done": False, "err": None}

        async def consume():
            try:
                res = experimental_execute_incrementally(
                    schema, doc, root_value(variant), context_value=ctl,
                    field_resolver=make_resolver(), enable_early_execution=early)
                if asyncio.iscoroutine(res) or asyncio.isfuture(res) or hasattr(res, "__await__"):
                    res = await res
                if isinstance(res, ExecutionResult):
                    payloads.append(("single", res.formatted))
                    return
                payloads.append(("initial", res.initial_result.formatted))
                async for p in res.subsequent_results:
                    payloads.append(("next", p.formatted))
            except Exception as e:  # noqa: BLE001
                state["err"] = f"{type(e).__name__}: {e}"
            finally:
                state["done"] = True

        task = asyncio.ensure_future(consume())
        probe = lambda: (len(payloads), len(ctl.pending()), state["done"])  # noqa: E731
        step = 0
        while True:
            await settle(probe)
            if state["done"]:
                break
            pend = ctl.pending()
            if not pend:
                await settle(probe, quiet=30)
                if state["done"]:
                    break
                if not ctl.pending():
                    state["err"] = "stuck: payload stream not finished and no harness future left to release"
                    task.cancel()
                    break
                continue
            options.append(len(pend))
            idx = decisions[step] if step < len(decisions) else 0
            ctl.release(min(idx, len(pend) - 1))
            step += 1
            if step > 200:
                state["err"] = "too many steps"
                task.cancel()
                break
        await asyncio.gather(task, return_exceptions=True)
        return payloads, state["err"]

    (payloads, err), _left = fresh_loop_run(main)
    return {"payloads": payloads, "options": options, "error": err}


def explore_schedules(run_fn, limit, rng):
    """Stateless DFS over decision lists (exhaustive if the tree has <= limit leaves, else DFS prefix + random)."""
    results = []
    stack = [[]]
    seen = 0
    while stack and seen < limit:
        dec = stack.pop()
        r = run_fn(dec)
        seen += 1
        results.append((dec, r))
        opts = r["options"]
        # children: for positions >= len(dec), alternatives 1..n-1
        for pos in range(len(opts) - 1, len(dec) - 1, -1):
            for alt in range(1, opts[pos]):
                stack.append(list(dec) + [0] * (pos - len(dec)) + [alt])
        if len(stack) > 4000:
            rng.shuffle(stack)
            del stack[2000:]
    exhaustive = not stack
    return results, exhaustive


def part_e2e(ck, m, tier):
    from graphql import build_schema, parse

    try:
        schema = build_schema(SDL)
    except Exception as e:  # noqa: BLE001
        ck.degraded.append(f"end-to-end part skipped: schema did not build: {e!r}")
        return
    quick = tier == "quick"
    limit = 40 if quick else 300
    t0 = time.time()
    budget = 45 if quick else 420
    cases, metas = [], []
    nruns = 0
    for (name, q, variant) in QUERIES:
        doc = parse(q)
        par = label_parents(doc)
        for mode in ("sync", "async", "mixed"):
            for early in (False, True):
                if time.time() - t0 > budget:
                    ck.count("e2e_configs_skipped_time_budget")
                    continue
                seedv = ck.rng.randrange(1 << 30)
                fn = lambda dec: run_e2e(schema, doc, variant, mode, early, dec, seedv)  # noqa: E731
                results, exh = explore_schedules(fn, 1 if mode == "sync" else limit, ck.rng)
                ck.count("e2e_schedules_exhaustive" if exh else "e2e_schedules_sampled")
                for dec, r in results:
                    nruns += 1
                    labels, keys = Interner(), Interner()
                    for lab in sorted(set(par) | set(par.values())):
                        labels.of(lab)
                    key = f"e2e:{name}:{variant}:{mode}:{int(early)}:{dec}"
                    rep = {"relation": "payload stream satisfies the delivery protocol", "query": q, "data_variant": variant,
                           "async_mode": mode, "mixed_seed": seedv, "early_execution": early, "schedule": dec}
                    if r["error"]:
                        ck.violation(f"e2e-error:{name}:{variant}:{r['error'][:60]}",
                                     f"end-to-end run did not complete: {r['error']} ({name}, {mode}, early={early}, schedule {dec})",
                                     dict(rep, payloads=[p for _, p in r["payloads"]]))
                        continue
                    pls = r["payloads"]
                    if pls and pls[0][0] == "single":
                        ck.count("e2e_non_incremental")
                        ck.note_case(("e2e", name, variant, mode, early, tuple(dec)), nontrivial=False)
                        continue
                    formatted = [p for _, p in pls]
                    ab, problems, _data = abstract_real(formatted, labels, keys)
                    parents = [(labels.of(a), labels.of(b)) for a, b in sorted(par.items())]
                    okp, okc, why = py_valid_abs(parents, ab)
                    ck.note_case(("e2e", name, variant, mode, early, tuple(dec), json.dumps(formatted, sort_keys=True, default=str)),
                                 nontrivial=len(formatted) > 1,
                                 sample={"query": q, "schedule": dec, "payloads": formatted} if nruns % 97 == 1 else None)
                    if problems:
                        ck.violation(f"e2e-data:{name}:{variant}:{problems[0][:80]}",
                                     f"{problems[0]} ({name}, {mode}, early={early}, schedule {dec})",
                                     dict(rep, payloads=formatted))
                    if not okc:
                        ck.violation(f"e2e-protocol:{name}:{variant}:{why[:80]}",
                                     f"protocol violated: {why} ({name}, {mode}, early={early}, schedule {dec})",
                                     dict(rep, payloads=formatted))
                    cases.append(enc_validator_case(parents, ab))
                    metas.append((key, rep, formatted, okp, okc, why))
    outs = m.run_batch(cases)
    for (key, rep, formatted, okp, okc, why), out in zip(metas, outs):
        mv = out[:3] == [1, 1, 1]
        if mv != bool(okc):
            ck.violation("validators-disagree:" + key,
                         f"extracted valid = {mv} but the Python validator says {okc} ({why})", dict(rep, payloads=formatted))
        elif not mv:
            pass  # already reported above
    ck.count("e2e_runs", nruns)
    ck.count("e2e_incremental_payload_streams", len(cases))


def part_e2e_boundary(ck, m):
    """End to end at the capacity boundary of the stream item queue (early execution): a streamed list of
    cap-1 / cap / cap+1 item awaitables; all but the LAST item settle before the client starts pulling, so the
    finished producer may be parked on its end marker while the last item is held back; a slow deferred fragment
    keeps the response open.  The payload stream must obey the protocol (validators of part B)."""
    import inspect
    from graphql import build_schema, parse
    from graphql.execution import ExecutionResult, experimental_execute_incrementally
    try:
        from graphql.execution.incremental.stream_item_queue import StreamItemQueue
        cap = inspect.signature(StreamItemQueue.__init__).parameters["capacity"].default
        cap = cap if isinstance(cap, int) and 0 < cap <= 2000 else 100
    except Exception:  # noqa: BLE001
        cap = 100
    schema = build_schema(SDL)
    doc = parse("{ nums @stream(initialCount: 0, label: \"S\") ... @defer(label: \"A\") { slow } }")
    cases, metas = [], []
    for n in (cap - 1, cap, cap + 1):
        for late in (n - 1, 0):
            def scenario(n=n, late=late):
                async def main():
                    loop = asyncio.get_running_loop()
                    futs = [loop.create_future() for _ in range(n)]
                    slow = loop.create_future()
                    res = experimental_execute_incrementally(schema, doc, {"nums": futs, "slow": slow},
                                                             enable_early_execution=True)
                    if hasattr(res, "__await__"):
                        res = await res
                    if isinstance(res, ExecutionResult):
                        return [res.formatted], None
                    payloads = [res.initial_result.formatted]
                    for i, f in enumerate(futs):
                        if i != late:
                            f.set_result(i)
                    await settle(quiet=10)
                    state = {"err": None}

                    async def consume():
                        try:
                            async for p in res.subsequent_results:
                                payloads.append(p.formatted)
                        except Exception as e:  # noqa: BLE001
                            state["err"] = f"{type(e).__name__}: {e}"
                    t = asyncio.ensure_future(consume())
                    await settle(lambda: len(payloads), quiet=10)
                    futs[late].set_result(late)
                    await settle(lambda: len(payloads), quiet=10)
                    slow.set_result(9)
                    try:
                        await asyncio.wait_for(t, 10)
                    except asyncio.TimeoutError:
                        state["err"] = "payload stream did not finish"
                    return payloads, state["err"]
                return main()
            try:
                (payloads, err), _ = fresh_loop_run(scenario)
            except Exception as e:  # noqa: BLE001
                ck.count("e2e_boundary_harness_errors")
                continue
            key = f"e2e-boundary:items={n - cap:+d} relative to the queue capacity:late={'last' if late else 'first'}"
            rep = {"relation": "payload stream satisfies the delivery protocol", "query": "{ nums @stream(initialCount: 0) ... @defer { slow } }",
                   "items": n, "queue_capacity": cap, "late_item": late, "early_execution": True}
            ck.note_case(("e2e-boundary", n, late), nontrivial=len(payloads) > 1)
            ck.count("e2e_boundary_runs")
            if err:
                ck.violation(key + ":error", f"{err} ({n} streamed items, item {late} settles late)", dict(rep, payloads=payloads[-3:]))
                continue
            labels, keys = Interner(), Interner()
            ab, problems, data = abstract_real(payloads, labels, keys)
            okp, okc, why = py_valid_abs([], ab)
            if problems:
                ck.violation(key + ":data", f"{problems[0]} ({n} streamed items, item {late} settles late)", dict(rep, payloads=payloads[-3:]))
            if not okc:
                ck.violation(key + ":protocol", f"protocol violated: {why} ({n} streamed items = queue capacity {n - cap:+d}, "
                             f"item {late} settles after the client started pulling)", dict(rep, payloads=payloads[-3:]))
            elif isinstance(data, dict) and data.get("nums") != list(range(n)):
                ck.violation(key + ":items", f"streamed items do not reassemble to the list in order ({n} items)", dict(rep))
            cases.append(enc_validator_case([], ab))
            metas.append((key, rep, okc))
    for (key, rep, okc), out in zip(metas, m.run_batch(cases)):
        if (out[:3] == [1, 1, 1]) != bool(okc):
            ck.violation("validators-disagree:" + key, f"extracted valid = {out[1:3]} but the Python validator says {okc}", rep)


# =========================================================================== (A) WorkQueue direct


class FakePath:
    def __init__(self, keys):
        self.keys = list(keys)

    def as_list(self):
        return list(self.keys)

    def __bool__(self):
        return True


class FGroup:
    def __init__(self, gid, parent, path):
        self.gid, self.parent, self.path, self.label = gid, parent, FakePath([2 * x + 1 for x in path]), f"g{gid}"

    def __repr__(self):
        return f"G{self.gid}"


class FStream:
    def __init__(self, sid, queue):
        self.sid, self.queue, self.path, self.label, self.initial_count = sid, queue, FakePath([1, 2 * sid + 1]), f"s{sid}", 0

    def __repr__(self):
        return f"S{self.sid}"


class ScriptQueue:
    """Stream queue protocol driven by harness commands."""

    def __init__(self, items):
        self.items, self.pos = items, 0
        self.cmds = None
        self.stopped = self.started = self.ended = False
        self.aborted = 0

    async def batches(self):
        self.started = True
        self.cmds = asyncio.Queue()
        try:
            while True:
                cmd = await self.cmds.get()
                if cmd[0] == "items":
                    chunk = self.items[self.pos:self.pos + cmd[1]]
                    self.pos += cmd[1]
                    if cmd[2]:
                        self.stopped = True
                    yield chunk
                    if cmd[2]:
                        return
                elif cmd[0] == "ok":
                    self.stopped = True
                    return
                else:
                    raise RuntimeError("stream failed")
        finally:
            self.ended = True

    def is_stopped(self):
        return self.stopped

    def abort(self, reason=None):
        self.aborted += 1
        return None


def gen_graph(rng, max_groups=4, max_tasks=4, max_streams=2, wf=True):
    """Random small work graph.  Returns dict(parents, tasks{tid:(groups, work)}, streams{sid:[work]}, work0).
    work = (groups, tasks, streams) lists of ids."""
    st = {"g": 0, "t": 0, "s": 0}
    parents, tasks, streams = {}, {}, {}
    budget = {"g": rng.randint(1, max_groups), "t": rng.randint(1, max_tasks), "s": rng.randint(0, max_streams)}

    def mk_work(depth, ptask_groups, allow_none_parent, force=False):
        gs, ts, ss = [], [], []
        ng = rng.randint(1 if force else 0, 2) if budget["g"] else 0
        ng = min(ng, budget["g"])
        for _ in range(ng):
            budget["g"] -= 1
            st["g"] += 1
            g = st["g"]
            cands = list(ptask_groups) + gs
            if allow_none_parent and (not cands or rng.random() < 0.5):
                pass
            elif cands:
                parents[g] = rng.choice(cands)
            elif not wf:
                pass
            gs.append(g)
        if gs and rng.random() < 0.3:
            rng.shuffle(gs)  # children may be listed before parents
        tcands = gs + (list(ptask_groups) if rng.random() < 0.5 else [])
        nt = min(budget["t"], rng.randint(1 if (force or gs) else 0, 3)) if tcands else 0
        for _ in range(nt):
            budget["t"] -= 1
            st["t"] += 1
            t = st["t"]
            k = 1 if len(tcands) == 1 or rng.random() < 0.6 else 2
            tg = rng.sample(tcands, k)
            tasks[t] = [tg, None]
            ts.append(t)
        ns = min(budget["s"], rng.randint(0, 2)) if depth < 3 else 0
        for _ in range(ns):
            budget["s"] -= 1
            st["s"] += 1
            s = st["s"]
            streams[s] = None
            ss.append(s)
        # nested work (after allocating this level, so ids of a level are contiguous)
        for t in ts:
            if depth < 3 and rng.random() < 0.5 and (budget["g"] or budget["t"] or budget["s"]):
                tasks[t][1] = mk_work(depth + 1, tasks[t][0], allow_none_parent=rng.random() < 0.15, force=False)
        for s in ss:
            n = rng.randint(0, 3)
            items = []
            for _ in range(n):
                if depth < 3 and rng.random() < 0.4 and (budget["g"] or budget["t"] or budget["s"]):
                    items.append(mk_work(depth + 1, [], allow_none_parent=True))
                else:
                    items.append(([], [], []))
            streams[s] = items
        return (gs, ts, ss)

    w0 = mk_work(0, [], True, force=True)
    return {"parents": parents, "tasks": {t: (v[0], v[1] or ([], [], [])) for t, v in tasks.items()},
            "streams": {s: v or [] for s, v in streams.items()}, "work0": w0}


def enc_work(w):
    gs, ts, ss = w
    return [len(gs)] + list(gs) + [len(ts)] + list(ts) + [len(ss)] + list(ss)


def enc_env(g):
    out = [len(g["parents"])]
    for a, b in sorted(g["parents"].items()):
        out += [a, b]
    out.append(len(g["tasks"]))
    for t, (tg, w) in sorted(g["tasks"].items()):
        out += [t, len(tg)] + list(tg) + enc_work(w)
    out.append(len(g["streams"]))
    for s, items in sorted(g["streams"].items()):
        out += [s, len(items)]
        for w in items:
            out += enc_work(w)
    return out


def enc_gevent(e):
    if e[0] == "ok":
        return [0, e[1]]
    if e[0] == "fail":
        return [1, e[1]]
    if e[0] == "items":
        return [2, e[1], e[2], 1 if e[3] else 0]
    if e[0] == "sok":
        return [3, e[1]]
    return [4, e[1]]


def enc_wq_case(g, batches):
    out = [2] + enc_env(g) + enc_work(g["work0"]) + [len(batches)]
    for b in batches:
        out.append(len(b))
        for e in b:
            out += enc_gevent(e)
    return out


def gpath(parents, gid):
    chain, seen = [gid], {gid}
    n = len(parents)
    # mirror of Publisher.gpath (fuel = size of the parent table)
    while chain[0] in parents and n > 0:
        p = parents[chain[0]]
        chain.insert(0, p)
        n -= 1
        if p in seen:
            break
        seen.add(p)
    return chain


class RealWQ:
    """The real WorkQueue objects built from a graph description, with harness-controlled futures."""

    def __init__(self, g, api):
        self.g, self.api = g, api
        self.groups, self.tasks, self.streams, self.futs = {}, {}, {}, {}
        self.started_tasks, self.settled = [], set()
        self.closing, self.inflight = set(), {}
        self.loop = asyncio.get_running_loop()

    def group(self, gid):
        if gid not in self.groups:
            p = self.g["parents"].get(gid)
            obj = FGroup(gid, None, gpath(self.g["parents"], gid))
            self.groups[gid] = obj
            if p is not None:
                obj.parent = self.group(p)
        return self.groups[gid]

    def work(self, w):
        gs, ts, ss = w
        return self.api["Work"]([self.group(x) for x in gs], [self.task(t) for t in ts], [self.stream(x) for x in ss])

    def task(self, tid):
        if tid not in self.tasks:
            fut = self.loop.create_future()
            self.futs[tid] = fut

            def fn(tid=tid, fut=fut):
                self.started_tasks.append(tid)
                return fut
            tg, _w = self.g["tasks"][tid]
            self.tasks[tid] = self.api["WorkTask"]([self.group(x) for x in tg], self.api["Computation"](fn))
        return self.tasks[tid]

    def stream(self, sid):
        if sid not in self.streams:
            SIV = self.api.get("StreamItemValue")
            items = []
            for j, w in enumerate(self.g["streams"][sid]):
                val = SIV((sid, j), None) if SIV else (sid, j)
                items.append(self.api["WorkResult"](val, self.work(w)))
            self.streams[sid] = FStream(sid, ScriptQueue(items))
        return self.streams[sid]

    def task_value(self, tid):
        tg, w = self.g["tasks"][tid]
        gobjs = [self.group(x) for x in tg]
        longest = max((gpath(self.g["parents"], x) for x in tg), key=len)
        EGV = self.api.get("ExecutionGroupValue")
        val = EGV(gobjs, [2 * x + 1 for x in longest] + ["x"], {"t": tid}, None) if EGV else ("task", tid)
        return self.api["WorkResult"](val, self.work(w))


def resolve_api():
    """Entry points by name; None if something is missing (then the direct sub-check is degraded)."""
    try:
        from graphql.execution.incremental import work_queue as wqmod
        from graphql.execution.incremental.computation import Computation
        api = {n: getattr(wqmod, n) for n in (
            "Work", "WorkQueue", "WorkResult", "WorkTask", "GroupValuesEvent", "GroupSuccessEvent", "GroupFailureEvent",
            "StreamValuesEvent", "StreamSuccessEvent", "StreamFailureEvent", "WorkQueueTerminationEvent")}
        api["Computation"] = Computation
    except Exception as e:  # noqa: BLE001
        return None, f"work queue internals not found: {e!r}"
    try:
        from graphql.execution.incremental.incremental_executor import ExecutionGroupValue, StreamItemValue
        from graphql.execution.incremental.incremental_publisher import IncrementalPublisher
        api.update(ExecutionGroupValue=ExecutionGroupValue, StreamItemValue=StreamItemValue,
                   IncrementalPublisher=IncrementalPublisher)
    except Exception:  # noqa: BLE001
        api["IncrementalPublisher"] = None
    return api, None


def flatten_event(api, rw, ev):
    """Real work-queue event -> the model's integer encoding."""
    if isinstance(ev, api["GroupValuesEvent"]):
        ts = []
        for v in ev.values:
            d = getattr(v, "data", None)
            ts.append(d["t"] if isinstance(d, dict) else v[1])
        return [0, ev.group.gid, len(ts)] + ts
    if isinstance(ev, api["GroupSuccessEvent"]):
        a = [x.gid for x in ev.new_groups]
        b = [x.sid for x in ev.new_streams]
        return [1, ev.group.gid, len(a)] + a + [len(b)] + b
    if isinstance(ev, api["GroupFailureEvent"]):
        return [2, ev.group.gid]
    if isinstance(ev, api["StreamValuesEvent"]):
        idx = [(getattr(v, "item", v))[1] for v in ev.values]
        a = [x.gid for x in ev.new_groups]
        b = [x.sid for x in ev.new_streams]
        contiguous = idx == list(range(idx[0], idx[0] + len(idx))) if idx else True
        first = idx[0] if idx else 0
        return [3, ev.stream.sid, first, len(idx) if contiguous else 10 ** 6, len(a)] + a + [len(b)] + b
    if isinstance(ev, api["StreamSuccessEvent"]):
        return [4, ev.stream.sid]
    if isinstance(ev, api["StreamFailureEvent"]):
        return [5, ev.stream.sid]
    if isinstance(ev, api["WorkQueueTerminationEvent"]):
        return [6]
    return [99]


def enabled_options(rw):
    """Graph events the harness may inject now."""
    opts = []
    for tid in rw.started_tasks:
        if tid not in rw.settled:
            opts.append(("ok", tid))
            opts.append(("fail", tid))
    for sid, s in sorted(rw.streams.items()):
        q = s.queue
        if q.started and not q.ended and not q.stopped and sid not in rw.closing and not rw.inflight.get(sid):
            left = len(q.items) - q.pos
            if left >= 1:
                opts.append(("items", sid, 1, False))
                if left >= 2:
                    opts.append(("items", sid, 2, False))
                opts.append(("items", sid, left, True))
            if left == 0:
                opts.append(("sok", sid))
            opts.append(("sfail", sid))
    return opts


def drive_wq(api, g, decisions, batch_sizes, max_events):
    """Drive the real WorkQueue with the schedule `decisions`; returns dict."""
    opts_log = []

    async def main():
        rw = RealWQ(g, api)
        wq = api["WorkQueue"](rw.work(g["work0"]))
        batches = []
        state = {"done": False, "err": None}

        async def collect():
            try:
                async for b in wq.events():
                    batches.append(list(b))
            except Exception as e:  # noqa: BLE001
                state["err"] = f"{type(e).__name__}: {e}"
            finally:
                state["done"] = True

        task = asyncio.ensure_future(collect())
        probe = lambda: (len(batches), len(rw.started_tasks), state["done"],  # noqa: E731
                         tuple((q.queue.started, q.queue.ended, q.queue.pos) for q in rw.streams.values()))
        injected = []  # list of batches of graph events
        step = 0
        nev = 0
        while nev < max_events:
            await settle(probe)
            if state["done"]:
                break
            cur = []
            size = batch_sizes[len(injected)] if len(injected) < len(batch_sizes) else 1
            for _ in range(size):
                opts = enabled_options(rw)
                if not opts:
                    break
                opts_log.append(len(opts))
                idx = decisions[step] if step < len(decisions) else 0
                step += 1
                e = opts[min(idx, len(opts) - 1)]
                cur.append(e)
                nev += 1
                if e[0] == "ok":
                    rw.settled.add(e[1])
                    rw.futs[e[1]].set_result(rw.task_value(e[1]))
                elif e[0] == "fail":
                    rw.settled.add(e[1])
                    rw.futs[e[1]].set_exception(RuntimeError(f"task {e[1]} failed"))
                else:
                    q = rw.streams[e[1]].queue
                    if e[0] == "items":
                        q.cmds.put_nowait(("items", e[2], e[3]))
                        rw.inflight[e[1]] = rw.inflight.get(e[1], 0) + e[2]
                        if e[3]:
                            rw.closing.add(e[1])
                    elif e[0] == "sok":
                        q.cmds.put_nowait(("ok",))
                        rw.closing.add(e[1])
                    else:
                        q.cmds.put_nowait(("fail",))
                        rw.closing.add(e[1])
                if nev >= max_events:
                    break
            if not cur:
                break
            injected.append(cur)
            # inflight items are consumed by the queue once the pump ran
            await settle(probe)
            for sid in list(rw.inflight):
                rw.inflight[sid] = 0
        await settle(probe)
        terminated = state["done"]
        stuck = (not terminated) and not enabled_options(rw) and nev < max_events
        if not terminated:
            try:
                await asyncio.wait_for(wq.cancel(), 5)
            except Exception as e:  # noqa: BLE001
                state["err"] = state["err"] or f"cancel: {type(e).__name__}: {e}"
            await settle(probe)
            if not task.done():
                task.cancel()
        await asyncio.gather(task, return_exceptions=True)
        # real publisher on the real batches
        real_payloads = None
        IP = api.get("IncrementalPublisher")
        if IP is not None:
            try:
                pub = IP()
                pend0 = pub._to_pending_results(wq.initial_groups, wq.initial_streams)  # noqa: SLF001
                real_payloads = [{"data": {}, "pending": [p.formatted for p in pend0], "hasNext": True}]
                for b in batches:
                    real_payloads.append(pub._handle_batch(b).formatted)  # noqa: SLF001
            except Exception as e:  # noqa: BLE001
                real_payloads = ("error", f"{type(e).__name__}: {e}")
        flat = [flatten_event(api, rw, ev) for b in batches for ev in b]
        flat_batches = [[flatten_event(api, rw, ev) for ev in b] for b in batches]
        return {"injected": injected, "flat": flat, "flat_batches": flat_batches, "terminated": terminated, "stuck": stuck,
                "initial_groups": [x.gid for x in wq.initial_groups], "initial_streams": [x.sid for x in wq.initial_streams],
                "err": state["err"], "real_payloads": real_payloads}

    res, _left = fresh_loop_run(main)
    res["options"] = opts_log
    return res


def model_events_of(injected):
    """Injected harness events -> model graph events (a stopping Items is followed by the pump's StreamOk)."""
    out = []
    for b in injected:
        mb = []
        for e in b:
            if e[0] == "items":
                mb.append(("items", e[1], e[2], e[3]))
                if e[3]:
                    mb.append(("sok", e[1]))
            else:
                mb.append(e)
        out.append(mb)
    return out


def abs_from_real_wq(real_payloads):
    """Formatted payloads of the real publisher on fake nodes -> abstract payloads (paths are ints already)."""
    out = []
    nxt = {}
    for k, p in enumerate(real_payloads):
        pend = []
        for e in p.get("pending", []) or []:
            lab = e.get("label") or ""
            st = lab.startswith("s")
            pend.append((int(e["id"]), int(lab[1:] or 0), st, 0, tuple(e.get("path", []))))
        inc = []
        for e in p.get("incremental", []) or []:
            if "items" in e:
                inc.append((1, int(e["id"]), tuple(it[1] for it in e["items"])))
            else:
                inc.append((0, int(e["id"])))
        comp = [int(e["id"]) for e in p.get("completed", []) or []]
        out.append({"has_next": bool(p.get("hasNext")), "pending": pend, "incr": inc, "completed": comp})
    return out


def part_wq(ck, m, tier):
    api, why = resolve_api()
    if api is None:
        ck.degraded.append("direct WorkQueue correspondence skipped: " + why)
        return
    quick = tier == "quick"
    ngraphs = 500 if quick else 3000
    per_graph = 20 if quick else 150
    max_events = 6 if quick else 7
    t0 = time.time()
    budget = 40 if quick else 500
    cases, metas = [], []
    corpus_graphs = [c["graph"] for c in common.load_corpus("C05") if isinstance(c, dict) and "graph" in c]
    graphs = []
    for cg in corpus_graphs:
        graphs.append({"parents": {int(k): v for k, v in cg["parents"].items()},
                       "tasks": {int(k): (v[0], tuple(v[1])) for k, v in cg["tasks"].items()},
                       "streams": {int(k): [tuple(w) for w in v] for k, v in cg["streams"].items()},
                       "work0": tuple(cg["work0"])})
    while len(graphs) < ngraphs + len(corpus_graphs):
        graphs.append(gen_graph(ck.rng))
    for gi, g in enumerate(graphs):
        if time.time() - t0 > budget:
            ck.count("wq_graphs_skipped_time_budget")
            continue
        bsz = [ck.rng.choice([1, 1, 2, 3]) for _ in range(10)]

        def fn(dec, g=g, bsz=bsz):
            try:
                r = drive_wq(api, g, dec, bsz, max_events)
            except Exception as e:  # noqa: BLE001
                r = {"options": [], "harness_error": f"{type(e).__name__}: {e}"}
            return r
        results, exh = explore_schedules(fn, 250 if gi < len(corpus_graphs) else per_graph, ck.rng)
        ck.count("wq_graphs_all_orders_explored" if exh else "wq_graphs_orders_sampled")
        for dec, r in results:
            if "harness_error" in r:
                ck.count("wq_harness_errors")
                ck.extra.setdefault("wq_harness_error_samples", [])
                if len(ck.extra["wq_harness_error_samples"]) < 3:
                    ck.extra["wq_harness_error_samples"].append(r["harness_error"])
                continue
            mev = model_events_of(r["injected"])
            cases.append(enc_wq_case(g, mev))
            metas.append((g, dec, r, mev))
    outs = m.run_batch(cases)
    pub_cases, pub_metas = [], []
    for (g, dec, r, mev), out in zip(metas, outs):
        gdesc = {"parents": g["parents"], "tasks": g["tasks"], "streams": g["streams"], "work0": g["work0"]}
        rep = {"relation": "real WorkQueue events = work-queue model", "graph": gdesc, "events": r["injected"], "schedule": dec}
        key = "wq:" + json.dumps([sorted(g["parents"].items()), sorted(g["tasks"].items()), sorted(g["streams"].items()),
                                   g["work0"], r["injected"]], default=str)
        nontrivial = len(r["flat"]) >= 2
        ck.note_case(key, nontrivial=nontrivial,
                     sample={"graph": gdesc, "events": r["injected"], "impl_events": r["flat"]} if len(ck.samples) < 3 else None)
        ck.count("wq_runs")
        if r["terminated"]:
            ck.count("wq_runs_terminated")
        if out[0] != 1:
            ck.violation("wq-decode:" + key[:100], "model could not decode the case (harness bug)", rep)
            continue
        en, oof, mstopped = out[1:4]
        i = 4
        n = out[i]; ig = out[i + 1:i + 1 + n]; i += 1 + n
        n = out[i]; istr = out[i + 1:i + 1 + n]; i += 1 + n
        nev = out[i]; i += 1
        mflat = []
        for _ in range(nev):
            j, evn = dec_wq_event(out, i)
            mflat.append(evn)
            i = j
        mvalid, mprefix = out[i], out[i + 1]
        i += 2
        mpayloads, i = dec_payloads(out, i)
        if r["err"]:
            ck.violation("wq-raised:" + key[:150], f"WorkQueue.events() raised {r['err']}", rep)
            continue
        if oof:
            ck.violation("wq-oof:" + key[:150], "model recursion ran out of fuel (model bug)", rep)
        if not en:
            ck.violation("wq-enabled:" + key[:150],
                         "the real WorkQueue accepted an event the model considers not enabled (started/ended bookkeeping differs)", rep)
            continue
        if ig != r["initial_groups"] or istr != r["initial_streams"]:
            ck.violation("wq-initial:" + key[:150], "initial groups/streams differ from the model",
                         dict(rep, impl=[r["initial_groups"], r["initial_streams"]], model=[ig, istr]))
            continue
        cop = creation_order_problem(g, r["flat"])
        if cop:
            ck.violation("wq-child-before-shared-parent-value",
                         f"real WorkQueue: {cop} (a pruned group that still held a completed shared task promoted its children)",
                         dict(rep, impl_events=r["flat"]))
            continue
        if mflat != r["flat"]:
            d = next((k for k, (a, b) in enumerate(zip(mflat, r["flat"])) if a != b), min(len(mflat), len(r["flat"])))
            ie = r["flat"][d] if d < len(r["flat"]) else None
            me = mflat[d] if d < len(mflat) else None
            if ie and me and ie[0] == 1 and me[0] == 1 and ie[1] == me[1]:
                extra = set(ie[3:3 + ie[2]]) - set(me[3:3 + me[2]])
                shared = any(set(tg) >= {ie[1], x} for x in extra for (tg, _w) in g["tasks"].values())
                if extra and shared:
                    ck.violation("wq-stale-child-counter",
                                 f"a task shared by group {ie[1]} and its child {sorted(extra)} completed last: the child is promoted "
                                 "(announced) although it has no work left, is never completed and the queue never terminates",
                                 dict(rep, impl_events=r["flat"], model_events=mflat))
                    continue
            ck.violation("wq-events:" + key[:200],
                         f"work-queue events differ from the model at event {d}: impl {r['flat'][d] if d < len(r['flat']) else None} "
                         f"model {mflat[d] if d < len(mflat) else None}",
                         dict(rep, impl_events=r["flat"], model_events=mflat))
            continue
        if bool(mstopped) != bool(r["terminated"]):
            ck.violation("wq-termination:" + key[:150], f"termination differs: impl {r['terminated']} model {bool(mstopped)}", rep)
        if r["stuck"]:
            ck.violation("wq-stuck:" + key[:150], "work remains but no event is enabled and the queue did not terminate", rep)
        # the theorem instance: the model's own payload stream is valid
        if not mprefix or (mstopped and not mvalid):
            ck.violation("wq-model-protocol:" + key[:200],
                         "payload stream of publish(run ...) violates the protocol (model level; events agree with the implementation)",
                         dict(rep, model_payloads=mpayloads))
        rp = r["real_payloads"]
        if rp is None:
            continue
        if isinstance(rp, tuple):
            ck.violation("wq-publisher-raised:" + key[:150], f"IncrementalPublisher raised {rp[1]} on the real batches",
                         dict(rep, impl_events=r["flat_batches"]))
            continue
        ab = abs_from_real_wq(rp)
        parents = sorted(g["parents"].items())
        okp, okc, why2 = py_valid_abs(parents, ab)
        if not okp or (r["terminated"] and not okc):
            ck.violation("wq-protocol:" + key[:200], f"real publisher payloads violate the protocol: {why2}",
                         dict(rep, payloads=rp))
        pc = [3] + enc_env(g) + [len(r["initial_groups"])] + r["initial_groups"] + [len(r["initial_streams"])] + r["initial_streams"]
        pc.append(len(r["flat_batches"]))
        for b in r["flat_batches"]:
            pc.append(len(b))
            for e in b:
                pc += e
        pub_cases.append(pc)
        pub_metas.append((key, rep, ab, rp, parents, okp, okc))
    outs = m.run_batch(pub_cases)
    vcases = []
    for (key, rep, ab, rp, parents, okp, okc), out in zip(pub_metas, outs):
        if out[0] != 1:
            ck.violation("pub-decode:" + key[:100], "publisher model could not decode the case (harness bug)", rep)
            continue
        mp, _ = dec_payloads(out, 1)
        if norm_abs(mp) != norm_abs(ab):
            d = next((k for k, (a, b) in enumerate(zip(norm_abs(mp), norm_abs(ab))) if a != b), min(len(mp), len(ab)))
            ck.violation("publisher:" + key[:200], f"real IncrementalPublisher payload {d} differs from the model publisher",
                         dict(rep, impl_payloads=rp, model_payload=norm_abs(mp)[d] if d < len(mp) else None))
        vcases.append(enc_validator_case(parents, ab))
    outs = m.run_batch(vcases)
    for (key, rep, ab, rp, parents, okp, okc), out in zip(pub_metas, outs):
        if out[:1] != [1] or bool(out[1]) != bool(okc) or bool(out[2]) != bool(okp):
            ck.violation("validators-disagree:" + key[:200],
                         f"extracted valid/valid_prefix = {out[1:3]} but the Python validator says {okc}/{okp}",
                         dict(rep, payloads=rp))
    ck.count("wq_publisher_cases", len(pub_cases))


def creation_order_problem(g, flat):
    """Abstract data dependency on flattened work-queue events (same rule as Explore.creation_ok):
    work declared by a task result / stream item is delivered / announced after that result."""
    t_origin, g_origin, s_origin = {}, {}, {}
    for t, (_tg, w) in g["tasks"].items():
        for x in w[0]:
            g_origin.setdefault(x, ("task", t))
        for x in w[1]:
            t_origin.setdefault(x, ("task", t))
        for x in w[2]:
            s_origin.setdefault(x, ("task", t))
    for sid, items in g["streams"].items():
        for k, w in enumerate(items):
            for x in w[0]:
                g_origin.setdefault(x, ("item", sid, k))
            for x in w[1]:
                t_origin.setdefault(x, ("item", sid, k))
            for x in w[2]:
                s_origin.setdefault(x, ("item", sid, k))
    done_t, done_i = set(), {}

    def ok(o):
        if o is None:
            return True
        if o[0] == "task":
            return o[1] in done_t
        return o[2] < done_i.get(o[1], 0)
    for e in flat:
        if e[0] == 0:
            for t in e[3:3 + e[2]]:
                if not ok(t_origin.get(t)):
                    return f"value of task {t} delivered before the value of {t_origin[t]} whose result declared it"
                done_t.add(t)
        elif e[0] in (1, 3):
            if e[0] == 3:
                done_i[e[1]] = e[2] + e[3]
                i = 4
            else:
                i = 2
            n = e[i]
            ngs = e[i + 1:i + 1 + n]
            k = e[i + 1 + n]
            nss = e[i + 2 + n:i + 2 + n + k]
            for x in ngs:
                if not ok(g_origin.get(x)):
                    return f"group {x} announced before the value of {g_origin[x]} whose result declared it"
            for x in nss:
                if not ok(s_origin.get(x)):
                    return f"stream {x} announced before the value of {s_origin[x]} whose result declared it"
    return None


def dec_wq_event(out, i):
    t = out[i]
    if t == 0:
        n = out[i + 2]
        return i + 3 + n, out[i:i + 3 + n]
    if t == 1:
        n = out[i + 2]
        j = i + 3 + n
        k = out[j]
        return j + 1 + k, out[i:j + 1 + k]
    if t in (2, 4, 5):
        return i + 2, out[i:i + 2]
    if t == 3:
        n = out[i + 4]
        j = i + 5 + n
        k = out[j]
        return j + 1 + k, out[i:j + 1 + k]
    return i + 1, out[i:i + 1]


# =========================================================================== (C) StreamItemQueue


def drive_siq(ops, SIQ, capacity=100):
    """Drive the real StreamItemQueue: ops = ('push', entry) | ('settle', k, ok) | ('pull',).
    entry = ('val', v) | ('fut', k) | ('end',) | ('err',).  Returns (outputs, is_stopped() after every op).
    `capacity` is the constructor argument of the queue (the executor uses the default, 100)."""
    async def main():
        loop = asyncio.get_running_loop()
        cmds = asyncio.Queue()
        futs = {}
        outs = []

        async def produce(queue):
            while True:
                e = await cmds.get()
                if e[0] == "end":
                    return
                if e[0] == "err":
                    raise RuntimeError("source failed")
                if e[0] == "val":
                    await queue.push(("val", e[1]))
                else:
                    await queue.push(futs[e[1]])

        q = SIQ(produce, None, eager=False, capacity=capacity)
        flags = []
        it = q.batches()
        pulling = {"task": None}
        closed = {"v": False}

        def harvest():
            t = pulling["task"]
            if t is not None and t.done():
                pulling["task"] = None
                try:
                    b = t.result()
                    outs.append(("batch", [x for x in b]))
                except StopAsyncIteration:
                    outs.append(("finished",))
                    closed["v"] = True
                except asyncio.CancelledError:
                    outs.append(("cancelled",))
                    closed["v"] = True
                except Exception:  # noqa: BLE001
                    outs.append(("raised",))
                    closed["v"] = True

        for op in ops:
            if op[0] == "push":
                e = op[1]
                if e[0] == "fut" and e[1] not in futs:
                    futs[e[1]] = loop.create_future()
                cmds.put_nowait(e)
            elif op[0] == "settle":
                f = futs.get(op[1])
                if f is None:
                    f = futs[op[1]] = loop.create_future()
                if not f.done():
                    if op[2]:
                        f.set_result(("futval", op[1]))
                    else:
                        f.set_exception(RuntimeError("item failed"))
                        f.exception()
            else:
                if pulling["task"] is None and not closed["v"]:
                    pulling["task"] = asyncio.ensure_future(anext(it))
            for _ in range(12):
                await asyncio.sleep(0)
            harvest()
            flags.append(bool(q.is_stopped()))
        # cleanup
        if pulling["task"] is not None:
            pulling["task"].cancel()
            await asyncio.gather(pulling["task"], return_exceptions=True)
        r = q.abort()
        if r is not None:
            await r
        try:
            await it.aclose()
        except Exception:  # noqa: BLE001
            pass
        for f in futs.values():
            if not f.done():
                f.cancel()
        for _ in range(10):
            await asyncio.sleep(0)
        return outs, flags

    res, _ = fresh_loop_run(main)
    return res


def enc_siq_ops(ops, capacity=100):
    out = [4, capacity, len(ops)]
    for op in ops:
        if op[0] == "push":
            e = op[1]
            out += [0] + ([0, e[1]] if e[0] == "val" else [1, e[1]] if e[0] == "fut" else [2] if e[0] == "end" else [3])
        elif op[0] == "settle":
            out += [1, op[1], 1 if op[2] else 0]
        else:
            out += [2]
    return out


def dec_siq_out(out):
    if out[0] != 1:
        return None
    n, i, res = out[1], 2, []
    for _ in range(n):
        if out[i] == 0:
            k = out[i + 1]
            i += 2
            es = []
            for _ in range(k):
                if out[i] == 0:
                    es.append(("val", out[i + 1]))
                    i += 2
                elif out[i] == 1:
                    es.append(("futval", out[i + 1]))
                    i += 2
                else:
                    es.append(("?", out[i]))
                    i += 1
            res.append(("batch", es))
        elif out[i] == 1:
            res.append(("finished",))
            i += 1
        else:
            res.append(("raised",))
            i += 1
    nf = out[i]
    flags = [(bool(out[i + 1 + 2 * j]), out[i + 2 + 2 * j]) for j in range(nf)]
    return res, flags


def valid_siq_script(ops):
    """Producer side well-formedness: nothing pushed after end/err; a future id pushed once; settle each id once."""
    ended, pushed, settled = False, set(), set()
    for op in ops:
        if op[0] == "push":
            if ended:
                return False
            if op[1][0] in ("end", "err"):
                ended = True
            if op[1][0] == "fut":
                if op[1][1] in pushed:
                    return False
                pushed.add(op[1][1])
        elif op[0] == "settle":
            if op[1] in settled:
                return False
            settled.add(op[1])
    return True


def part_siq(ck, m, tier):
    try:
        from graphql.execution.incremental.stream_item_queue import StreamItemQueue as SIQ
    except Exception as e:  # noqa: BLE001
        ck.degraded.append(f"StreamItemQueue correspondence skipped: {e!r}")
        return
    quick = tier == "quick"
    alphabet = [("push", ("val", 7)), ("push", ("fut", 1)), ("push", ("fut", 2)), ("push", ("end",)), ("push", ("err",)),
                ("settle", 1, True), ("settle", 1, False), ("settle", 2, True), ("pull",)]
    n = 4 if quick else 6
    scripts = [s for s in common.strings_upto(alphabet, n) if valid_siq_script(s)]
    if quick:
        ck.rng.shuffle(scripts)
        scripts = scripts[:2500]
    elif len(scripts) > 25000:
        ck.rng.shuffle(scripts)
        scripts = scripts[:25000]
    # number the pushed values so that order and uniqueness are observable; every script runs with a small
    # capacity of the entries queue (back-pressure: the producer - also its final end / failure marker - is parked
    # on the full queue while entries are held or pending), a part of them also with the executor's default
    cases = []
    numbered = []
    for j, s in enumerate(scripts):
        k = 0
        t = []
        for op in s:
            if op[0] == "push" and op[1][0] == "val":
                k += 1
                t.append(("push", ("val", 100 + k)))
            else:
                t.append(op)
        npush = sum(1 for op in t if op[0] == "push")
        caps = [1, 2] if npush >= 2 else [1]
        if j % 3 == 0 or npush < 2:
            caps.append(100)
        for cap in caps:
            numbered.append((t, cap))
            cases.append(enc_siq_ops(t, cap))
    outs = m.run_batch(cases)
    for (s, cap), out in zip(numbered, outs):
        dec = dec_siq_out(out)
        if dec is None:
            ck.count("siq_decode_errors")
            continue
        mo, mflags = dec
        try:
            io, iflags = drive_siq(s, SIQ, cap)
        except Exception as e:  # noqa: BLE001
            ck.count("siq_harness_errors")
            continue
        ion = [(o[0], [("val", x[1]) if x[0] == "val" else ("futval", x[1]) for x in o[1]]) if o[0] == "batch" else o for o in io]
        key = f"siq:cap{cap}:" + json.dumps(s)
        ck.note_case(key, nontrivial=any(o[0] == "batch" for o in ion))
        ck.count("siq_scripts")
        ck.count(f"siq_capacity_{cap}")
        if ("cancelled",) in ion:
            ck.violation("siq-source-failure-cancels-pending-item",
                         "StreamItemQueue: the source failed while an earlier item future was pending; the consumer of batches() "
                         f"got CancelledError instead of the items followed by the failure (ops {s})",
                         {"relation": "batches() = queue model", "ops": s, "impl": ion, "model": mo})
        elif ion != mo:
            ck.violation(key, f"StreamItemQueue.batches() (capacity {cap}) outputs differ from the model: impl {ion} model {mo}",
                         {"relation": "batches() = queue model", "ops": s, "capacity": cap, "impl": ion, "model": mo})
        elif any(a and mf[1] > 0 for a, mf in zip(iflags, mflags)):
            d = next(i for i, (a, mf) in enumerate(zip(iflags, mflags)) if a and mf[1] > 0)
            ck.violation("siq-stopped-with-outstanding-items:" + key,
                         f"StreamItemQueue.is_stopped() (capacity {cap}) is True after operation {d} of {s} although "
                         f"{mflags[d][1]} pushed item(s) have not been delivered yet (held back for the next batch, queued, or "
                         "not yet put by the parked producer): the stream would be completed before its last items",
                         {"relation": "is_stopped() implies that no pushed item is outstanding", "ops": s, "capacity": cap,
                          "impl_flags": iflags, "model_flags": mflags, "impl": ion})
        else:
            if iflags != [mf[0] for mf in mflags]:
                ck.count("siq_completion_timing_differs_from_model")   # allowed: when the end becomes known is not fixed
            # direct order law: delivered values = pushed value entries in push order, each once
            pushed = [("val", op[1][1]) if op[1][0] == "val" else ("futval", op[1][1]) for op in s
                      if op[0] == "push" and op[1][0] in ("val", "fut")]
            delivered = [x for o in ion if o[0] == "batch" for x in o[1]]
            if delivered != pushed[:len(delivered)]:
                ck.violation("siq-order:" + json.dumps(s), f"delivered {delivered} is not a prefix of pushed {pushed}",
                             {"relation": "push order", "ops": s})


# =========================================================================== (D) model-level exhaustive exploration


def part_explore(ck, m, tier):
    """The extracted explorer (Explore.check_path over all enabled event sequences up to a depth) on generated graphs:
    graph invariant, never stuck, protocol validity, creation order, node-level well-formedness."""
    quick = tier == "quick"
    n = 250 if quick else 4000
    cap = 2e4 if quick else 2e5
    cases, metas = [], []
    for _ in range(n):
        g = gen_graph(ck.rng)
        c = 2 * len(g["tasks"]) + sum(2 * len(it) + 2 for it in g["streams"].values())
        depth = 3
        while depth < 9 and c ** (depth + 1) <= cap:
            depth += 1
        cases.append([5, depth] + enc_env(g) + enc_work(g["work0"]))
        metas.append((g, depth))
    outs = m.run_batch(cases, timeout=1500)
    total = 0
    for (g, depth), out in zip(metas, outs):
        if out[:1] != [1]:
            ck.count("explore_decode_errors")
            continue
        ok, npaths = out[1], out[2]
        total += npaths
        if out[3]:
            ck.count("explore_flat_graphs")
        if out[4]:
            ck.count("explore_graphs_init_ok")
        else:
            ck.count("explore_graphs_init_not_ok")
            ck.extra.setdefault("init_not_ok_samples", [])
            if len(ck.extra["init_not_ok_samples"]) < 3:
                ck.extra["init_not_ok_samples"].append(g)
        key = "explore:" + json.dumps([sorted(g["parents"].items()), sorted(g["tasks"].items()), sorted(g["streams"].items()),
                                        g["work0"]], default=str)
        ck.note_case(key, nontrivial=npaths > 3)
        if not ok:
            ck.violation(key[:300], f"model-level exploration: an enabled event sequence of length <= {depth} violates the graph invariant / "
                         "protocol / creation order on this work graph (the model agrees with the implementation on the sampled runs)",
                         {"relation": "Explore.check_path on every enabled path", "graph": g, "depth": depth, "failing_events": out[5:]})
    ck.count("explore_graphs", len(cases))
    ck.count("explore_paths_checked", total)


# =========================================================================== (E) corpus regression scripts


def part_corpus(ck):
    """Stand-alone minimal reproductions of the defects found by this check (exit code 1 = violated)."""
    import subprocess
    import sys
    d = common.CORPUS / "C05"
    for p in sorted(d.glob("repro_*.py")):
        try:
            q = subprocess.run([sys.executable, str(p)], capture_output=True, text=True, timeout=60,
                               env=dict(__import__("os").environ, PYTHONPATH=str(common.REPO / "src")))
            code, tail = q.returncode, (q.stdout + q.stderr).strip().splitlines()[-1:]
        except subprocess.TimeoutExpired:
            code, tail = 1, ["timeout (hang)"]
        ck.note_case(("corpus", p.name), nontrivial=True)
        ck.count("corpus_scripts")
        if code != 0:
            ck.violation("corpus:" + p.name, f"regression script {p.name} reports a violation: {' '.join(tail)[:200]}",
                         {"relation": "minimal reproduction of an earlier finding", "script": str(p)})


# =========================================================================== entry


def run(tier):
    ck = Check("C05", tier)
    seen_keys = set()
    orig_violation = ck.violation

    def violation(key, what, replay):  # one report per canonical key
        if key in seen_keys:
            ck.count("repeated_violation_reports")
            return
        seen_keys.add(key)
        orig_violation(key, what, replay)
    ck.violation = violation
    ck.assumptions += ASSUMPTIONS
    br = common.build("C05", models=("workqueue",))
    ck.proofs(br)
    if not br.ok:
        return ck.finish()
    m = Model("workqueue")
    ck.rule = ("(A) random small work graphs (<=3 groups with parents, <=4 tasks in 1..2 groups, <=2 streams with <=3 items, nested "
               "work in task results and stream items, children sometimes listed before parents) x event orders (DFS over all "
               "enabled choices of task success/failure, stream batch of 1/2/all+stop, stream end, stream failure, batches of 1-3 "
               "events, up to a per-graph run limit): real WorkQueue flattened events = model; real IncrementalPublisher payloads "
               "= model publisher; payloads valid by extracted and Python validators.  (B) 27 @defer/@stream requests x "
               "{sync, all async, mixed} resolvers x early execution {off,on} x completion orders (DFS, exhaustive when small): "
               "payload stream valid, targets exist when entries are applied in order.  (C) all well-formed StreamItemQueue scripts "
               "up to a length bound.  (D) the extracted explorer (all enabled event sequences up to a depth) on generated graphs.  "
               "(E) stand-alone reproductions of earlier findings.  non-trivial = the run produced at least 2 work-queue events / "
               "2 payloads / 1 delivered batch / more than 3 explored paths")
    import os
    parts = os.environ.get("VERIF_C05_PARTS", "corpus,wq,e2e,siq,explore").split(",")
    if "corpus" in parts:
        part_corpus(ck)
    if "wq" in parts:
        part_wq(ck, m, tier)
    if "e2e" in parts:
        part_e2e(ck, m, tier)
        part_e2e_boundary(ck, m)
    if "siq" in parts:
        part_siq(ck, m, tier)
    if "explore" in parts:
        part_explore(ck, m, tier)
    return ck.finish()


def replay(path):
    d = json.loads(open(path).read())
    print(json.dumps(d, indent=1)[:6000])
    rel = d.get("relation", "")
    if "query" in d:
        from graphql import build_schema, parse
        schema = build_schema(SDL)
        r = run_e2e(schema, parse(d["query"]), d["data_variant"], d["async_mode"], d["early_execution"], d["schedule"],
                    d.get("mixed_seed", 0))
        print("re-run payloads:")
        for _, p in r["payloads"]:
            print(" ", json.dumps(p, default=str))
        print("error:", r["error"])
    elif "graph" in d and "events" in d:
        api, why = resolve_api()
        if api is None:
            print("work queue internals not available:", why)
            return 0
        g0 = d["graph"]
        g = {"parents": {int(k): v for k, v in g0["parents"].items()},
             "tasks": {int(k): (v[0], tuple(v[1])) for k, v in g0["tasks"].items()},
             "streams": {int(k): [tuple(w) for w in v] for k, v in g0["streams"].items()},
             "work0": tuple(g0["work0"])}
        sizes = [len(b) for b in d["events"]] + [1] * 10
        r = drive_wq(api, g, d.get("schedule", []), sizes, sum(len(b) for b in d["events"]))
        print("re-run injected events:", r["injected"])
        print("re-run work-queue events (flattened):", r["flat"])
        print("terminated:", r["terminated"], "error:", r["err"])
        print("real publisher payloads:")
        for p in (r["real_payloads"] or []) if not isinstance(r["real_payloads"], tuple) else [r["real_payloads"]]:
            print(" ", json.dumps(p, default=str))
        m = Model("workqueue")
        out = m.run_batch([enc_wq_case(g, model_events_of(r["injected"]))])[0]
        print("model answer (enabled, oof, stopped, ...):", out[:60])
    return 0
