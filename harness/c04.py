"""C04 - incremental delivery reassembles to the non-incremental response."""
from __future__ import annotations

import copy
import json

from . import common, gen_exec as G
from .c03 import World, FIELDS_OBJ
from .common import Check, Model
from .loopctl import Controller

ASSUMPTIONS = [
    "C04 models: Incr/Plan.v (build_execution_plan; partition theorems) and Incr/Merge.v (client-side reassembly, the merge oracle); the incremental executor itself is not modelled: reassembly is checked on real runs against the implementation's own execution of the same operation with @defer/@stream removed",
    "objects are compared as unordered maps, lists in order (a deferred field necessarily arrives after later non-deferred siblings)",
    "payload boundaries and ids are free; only the merged result is compared",
    "completion orders and pull timing are explored with the controlled event loop, not enumerated exhaustively",
]

SDL = """
directive @defer(if: Boolean = true, label: String) on FRAGMENT_SPREAD | INLINE_FRAGMENT
directive @stream(if: Boolean = true, label: String, initialCount: Int = 0) on FIELD
type Query { a: Obj b: Obj c: Obj me: Obj slow: Obj nn: Obj! list: [Obj] nnlist: [Obj!] it: I un: U }
interface I { id: ID name: String }
type Obj implements I { id: ID name: String req: String! bestFriend: Obj nnFriend: Obj! friends: [Obj] nnFriends: [Obj!]! }
type Other { x: Int  o: Obj }
union U = Obj | Other
"""

QUERIES = [
    "{ me { id ... @defer { name } friends { id } } }",
    "{ me { id ... @defer(label: \"A\") { name bestFriend { id ... @defer(label: \"B\") { name } } } } a { id } }",
    "{ ... @defer(label: \"A\") { me { name } } ... @defer(label: \"C\") { me { id ... @defer(label: \"B\") { req } } } }",
    "{ me { ...F @defer(label: \"x\") id } b { ...F } } fragment F on Obj { name bestFriend { id } }",
    "{ me { ... @defer { id name } ... @defer { id req } } }",
    "query Q($d: Boolean = false) { me { id ... @defer(if: $d) { name } ... @defer(label: \"on\") { req } } }",
    "{ list @stream(initialCount: 1) { id name } me { id } }",
    "{ me { friends @stream(initialCount: 0) { id ... @defer { name } } nnFriends @stream(initialCount: 1) { req } } }",
    "{ list @stream { id bestFriend { name ... @defer { id } } } }",
    "{ me { ... @defer(label: \"outer\") { name friends @stream(initialCount: 1, label: \"s\") { id } } } }",
    "{ a { ... @defer { id } } b { ... @defer { id ... @defer { name ... @defer { req } } } } c { id } }",
    "{ it { id ... on Obj @defer { req bestFriend { name } } } un { ... on Obj { id ... @defer { name } } ... on Other @defer { x } } }",
    "{ me { nnFriend { req ... @defer { name nnFriend { req } } } } }",
    "{ me { id ...G } } fragment G on Obj { ... @defer(label: \"g1\") { name ...H @defer(label: \"g2\") } } fragment H on Obj { req friends { id } }",
    "{ ... @defer { a { id } } ... @defer { a { name } b { id } } c { ... @defer(if: false) { name } } }",
    "{ a: me { ...F } b: me { ...F friends @stream(initialCount: 1) { id } } } fragment F on Obj { friends @stream(initialCount: 1) { name } }",
    "{ a: me { ...F } b: me { friends @stream(initialCount: 0) { id bestFriend { name } } ...F } c: me { ...F @defer } } fragment F on Obj { friends @stream(initialCount: 0) { name bestFriend { id } } }",
    "{ list @stream(initialCount: 1) { ...F } b: list @stream(initialCount: 1) { ...F req } } fragment F on Obj { id nnFriends @stream(initialCount: 1) { name } }",
    "{ me { friends { ... @defer(label: \"D\") { bestFriend { name req } } ... @defer(label: \"X\") { bestFriend { name } } } } ... @defer(label: \"R\") { a { id } } }",
    "{ ... @defer(label: \"o\") { me { name } } ... @defer(label: \"g\") { slow { id } me { ... @defer(label: \"i\") { name } } } }",
]


class QGen:
    """Random @defer/@stream queries over the Obj schema (validated afterwards)."""

    def __init__(self, rng):
        self.r, self.labels, self.frags = rng, 0, []

    def label(self):
        self.labels += 1
        return f'label: "L{self.labels}"'

    def defer(self):
        x = self.r.random()
        if x < 0.45:
            return ""
        args = []
        if self.r.random() < 0.5:
            args.append(self.label())
        if self.r.random() < 0.12:
            args.append("if: false")
        return " @defer" + ("(" + ", ".join(args) + ")" if args else "")

    def stream(self):
        if self.r.random() < 0.55:
            return ""
        args = [f"initialCount: {self.r.choice([0, 1, 1, 2])}"]
        if self.r.random() < 0.4:
            args.append(self.label())
        return " @stream(" + ", ".join(args) + ")"

    def sel(self, depth, n=None):
        out = []
        for _ in range(n or self.r.randint(1, 4)):
            k = self.r.random()
            alias = (self.r.choice(["x", "y", "z"]) + ": ") if self.r.random() < 0.12 else ""
            if k < 0.35 or depth <= 0:
                out.append(alias + self.r.choice(["id", "name", "name", "req"]))
            elif k < 0.5:
                out.append(alias + self.r.choice(["bestFriend", "bestFriend", "nnFriend"]) + " { " + self.sel(depth - 1) + " }")
            elif k < 0.68:
                out.append(alias + self.r.choice(["friends", "friends", "nnFriends"]) + self.stream() + " { " + self.sel(depth - 1) + " }")
            elif k < 0.88:
                cond = " on Obj" if self.r.random() < 0.4 else ""
                out.append("..." + cond + self.defer() + " { " + self.sel(depth, self.r.randint(1, 3)) + " }")
            else:
                if self.frags and self.r.random() < 0.5:
                    name = self.r.choice(self.frags)[0]
                else:
                    name = f"F{len(self.frags)}"
                    self.frags.append((name, None))
                    body = self.sel(depth - 1)
                    self.frags = [(a, body if a == name else b) for a, b in self.frags]
                out.append("..." + name + self.defer())
        return " ".join(out)

    def query(self):
        roots = []
        for _ in range(self.r.randint(1, 3)):
            k = self.r.random()
            if k < 0.5:
                roots.append(self.r.choice(["me", "a", "b", "slow", "nn"]) + " { " + self.sel(2) + " }")
            elif k < 0.75:
                roots.append(self.r.choice(["list", "nnlist"]) + self.stream() + " { " + self.sel(2) + " }")
            else:
                roots.append("..." + self.defer() + " { " + self.r.choice(["me", "a", "slow"]) + " { " + self.sel(2) + " } }")
        text = "{ " + " ".join(roots) + " }"
        for name, body in self.frags:
            text += f" fragment {name} on Obj {{ {body or 'id'} }}"
        return text


class Cover:
    """Covering generator: a directive-free base selection tree is rendered with overlapping deferred
    fragments (the same field under several fragments with overlapping sub-selections, nested defers,
    defers inside list items and streams, the same named fragment spread at several places)."""

    SCALARS = ["id", "name", "req"]

    def __init__(self, rng):
        self.r, self.labels, self.stream_args, self.frags, self.nfrag = rng, 0, {}, {}, 0
        self.base = self.mk_root()

    def mk_obj(self, depth):
        node = {}
        for f in self.r.sample(self.SCALARS, self.r.randint(1, 3)):
            node[f] = ("scalar", None)
        if depth > 0:
            for f in self.r.sample(["bestFriend", "friends", "friends", "nnFriends", "nnFriend"][:4] if self.r.random() < 0.5 else ["bestFriend", "nnFriend", "friends", "nnFriends"], self.r.randint(0, 2)):
                node[f] = ("list" if "riends" in f else "obj", self.mk_obj(depth - 1))
        return node

    def mk_root(self):
        node = {}
        for f in self.r.sample(["me", "a", "slow", "list", "nnlist", "nn"], self.r.randint(1, 3)):
            node[f] = ("list" if "list" in f else "obj", self.mk_obj(2))
        return node

    def label(self):
        self.labels += 1
        return f'label: "L{self.labels}"'

    def defer(self, p_none=0.15):
        if self.r.random() < p_none:
            return ""
        args = [self.label()] if self.r.random() < 0.7 else []
        if self.r.random() < 0.08:
            args.append("if: false")
        return " @defer" + ("(" + ", ".join(args) + ")" if args else "")

    def field(self, node, f, path):
        kind, child = node[f]
        if kind == "scalar":
            return f
        st = ""
        if kind == "list":
            key = path + (f,)
            if key not in self.stream_args:
                self.stream_args[key] = (f" @stream(initialCount: {self.r.choice([0, 1, 1, 2])})"
                                         if self.r.random() < 0.45 else "")
            st = self.stream_args[key]
        if self.r.random() < 0.3:
            # the same field twice under different aliases: fragments of the base node are shared between both
            self.nalias = getattr(self, "nalias", 0) + 1
            a = f"al{self.nalias}"
            return (f"{a}a: " + f + st + " { " + self.render(child, path + (f,)) + " } "
                    + f"{a}b: " + f + st + " { " + self.render(child, path + (f,)) + " }")
        return f + st + " { " + self.render(child, path + (f,)) + " }"

    def render(self, node, path):
        fields = list(node)
        parts, used = [], set()
        for f in fields:
            if self.r.random() < 0.45:
                parts.append(self.field(node, f, path))
                used.add(f)
        for _ in range(self.r.randint(0, 3)):
            sub = [f for f in fields if self.r.random() < 0.6] or [self.r.choice(fields)]
            used.update(sub)
            if self.r.random() < 0.4 and path:
                # named fragment on Obj, reusable at every rendering of this base node
                same_path = [k for k in self.frags if k[0] == path]
                key = self.r.choice(same_path) if same_path and self.r.random() < 0.6 else (path, tuple(sub))
                if key not in self.frags:
                    sub = list(key[1])
                    self.nfrag += 1
                    self.frags[key] = (f"F{self.nfrag}", " ".join(self.field(node, f, path) for f in sub))
                parts.append("..." + self.frags[key][0] + self.defer(0.4))
            else:
                parts.append("..." + self.defer() + " { " + " ".join(self.field(node, f, path) for f in sub) + " }")
        for f in fields:
            if f not in used:
                parts.append(self.field(node, f, path))
        self.r.shuffle(parts)
        return " ".join(parts)

    def query(self):
        text = "{ " + self.render(self.base, ()) + " }"
        for name, body in self.frags.values():
            text += f" fragment {name} on Obj {{ {body} }}"
        return text


def strip_directives(doc):
    """The same operation with @defer/@stream removed."""
    from graphql.language import Visitor, visit, REMOVE

    class V(Visitor):
        def enter_directive(self, node, *_a):
            if node.name.value in ("defer", "stream"):
                return REMOVE
            return None
    return visit(doc, V())


def py_merge(initial, payloads):
    """Python reference of the client merge (same algorithm as Incr/Merge.v)."""
    data = copy.deepcopy(initial.get("data"))
    pending = {p["id"]: list(p["path"]) for p in initial.get("pending", [])}
    problems = []

    def at(path):
        cur = data
        for seg in path:
            cur = cur[seg]
        return cur

    def deep(old, new):
        for k, v in new.items():
            if k in old and isinstance(old[k], dict) and isinstance(v, dict):
                deep(old[k], v)
            else:
                old[k] = copy.deepcopy(v)
    reordered = 0
    applied_order = []
    for p in payloads:
        for pe in p.get("pending", []):
            pending[pe["id"]] = list(pe["path"])
        todo = list(p.get("incremental", []))
        this_order = []
        progress = True
        first_pass = True
        while todo and progress:
            progress, rest = False, []
            for inc in todo:
                if inc["id"] not in pending:
                    problems.append(f"incremental entry for id {inc['id']} which is not pending")
                    progress = True
                    continue
                try:
                    if "items" in inc:
                        tgt = at(pending[inc["id"]])
                        if not isinstance(tgt, list):
                            problems.append("stream target is not a list")
                            progress = True
                            continue
                        tgt.extend(copy.deepcopy(inc["items"]))
                    else:
                        tgt = at(pending[inc["id"]] + list(inc.get("subPath", [])))
                        if not isinstance(tgt, dict):
                            problems.append("defer target is not an object")
                            progress = True
                            continue
                        deep(tgt, inc["data"])
                    progress = True
                    this_order.append(inc)
                except (KeyError, IndexError, TypeError):
                    rest.append(inc)  # target not there yet: retry after the other entries of this payload
            if rest and first_pass and len(rest) < len(todo):
                reordered += 1
            first_pass = False
            todo = rest
        for inc in todo:
            problems.append(f"target of id {inc['id']} does not exist in the assembled data")
        applied_order.append(this_order)
        for c in p.get("completed", []):
            pending.pop(c["id"], None)
    py_merge.last_reordered = reordered
    py_merge.last_order = applied_order
    return data, problems, pending


def enc_path(path):
    return G.W(80, [], [G.w_str(s, 81) if isinstance(s, str) else G.W(82, [s]) for s in path])


def enc_merge_case(initial, payloads):
    pend = lambda ps: G.W(5, [], [G.W(201, [int(p["id"])], [enc_path(p["path"])]) for p in ps])  # noqa: E731
    pls = []
    for p in payloads:
        incs = []
        for inc in p.get("incremental", []):
            if "items" in inc:
                incs.append(G.W(204, [int(inc["id"])], [G.W(5, [], [G.enc_pyjson(x) for x in inc["items"]])]))
            else:
                incs.append(G.W(203, [int(inc["id"])], [enc_path(inc.get("subPath", [])), G.enc_pyjson(inc["data"])]))
        pls.append(G.W(202, [], [pend(p.get("pending", [])), G.W(5, [], incs),
                                 G.W(6, [int(c["id"]) for c in p.get("completed", [])])]))
    return [2] + G.flatten(G.W(200, [], [G.enc_pyjson(initial.get("data")), pend(initial.get("pending", [])), G.W(5, [], pls)]))


def contained(merged, ref):
    """merged is ref with some subtrees replaced by null, some keys / list tails withheld."""
    if merged is None:
        return True
    if isinstance(ref, dict):
        return isinstance(merged, dict) and all(k in ref and contained(v, ref[k]) for k, v in merged.items())
    if isinstance(ref, list):
        return isinstance(merged, list) and len(merged) <= len(ref) and all(contained(a, b) for a, b in zip(merged, ref))
    return merged == ref


FRAGARG_SDL = """
type Query { friends: [P] me: P greet(who: String = "dflt"): String }
type P { greet(who: String = "dflt", n: Int): String id: ID friends: [P] best: P }
"""
FRAGARG_DOCS = [
    ('query { ...F(who: "bob") } fragment F($who: String) on Query { friends @stream(initialCount: 1) { greet(who: $who) } }', {}),
    ('query ($w: String) { ...F(who: $w) } fragment F($who: String = "fd") on Query { friends @stream(initialCount: 0) { greet(who: $who) id } }', {"w": "ann"}),
    ('query ($w: String) { ...F(who: $w) } fragment F($who: String = "fd") on Query { friends @stream(initialCount: 2) { greet(who: $who) } }', {}),
    ('query { me { ...G(who: "x", n: 3) @defer(label: "d") id } } fragment G($who: String, $n: Int) on P { greet(who: $who, n: $n) best { greet(who: $who) } }', {}),
    ('query { me { ...G(who: "x") } } fragment G($who: String) on P { id ... @defer { greet(who: $who) friends @stream(initialCount: 1) { greet(who: $who) } } }', {}),
    ('query { ...F(who: "a") ...H(who: "b") } fragment F($who: String) on Query { friends @stream(initialCount: 1) { a: greet(who: $who) } } '
     'fragment H($who: String) on Query { me { ... @defer { b: greet(who: $who) } } }', {}),
    ('query ($who: String = "op") { ...F me { greet(who: $who) } } fragment F($who: String) on Query { friends @stream(initialCount: 1) { greet(who: $who) ...K(who: "inner") } } '
     'fragment K($who: String) on P { best { ... @defer { greet(who: $who) } } }', {}),
]


def fragment_arguments_family(ck):
    """@defer/@stream inside fragments with (experimental) fragment arguments: the reassembled incremental result must be
    the result of the same request without the directives (the arguments of deferred/streamed fields see the same
    fragment variable values)."""
    import asyncio
    from graphql import build_schema, execute_sync, parse
    from graphql.execution import experimental_execute_incrementally

    class P:
        def __init__(self, i, depth=2):
            self.id = str(i)
            self._d = depth

        def greet(self, _info, who="dflt", n=None):
            return f"hi {who}/{n}/{self.id}"

        def friends(self, _info):
            return [P(f"{self.id}.{k}", self._d - 1) for k in range(3)] if self._d > 0 else []

        def best(self, _info):
            return P(self.id + ".b", self._d - 1) if self._d > 0 else None
    schema = build_schema(FRAGARG_SDL)
    root = {"friends": [P(0), P(1), P(2), P(3)], "me": P(9), "greet": lambda _i, who="dflt": f"root {who}"}
    for text, variables in FRAGARG_DOCS:
        doc = parse(text, experimental_fragment_arguments=True)
        ref = execute_sync(schema, strip_directives(doc), root, variable_values=variables)
        for early in (False, True):
            async def run_one():
                r = experimental_execute_incrementally(schema, doc, root, variable_values=variables,
                                                       enable_early_execution=early)
                if asyncio.iscoroutine(r) or asyncio.isfuture(r):
                    r = await r
                if not hasattr(r, "initial_result"):
                    return r.formatted, []
                return r.initial_result.formatted, [p.formatted async for p in r.subsequent_results]
            loop = asyncio.new_event_loop()
            try:
                initial, payloads = loop.run_until_complete(asyncio.wait_for(run_one(), 10))
                merged, problems, _pending = py_merge(initial, payloads)
            except Exception as e:  # noqa: BLE001
                merged, problems = None, [f"raised {type(e).__name__}: {e}"[:200]]
            finally:
                loop.close()
            ck.evaluations += 1
            ck.note_case(("fragarg", text, early), nontrivial=True)
            if problems or merged != ref.data or ref.errors:
                ck.violation(f"fragment-arguments:{text!r}:early={early}",
                             f"with fragment arguments the reassembled incremental result differs from the execution without "
                             f"@defer/@stream: {problems[:2] or ''} merged {merged!r:.200} reference {ref.data!r:.200}",
                             {"relation": "merge(incremental) = non-incremental execution", "document": text,
                              "variables": variables, "early": early, "impl": repr(merged)[:600], "model": repr(ref.data)[:600]})


def run(tier):
    from graphql import build_schema, execute_sync, parse
    from graphql.execution import experimental_execute_incrementally, ExecutionResult

    ck = Check("C04", tier)
    ck.assumptions += ASSUMPTIONS
    from . import cdefer  # lazily: cdefer imports c04
    br = common.build("C04", models=("incr", "defer"), extra_targets=("theories/Properties/C04defer.vo",))
    ck.proofs(br, extra_files=("C04defer",))
    ck.assumptions += cdefer.ASSUMPTIONS
    if not br.ok:
        return ck.finish()
    m = Model("incr")
    quick = tier == "quick"
    rng = ck.rng
    schema = build_schema(SDL)
    ck.rule = ("@defer/@stream requests (nested, labelled, if:false, overlapping fragments, streams with initialCount, defers "
               "inside streams) x resolver behaviours (sync/async x value; error cases null/raise in a separate stream) x "
               "completion orders x enable_early_execution in {F,T}: payloads merged by the extracted merge oracle and by a "
               "Python merge; merged == execute_sync of the operation with the directives removed (error-free runs) / contained "
               "in the non-propagating reference with every withheld id completed with errors (error runs); "
               "build_execution_plan driven directly on generated grouped field sets vs the Coq model. non-trivial = at least "
               "one subsequent payload carrying data")
    docs = [(q, parse(q)) for q in QUERIES]
    from graphql import validate
    ngen = 0
    for _ in range(400 if quick else 6000):
        if ngen >= (120 if quick else 700):
            break
        q = QGen(rng).query() if rng.random() < 0.35 else Cover(rng).query()
        if "@defer" not in q and "@stream" not in q:
            continue
        try:
            d = parse(q)
        except Exception:  # noqa: BLE001
            ck.count("generator_syntax_error")
            continue
        if validate(schema, d):
            ck.count("rejected_by_validate")
            continue
        docs.append((q, d))
        ngen += 1
    ck.count("generated_queries", ngen)
    nruns = 0
    merge_cases, merge_meta = [], []
    for q, doc in docs:
        ref_doc = strip_directives(doc)
        ntrials = (4 if quick else 20) if q in QUERIES else (3 if quick else 5)
        for trial in range(ntrials):
            log0 = []
            w0 = World(rng, [None], {}, log0)
            execute_sync(schema, ref_doc, w0.root())
            paths = sorted({p for ev, p in log0 if ev == "call"}, key=repr)
            beh = {}
            with_errors = trial % 3 == 2
            for p in paths:
                mode = "async" if rng.random() < (0.0 if trial == 0 else 0.35) else "sync"
                what = "value"
                if with_errors:
                    x = rng.random()
                    what = "raise" if x < 0.08 else ("null" if x < 0.14 else "value")
                if mode != "sync" or what != "value":
                    beh[p] = (mode, what)
            variables = {"d": rng.random() < 0.5} if "$d" in q else None
            # reference: same operation without the directives, synchronous
            ws = World(rng, [None], {p: ("sync", wh) for p, (m_, wh) in beh.items()}, [])
            ref = execute_sync(schema, ref_doc, ws.root(), variable_values=variables)
            error_free = not ref.errors
            # non-propagating reference for the containment clause
            ref_np = None
            if not error_free:
                np_doc = parse("query @experimental_disableErrorPropagation " + q if not q.startswith("query")
                               else q.replace(") {", ") @experimental_disableErrorPropagation {", 1))
                wn = World(rng, [None], {p: ("sync", wh) for p, (m_, wh) in beh.items()}, [])
                try:
                    ref_np = execute_sync(schema, strip_directives(np_doc), wn.root(), variable_values=variables)
                except Exception:  # noqa: BLE001
                    ref_np = None
            async_labels = [p for p, (m_, _) in beh.items() if m_ == "async"]
            orders = [tuple(async_labels)]
            if async_labels:
                orders.append(tuple(reversed(async_labels)))
                for _ in range(1 if quick else 4):
                    orders.append(tuple(rng.sample(async_labels, len(async_labels))))
            for early in (False, True):
                for pi in orders:
                    ctl = Controller()
                    wa = World(rng, [ctl], beh, [])
                    collected = {}

                    def make(c, _wa=wa, _early=early):
                        async def go():
                            res = experimental_execute_incrementally(schema, doc, _wa.root(), variable_values=variables,
                                                                     enable_early_execution=_early)
                            if hasattr(res, "__await__"):
                                res = await res
                            if isinstance(res, ExecutionResult):
                                collected["single"] = res.formatted
                                return
                            collected["initial"] = res.initial_result.formatted
                            collected["payloads"] = []
                            async for p in res.subsequent_results:
                                collected["payloads"].append(p.formatted)
                        return go()
                    kind, res = ctl.run(make, list(pi))
                    nruns += 1
                    key = f"incr:{q}:{sorted(beh.items())!r}:{pi!r}:{early}"
                    rep = {"relation": "merge(initial, subsequent) == non-incremental response", "query": q,
                           "behaviours": repr(sorted(beh.items())), "order": repr(pi), "early_execution": early,
                           "variables": variables}
                    if kind in ("hang", "raised", "cancelled"):
                        ck.violation(key, f"incremental execution ended as {kind}: {res!r}"[:300], dict(rep, impl=kind))
                        continue
                    if "single" in collected:
                        got = collected["single"]
                        ck.note_case((q, repr(sorted(beh.items())), pi, early), nontrivial=False)
                        if error_free and got.get("data") != ref.formatted.get("data"):
                            ck.violation(key, "single (non-incremental) result differs from the reference", dict(rep, impl=got, reference=ref.formatted))
                        continue
                    initial, payloads = collected["initial"], collected["payloads"]
                    merged, problems, left = py_merge(initial, payloads)
                    ck.note_case((q, repr(sorted(beh.items())), pi, early),
                                 nontrivial=any("incremental" in p for p in payloads),
                                 sample={"query": q, "payloads": len(payloads)})
                    if problems:
                        ck.violation(key, f"payloads cannot be applied: {problems[0]}", dict(rep, payloads=payloads, initial=initial))
                        continue
                    all_errors = list(initial.get("errors", []))
                    for p in payloads:
                        for inc in p.get("incremental", []):
                            all_errors += inc.get("errors", [])
                        for c in p.get("completed", []):
                            all_errors += c.get("errors", [])
                    if error_free:
                        if all_errors:
                            ck.violation(key, "incremental run reports errors although the non-incremental run is error-free",
                                         dict(rep, impl=all_errors[:3]))
                        if merged != ref.formatted.get("data"):
                            ck.violation(key, f"reassembled data differs from the non-incremental response for {q!r}",
                                         dict(rep, impl=merged, reference=ref.formatted.get("data"), payloads=payloads, initial=initial))
                    elif ref_np is not None:
                        if not contained(merged, ref_np.formatted.get("data")):
                            ck.violation(key, f"reassembled data is not contained in the non-propagating reference for {q!r}",
                                         dict(rep, impl=merged, reference=ref_np.formatted.get("data")))
                        if not all_errors:
                            ck.violation(key, "errors were lost: reference has errors, incremental run reports none", dict(rep))
                    if left:
                        ck.violation(key, f"ids {sorted(left)} announced but never completed", dict(rep, payloads=payloads))
                    if py_merge.last_reordered:
                        # entries of one payload had to be applied out of order (a target created by a later
                        # entry of the same payload): counted here, judged by C05's "assembled so far" clause
                        ck.count("payloads_needing_in_payload_reordering", py_merge.last_reordered)
                        ck.violation(key, "an incremental entry targets a position that a later entry of the same payload creates (entries cannot be applied in order)",
                                     dict(rep, payloads=payloads, initial=initial))
                        payloads = [dict(p, incremental=o) if "incremental" in p else p
                                    for p, o in zip(payloads, py_merge.last_order)]
                    merge_cases.append(enc_merge_case(initial, payloads))
                    merge_meta.append((key, rep, merged))
    # the extracted merge oracle must agree with the Python merge on every run
    outs = m.run_batch(merge_cases)
    for (key, rep, merged), out in zip(merge_meta, outs):
        if out[0] != 1:
            ck.violation(key, "extracted merge oracle rejects the payload stream (target id not pending or position missing)", dict(rep))
            continue
        w = G.unflatten(out[1:])
        if G.canon_wjson(w) != G.canon_pyjson(merged):
            ck.violation(key, "extracted merge oracle and the Python merge disagree", dict(rep, model=repr(G.canon_wjson(w))[:800]))
    ck.count("incremental_runs", nruns)

    # ---- build_execution_plan driven directly
    try:
        from graphql.execution.collect_fields import DeferUsage, FieldDetails
        from graphql.execution.incremental.build_execution_plan import build_execution_plan
        from graphql.pyutils import RefSet
        have_plan = True
    except Exception:  # noqa: BLE001
        have_plan = False
        ck.degraded.append("build_execution_plan not importable")
    if have_plan:
        cases, meta = [], []
        for _ in range(400 if quick else 6000):
            nd = rng.randint(1, 5)
            dus, anc = [], []
            for i in range(nd):
                parent = rng.choice([None] + list(range(i))) if i else None
                dus.append(DeferUsage(f"L{i}", dus[parent] if parent is not None else None))
                anc.append(([parent] + anc[parent]) if parent is not None else [])
            nk = rng.randint(1, 5)
            orig, enc = {}, []
            for k in range(nk):
                fl, fe = [], []
                for _ in range(rng.randint(1, 3)):
                    c = rng.choice([None] + list(range(nd)))
                    fl.append(FieldDetails(None, dus[c] if c is not None else None))
                    fe += [0] if c is None else [1, c + 1, len(anc[c])] + [a + 1 for a in anc[c]]
                orig[f"k{k}"] = fl
                enc += [k, len(fl)] + fe
            parent_ids = rng.sample(range(nd), rng.randint(0, min(2, nd)))
            cases.append([1, len(parent_ids)] + [p + 1 for p in parent_ids] + [nk] + enc)
            meta.append((orig, parent_ids, dus))
        outs = m.run_batch(cases)
        for (orig, parent_ids, dus), out, case in zip(meta, outs, cases):
            try:
                plan = build_execution_plan(orig, RefSet([dus[p] for p in parent_ids]))
            except Exception as e:  # noqa: BLE001
                ck.violation(f"plan-raises:{case}", f"build_execution_plan raised {type(e).__name__}", {"relation": "plan total", "case": case})
                continue
            init = [int(k[1:]) for k in plan.grouped_field_set]
            groups = []
            for dset, g in plan.new_grouped_field_sets.items():
                groups.append((sorted(dus.index(d) + 1 for d in dset), [int(k[1:]) for k in g]))
            # decode model
            ni = out[0]
            minit = out[1:1 + ni]
            i = 1 + ni
            ng = out[i]
            i += 1
            mgroups = []
            for _ in range(ng):
                ns = out[i]
                sids = sorted(out[i + 1:i + 1 + ns])
                i += 1 + ns
                nkk = out[i]
                mgroups.append((sids, out[i + 1:i + 1 + nkk]))
                i += 1 + nkk
            ck.note_case(("plan", tuple(case)), nontrivial=len(groups) > 0)
            if init != minit or groups != mgroups:
                ck.violation(f"plan:{case}", "build_execution_plan differs from the model",
                             {"relation": "build_execution_plan = model", "case": case, "impl": [init, groups], "model": [minit, mgroups]})
    # the @defer executor model (proved to reassemble) vs the real incremental executor
    rule0 = ck.rule
    cdefer.core(ck, tier, br.ok)
    ck.extra["defer_rule"] = ck.rule
    ck.rule = rule0 + " (defer model) see coverage.defer_rule"
    fragment_arguments_family(ck)
    return ck.finish()


def replay(path):
    d = json.loads(open(path).read())
    print(json.dumps(d, indent=1)[:4000])
    return 0
