"""Grammar-directed generator over the full GraphQL grammar.

A generated document is a list of lexemes (strings); text = lexemes joined by separators.
All random choices come from the rng passed in (derived from VERIF_SEED)."""
from __future__ import annotations

NAMES = ["a", "b", "c", "id", "name", "f", "g", "on_", "type_", "x1", "_y", "Query", "T", "U", "I",
         "query", "fragment", "input", "extend", "null_", "true_", "E", "S"]
ADV_CHARS = ["\r", "\n", "\x0b", "\x0c", "\x1c", "\x1d", "\x1e", "\x85", " ", " ", '"', "\\",
             " ", "\t", "a", "b", "｡", "\U0001F600", "\x00", "\x7f", "/", "'", "é", "😀"[:0]]
ADV_CHARS = [c for c in ADV_CHARS if c]


def quote(s):
    from graphql.language.print_string import print_string
    return print_string(s)


class Gen:
    def __init__(self, rng, depth=3, experimental=False):
        self.r = rng
        self.depth = depth
        self.exp = experimental

    def name(self):
        return self.r.choice(NAMES)

    def frag_name(self):
        n = self.name()
        return n if n != "on" else "on_"

    def maybe(self, p=0.5):
        return self.r.random() < p

    def some(self, f, lo=1, hi=3):
        out = []
        for _ in range(self.r.randint(lo, hi)):
            out += f()
        return out

    # ---- strings
    def string_content(self):
        n = self.r.choice([0, 1, 1, 2, 3, 5, 8])
        return "".join(self.r.choice(ADV_CHARS) for _ in range(n))

    def string_lexeme(self):
        s = self.string_content()
        if self.maybe(0.35):
            # a raw block string lexeme: any characters except the closing triple quote / lone backslash-quote issues
            raw = s.replace('"""', '\\"""')
            if raw.endswith('"') and not raw.endswith('\\"""'):
                raw += " "
            if raw.endswith("\\"):
                raw += " "
            return '"""' + raw + '"""'
        return quote(s)

    # ---- values
    def value(self, const, d=None):
        d = self.depth if d is None else d
        k = self.r.randint(0, 9 if d > 0 else 7)
        if k == 0:
            return [str(self.r.choice([0, 1, -1, 42, -0, 2147483648, 10 ** 20]))]
        if k == 1:
            return [self.r.choice(["1.5", "-0.0", "1e3", "0.1E-2", "-12.5e+10", "0e0"])]
        if k == 2:
            return [self.string_lexeme()]
        if k == 3:
            return [self.r.choice(["true", "false", "null"])]
        if k == 4:
            return [self.r.choice(["RED", "on", "query", "E1", "nullx", "truex"])]
        if k in (5, 6) and not const:
            return ["$", self.name()]
        if k in (5, 6, 7):
            return [self.r.choice(["0", '""', "ENUM", "true"])]
        if k == 8:
            out = ["["]
            for _ in range(self.r.randint(0, 3)):
                out += self.value(const, d - 1)
            return out + ["]"]
        out = ["{"]
        for _ in range(self.r.randint(0, 3)):
            out += [self.name(), ":"] + self.value(const, d - 1)
        return out + ["}"]

    def type_ref(self, d=2):
        k = self.r.randint(0, 3 if d > 0 else 1)
        if k <= 1:
            t = [self.name()]
        else:
            t = ["["] + self.type_ref(d - 1) + ["]"]
        if self.maybe(0.3):
            t.append("!")
        return t

    def arguments(self, const):
        if not self.maybe(0.4):
            return []
        out = ["("]
        for _ in range(self.r.randint(1, 3)):
            out += [self.name(), ":"] + self.value(const)
        return out + [")"]

    def directives(self, const, p=0.3):
        out = []
        while self.maybe(p) and len(out) < 12:
            out += ["@", self.name()] + self.arguments(const)
        return out

    def description(self, p=0.3):
        return [self.string_lexeme()] if self.maybe(p) else []

    # ---- executable
    def selection_set(self, d):
        out = ["{"]
        for _ in range(self.r.randint(1, 4)):
            out += self.selection(d)
        return out + ["}"]

    def selection(self, d):
        k = self.r.randint(0, 5)
        if k <= 2 or d <= 0:
            out = []
            if self.maybe(0.3):
                out += [self.name(), ":"]
            out += [self.name()] + self.arguments(False) + self.directives(False)
            if d > 0 and self.maybe(0.4):
                out += self.selection_set(d - 1)
            return out
        if k == 3:
            out = ["...", self.frag_name()]
            if self.exp and self.maybe(0.4):
                out += ["("] + [self.name(), ":"] + self.value(False) + [")"]
            return out + self.directives(False)
        out = ["..."]
        if self.maybe(0.6):
            out += ["on", self.name()]
        return out + self.directives(False) + self.selection_set(d - 1)

    def variable_definitions(self):
        if not self.maybe(0.5):
            return []
        out = ["("]
        for _ in range(self.r.randint(1, 3)):
            out += self.description(0.15) + ["$", self.name(), ":"] + self.type_ref()
            if self.maybe(0.4):
                out += ["="] + self.value(True)
            out += self.directives(True, 0.2)
        return out + [")"]

    def operation(self):
        if self.maybe(0.25):
            return self.selection_set(self.depth)
        out = self.description(0.2) + [self.r.choice(["query", "mutation", "subscription"])]
        if self.maybe(0.6):
            out.append(self.name())
        return out + self.variable_definitions() + self.directives(False) + self.selection_set(self.depth)

    def fragment_def(self):
        out = self.description(0.2) + ["fragment", self.frag_name()]
        if self.exp:
            out += self.variable_definitions()
        return out + ["on", self.name()] + self.directives(False) + self.selection_set(self.depth)

    # ---- type system
    def input_value_def(self):
        out = self.description(0.2) + [self.name(), ":"] + self.type_ref()
        if self.maybe(0.4):
            out += ["="] + self.value(True)
        return out + self.directives(True, 0.2)

    def args_def(self):
        if not self.maybe(0.4):
            return []
        return ["("] + self.some(self.input_value_def) + [")"]

    def field_def(self):
        return (self.description(0.2) + [self.name()] + self.args_def() + [":"] + self.type_ref()
                + self.directives(True, 0.2))

    def fields_block(self, p=0.8):
        if not self.maybe(p):
            return []
        return ["{"] + self.some(self.field_def) + ["}"]

    def implements(self):
        if not self.maybe(0.4):
            return []
        out = ["implements"]
        if self.maybe(0.3):
            out.append("&")
        out.append(self.name())
        for _ in range(self.r.randint(0, 2)):
            out += ["&", self.name()]
        return out

    def type_def(self, ext=False):
        k = self.r.randint(0, 7)
        pre = ["extend"] if ext else self.description(0.3)
        if k == 0:
            body = []
            if not ext or self.maybe(0.7):
                body = ["{"] + self.some(lambda: [self.r.choice(["query", "mutation", "subscription"]), ":", self.name()]) + ["}"]
            d = self.directives(True, 0.3)
            if ext and not body and not d:
                d = ["@", "d"]
            return pre + ["schema"] + d + body
        if k == 1:
            d = self.directives(True, 0.3)
            if ext and not d:
                d = ["@", "d"]
            return pre + ["scalar", self.name()] + d
        if k in (2, 3):
            kw = "type" if k == 2 else "interface"
            imp, d, f = self.implements(), self.directives(True, 0.3), self.fields_block()
            if ext and not (imp or d or f):
                d = ["@", "d"]
            return pre + [kw, self.name()] + imp + d + f
        if k == 4:
            d = self.directives(True, 0.3)
            m = []
            if self.maybe(0.8):
                m = ["="] + (["|"] if self.maybe(0.3) else []) + [self.name()]
                for _ in range(self.r.randint(0, 2)):
                    m += ["|", self.name()]
            if ext and not (d or m):
                d = ["@", "d"]
            return pre + ["union", self.name()] + d + m
        if k == 5:
            d = self.directives(True, 0.3)
            v = []
            if self.maybe(0.8):
                v = ["{"] + self.some(lambda: self.description(0.2) + [self.r.choice(["RED", "GREEN", "on", "a"])] + self.directives(True, 0.2)) + ["}"]
            if ext and not (d or v):
                d = ["@", "d"]
            return pre + ["enum", self.name()] + d + v
        if k == 6:
            d = self.directives(True, 0.3)
            f = []
            if self.maybe(0.8):
                f = ["{"] + self.some(self.input_value_def) + ["}"]
            if ext and not (d or f):
                d = ["@", "d"]
            return pre + ["input", self.name()] + d + f
        if ext:
            if self.exp:
                return pre + ["directive", "@", self.name(), "@", "d"] + self.directives(True, 0.3)
            return pre + ["scalar", self.name(), "@", "d"]
        out = pre + ["directive", "@", self.name()] + self.args_def()
        if self.exp:
            out += self.directives(True, 0.3)
        if self.maybe(0.3):
            out.append("repeatable")
        out += ["on"] + (["|"] if self.maybe(0.3) else []) + [self.r.choice(LOCS)]
        for _ in range(self.r.randint(0, 2)):
            out += ["|", self.r.choice(LOCS)]
        return out

    def document(self, kind=None):
        kind = kind or self.r.choice(["exec", "sdl", "mixed"])
        out = []
        for _ in range(self.r.randint(1, 4)):
            k = kind if kind != "mixed" else self.r.choice(["exec", "sdl"])
            if k == "exec":
                out += self.operation() if self.maybe(0.6) else self.fragment_def()
            else:
                out += self.type_def(ext=self.maybe(0.3))
        return out


LOCS = ["QUERY", "MUTATION", "SUBSCRIPTION", "FIELD", "FRAGMENT_DEFINITION", "FRAGMENT_SPREAD",
        "INLINE_FRAGMENT", "VARIABLE_DEFINITION", "SCHEMA", "SCALAR", "OBJECT", "FIELD_DEFINITION",
        "ARGUMENT_DEFINITION", "INTERFACE", "UNION", "ENUM", "ENUM_VALUE", "INPUT_OBJECT",
        "INPUT_FIELD_DEFINITION"]

IGNORED_SEQS = [" ", "\t", ",", "\n", "\r", "\r\n", "﻿", " , ", "#c\n", "#   \x0c\r", "#\r\n",
                "\n\n", ",,", "#\"\"\"\n", "  #{\n  ", "#a\n#b\n", "#a\n #b\r\n\t#c\n", "#a\r#b\n", "#\n#\n"]


def is_punct(lex):
    return lex in ("!", "$", "&", "(", ")", "...", ":", "=", "@", "[", "]", "{", "|", "}")


def join_min(lexemes):
    """Minimal separators: a space only where two non-punctuators meet (or before a spread)."""
    out = []
    for i, lx in enumerate(lexemes):
        if i and (not is_punct(lexemes[i - 1])) and (not is_punct(lx) or lx == "..."):
            out.append(" ")
        out.append(lx)
    return "".join(out)


def join_random(lexemes, rng, p=0.5):
    out = []
    if rng.random() < p:
        out.append(rng.choice(IGNORED_SEQS))
    for i, lx in enumerate(lexemes):
        if i:
            need = (not is_punct(lexemes[i - 1])) and (not is_punct(lx) or lx == "...")
            # an unterminated comment would swallow the next lexeme: sequences all end the comment
            if need or rng.random() < p:
                seq = rng.choice(IGNORED_SEQS)
                out.append(seq)
        out.append(lx)
    if rng.random() < p:
        out.append(rng.choice(IGNORED_SEQS + ["#eof"]))
    return "".join(out)


def fixtures():
    from .common import CORPUS
    return [(CORPUS / "fixtures" / n).read_text(encoding="utf-8")
            for n in ("kitchen_sink.graphql", "schema_kitchen_sink.graphql")]
