"""C06 - stopping early never hangs or leaks: work settles and sources are closed.

Three parts:
 (R) real requests (incremental with @defer/@stream, plain async execute, subscriptions) driven step by
     step in a fresh event loop; the consumer stops at every quiescent point (aclose / abort with a reason),
     resolvers and sources may raise; leak predicates are evaluated directly on the implementation.
 (D) `Computation` and `StreamItemQueue` driven directly with scripted event sequences (bounded exhaustive)
     and compared with the extracted machines of Incr/Computation.v, Incr/Lifecycle.v.
 (T) abstract traces recorded from the real runs of (R) by wrapping Computation / StreamItemQueue methods,
     executor bookkeeping and source open/close must be accepted by the extracted machines.
"""
from __future__ import annotations

import asyncio
import itertools
import json
import warnings

from . import common
from .common import Check, Model

ASSUMPTIONS = [
    "C06 model: Incr/Computation.v, Incr/Lifecycle.v - hand-written control machines (Computation, StreamItemQueue "
    "control flags, WorkQueue.cancel over lists of tasks/streams, executor hook bookkeeping, aclosing); tied to the "
    "code by direct scripted drives of Computation/StreamItemQueue and by acceptance of traces recorded from real runs",
    "runtime part NOT proved: 'the event loop reaches quiescence' and 'promptly' are decided by exploration only "
    "(asyncio.all_tasks after draining a fresh loop; asyncio.wait_for budget of 2 s per await of the caller)",
    "a cancelled asyncio task is given 40 loop iterations to settle before it is judged leaked",
    "the consumer protocol: a consumer that stops calls aclose() on the stream it holds; after an abort it either is "
    "awaiting the next result or asks for it once; after AbortedGraphQLExecutionError it awaits aborted_result and "
    "asks the exposed stream once (as tests/execution/test_cancellation.py does)",
    "a class-based source counts as closed when aclose() was called once, an async generator source when its "
    "finaliser ran; a source that was exhausted or raised by itself may additionally receive one aclose()",
]

SETTLE = 12          # loop iterations between two driver actions
DRAIN = 40           # loop iterations granted to cancelled tasks before judging leaks
BUDGET = 2.0         # seconds: the awaiting caller must be released within this budget

SDL = """
type Item { id: ID  name: String  slow: String  nn: String!  sub: Item  kids: [Item] }
type Query { a: String  b: String  nn: String!  hero: Item  other: Item  items: [Item]  gen: [Item]  strs: [String] }
type Subscription { ev: Item }
"""

# --------------------------------------------------------------------------- the world of one run


class SourceRec:
    def __init__(self, name, kind):
        self.name, self.kind = name, kind
        self.created = 0      # iterator objects created
        self.started = 0      # body entered / first __anext__
        self.final = 0        # async generator finaliser runs
        self.aclose_calls = 0  # class-based: aclose() calls
        self.exhausted = False
        self.raised = False

    def summary(self):
        return {"name": self.name, "kind": self.kind, "started": self.started, "final": self.final,
                "aclose_calls": self.aclose_calls, "exhausted": self.exhausted, "raised": self.raised}


class World:
    """Harness-side environment of one run: gates (futures the harness resolves), sources, hook."""

    def __init__(self, loop, sched_seed):
        self.loop = loop
        self.sched_seed = sched_seed
        self.gates = {}       # name -> (future, spec)
        self.gate_order = []  # names in hand-out order
        self.sources = []
        self.hook_calls = []  # dicts recorded at hook time
        self.trace = []       # abstract events of the run
        self.released = []

    # -- gates
    def gate(self, name, spec=None):
        base, n = name, 1
        while name in self.gates:
            n += 1
            name = f"{base}#{n}"
        fut = self.loop.create_future()
        self.gates[name] = (fut, spec)
        self.gate_order.append(name)
        return fut

    def pending_gates(self):
        return [n for n in self.gate_order if not self.gates[n][0].done()]

    def _rank(self, name):
        import hashlib
        return hashlib.blake2b(f"{self.sched_seed}:{name}".encode(), digest_size=8).digest()

    def next_gate(self):
        p = self.pending_gates()
        if not p:
            return None
        if self.sched_seed == 0:
            return p[0]          # hand-out order
        if self.sched_seed == 1:
            return p[-1]         # reverse order
        return min(p, key=self._rank)

    def release(self, name):
        fut, spec = self.gates[name]
        if fut.done():
            return
        self.released.append(name)
        if isinstance(spec, dict) and "err" in spec:
            fut.set_exception(RuntimeError(spec["err"]))
        else:
            v = self.build(spec.get("v") if isinstance(spec, dict) else None, name)
            if isinstance(spec, dict) and isinstance(spec.get("v"), dict) and "$src" in spec["v"]:
                v = v()   # a resolver answering with the source itself (async subscribe resolver)
            fut.set_result(v)

    # -- data
    def build(self, spec, path="$"):
        """JSON-able data spec -> Python root value."""
        if isinstance(spec, list):
            return [self.build(x, f"{path}.{i}") for i, x in enumerate(spec)]
        if not isinstance(spec, dict):
            return spec
        if "$gate" in spec:
            name = spec["$gate"] or path

            def resolver(_info, _spec=spec, _name=name, **_args):
                return self.gate(_name, _spec)
            return resolver
        if "$raise" in spec:
            def raiser(_info, _spec=spec, **_args):
                raise RuntimeError(_spec["$raise"])
            return raiser
        if "$src" in spec:
            rec = SourceRec(spec.get("name") or path, spec["$src"])
            self.sources.append(rec)

            def make(_info=None, _spec=spec, _rec=rec, **_args):
                return self.make_source(_spec, _rec)
            return make
        return {k: self.build(v, f"{path}.{k}") for k, v in spec.items()}

    def make_source(self, spec, rec):
        items, gated, raise_at = spec.get("items", []), spec.get("gated", False), spec.get("raise_at")
        world = self
        rec.created += 1
        if spec["$src"] == "list":
            return [self.build(x, f"{rec.name}.{i}") for i, x in enumerate(items)]
        if spec["$src"] == "agen":
            async def agen():
                rec.started += 1
                world.trace.append(("src_open", rec.name))
                try:
                    for i, it in enumerate(items):
                        if gated:
                            await world.gate(f"{rec.name}.next{i}")
                        if raise_at == i:
                            rec.raised = True
                            raise RuntimeError(f"source {rec.name} failed")
                        yield world.build(it, f"{rec.name}.{i}")
                    if gated:
                        await world.gate(f"{rec.name}.end")
                    rec.exhausted = True
                finally:
                    rec.final += 1
                    world.trace.append(("src_close", rec.name))
            return agen()

        class It:
            def __init__(self):
                self.i = 0

            def __aiter__(self):
                return self

            async def __anext__(self):
                if not rec.started:
                    world.trace.append(("src_open", rec.name))
                rec.started += 1
                i = self.i
                if gated:
                    await world.gate(f"{rec.name}.next{i}" if i < len(items) else f"{rec.name}.end")
                if raise_at == i:
                    rec.raised = True
                    raise RuntimeError(f"source {rec.name} failed")
                if i >= len(items):
                    rec.exhausted = True
                    raise StopAsyncIteration
                self.i += 1
                return world.build(items[i], f"{rec.name}.{i}")

            async def aclose(self):
                rec.aclose_calls += 1
                world.trace.append(("src_close", rec.name))
                await asyncio.sleep(0)

        return It()

    # -- hook
    def hook(self, info):
        rec = {"executor": None, "background": None, "pending_incremental": None}
        try:
            ex = info.executor
            self._keep = getattr(self, "_keep", [])
            self._keep.append(ex)   # keeps id(ex) unique for the run
            rec["executor"] = id(ex)
            bg = getattr(ex, "background_futures", None)
            pi = getattr(ex, "pending_incremental_futures", None)
            rec["background"] = None if bg is None else len(bg)
            rec["pending_incremental"] = None if pi is None else len([f for f in pi if not f.done()])
        except Exception:  # noqa: BLE001
            pass
        rec["pending_gates_awaited"] = len([n for n in self.pending_gates()])
        self.hook_calls.append(rec)
        self.trace.append(("hook", rec["background"]))


# --------------------------------------------------------------------------- the driver


class Outcome:
    """Everything observed in one run."""

    def __init__(self):
        self.qps = []             # kinds of the quiescent points passed: init / between / mid
        self.payloads = 0
        self.completed = False    # stream exhausted / result delivered without a stop
        self.stopped = None       # (kind, qp)
        self.problems = []        # (class, detail)
        self.released = None      # how the awaiting caller was released after the stop
        self.leaked = []
        self.leaked_after_release = []
        self.sources = []
        self.hooks = []
        self.trace = []
        self.initial_kind = None
        self.unstarted_stream_closed = False
        self.comp_traces = []
        self.siq_traces = []
        self.gates_left = 0


def _coro_name(t):
    try:
        c = t.get_coro()
        return getattr(c, "__qualname__", None) or type(c).__name__
    except Exception:  # noqa: BLE001
        return "?"


def _is_reason(exc, reason):
    if exc is reason:
        return True
    if getattr(exc, "__cause__", None) is reason or getattr(exc, "reason", None) is reason:
        return True
    orig = getattr(exc, "original_error", None)
    return orig is reason


def _quiet(task):
    """Tasks created by the driver: always retrieve the exception (no 'never retrieved' noise)."""
    task.add_done_callback(lambda t: t.cancelled() or t.exception())
    return task


def _task(aw):
    return _quiet(asyncio.ensure_future(aw))


async def _settle(n=SETTLE):
    for _ in range(n):
        await asyncio.sleep(0)


async def _await_budget(fut):
    """Await a future/task of the implementation within the budget; returns ('ok', v) / ('exc', e) / ('hang',)."""
    try:
        v = await asyncio.wait_for(asyncio.shield(fut), BUDGET)
        return ("ok", v)
    except asyncio.TimeoutError:
        return ("hang",)
    except StopAsyncIteration as e:
        return ("stop", e)
    except BaseException as e:  # noqa: BLE001
        if isinstance(e, asyncio.CancelledError) and not fut.done():
            raise
        return ("exc", e)


async def drive(scen, sched_seed, stop, recorder=None):
    """Run one scenario.  stop = None | {"kind": "aclose"|"abort", "at": qp index}."""
    from graphql import build_schema, parse
    from graphql.execution import (ExecutionHooks, ExecutionResult, execute,
                                   experimental_execute_incrementally, subscribe)
    from graphql.pyutils import AbortController

    loop = asyncio.get_running_loop()
    me = asyncio.current_task()
    out = Outcome()
    world = World(loop, sched_seed)
    if recorder is not None:
        recorder.attach(world)
    schema = _schema()
    doc = parse(scen["doc"])
    root = world.build(scen["root"])
    ctrl = AbortController() if scen.get("signal") or (stop and stop["kind"] == "abort") else None
    reason = RuntimeError("stop requested by the consumer")
    kwargs = {}
    if ctrl is not None:
        kwargs["abort_signal"] = ctrl.signal
    kwargs["hooks"] = ExecutionHooks(async_work_finished=world.hook)
    kwargs["enable_early_execution"] = bool(scen.get("early"))
    kind = scen["kind"]

    def want_stop(qp_kind):
        i = len(out.qps)
        out.qps.append(qp_kind)
        if stop is not None and stop["at"] == i and out.stopped is None:
            if stop["kind"] == "aclose" and qp_kind != "between":
                return False
            out.stopped = (stop["kind"], i)
            return True
        return False

    def problem(cls, detail):
        out.problems.append((cls, detail))

    async def step_or_hang(fut, what):
        """Release the next gate, or - when nothing is left to release - require `fut` to finish."""
        g = world.next_gate()
        if g is not None:
            world.release(g)
            return True
        r = await _await_budget(fut)
        if r[0] == "hang":
            problem("hang", f"{what} not released although every resolver and source was resolved")
            return False
        return True

    async def after_abort(fut, what):
        r = await _await_budget(fut)
        if r[0] == "hang":
            problem("hang-after-abort", f"{what} not released within {BUDGET}s after the abort signal")
            out.released = "hang"
        elif r[0] == "exc":
            out.released = "reason" if _is_reason(r[1], reason) else f"other:{type(r[1]).__name__}"
            if out.released != "reason":
                problem("wrong-release", f"{what} released with {type(r[1]).__name__}: {r[1]} instead of the abort reason")
        else:
            out.released = "result" if r[0] == "ok" else "end"
        return r

    stream = None
    try:
        # ---- phase A: the call and the initial result
        try:
            if kind == "sub":
                res = subscribe(schema, doc, root, **kwargs)
            elif kind == "exec":
                res = execute(schema, doc, root, **kwargs)
            else:
                res = experimental_execute_incrementally(schema, doc, root, **kwargs)
        except Exception as e:  # noqa: BLE001
            problem("call-raised", f"{type(e).__name__}: {e}")
            res = None
        first = None
        if asyncio.isfuture(res) or asyncio.iscoroutine(res):
            caller = _task(res)
            ok = True
            aborted_here = False
            while True:
                await _settle()
                if caller.done():
                    break
                if want_stop("init"):
                    ctrl.abort(reason)
                    aborted_here = True
                    break
                if not await step_or_hang(caller, "the caller awaiting the initial result"):
                    ok = False
                    break
            if aborted_here:
                r = await after_abort(caller, "the caller awaiting the initial result")
                if r[0] == "exc" and hasattr(r[1], "aborted_result"):
                    ar = r[1].aborted_result
                    if asyncio.isfuture(ar) or asyncio.iscoroutine(ar) or hasattr(ar, "__await__"):
                        arf = _task(ar)
                        while True:
                            await _settle()
                            if arf.done():
                                break
                            # the world goes on: resolvers not cancelled by the abort still answer
                            if not await step_or_hang(arf, "aborted_result"):
                                break
                        if arf.done() and not arf.cancelled() and arf.exception() is None:
                            ar = arf.result()
                        else:
                            ar = None
                    sub = getattr(ar, "subsequent_results", None)
                    if sub is not None:
                        # documented protocol: asking the exposed stream raises the reason and cleans up
                        t = _task(anext(sub))
                        r2 = await _await_budget(t)
                        if r2[0] == "hang":
                            problem("hang-after-abort", "stream exposed by aborted_result not released")
                            t.cancel()
                elif r[0] == "ok":
                    first = r[1]
            elif ok and caller.done():
                if caller.cancelled():
                    problem("wrong-release", "the initial result was cancelled")
                elif caller.exception() is not None:
                    e = caller.exception()
                    if ctrl is not None and ctrl.signal.aborted and _is_reason(e, reason):
                        pass
                    else:
                        problem("call-raised", f"{type(e).__name__}: {e}")
                else:
                    first = caller.result()
            elif not ok:
                caller.cancel()
        else:
            first = res

        # ---- phase B: the stream of subsequent results / subscription events
        if first is not None and not isinstance(first, ExecutionResult):
            stream = getattr(first, "subsequent_results", None) or first
            out.initial_kind = "incremental" if hasattr(first, "subsequent_results") else "subscription"
        elif first is not None:
            out.initial_kind = "single"
            if out.stopped is None:
                out.completed = True
        if stream is not None:
            started = False
            while True:
                await _settle()
                if want_stop("between"):
                    if stop["kind"] == "aclose":
                        if not started:
                            out.unstarted_stream_closed = True
                        t = _task(stream.aclose())
                        r = await _await_budget(t)
                        if r[0] == "hang":
                            problem("hang-aclose", f"aclose() of the stream did not return within {BUDGET}s")
                            t.cancel()
                        elif r[0] == "exc":
                            problem("aclose-raised", f"{type(r[1]).__name__}: {r[1]}")
                        out.released = "closed"
                        break
                    ctrl.abort(reason)
                    t = _task(anext(stream))
                    r = await after_abort(t, "the consumer asking for the next result after the abort")
                    if r[0] == "hang":
                        t.cancel()
                    if r[0] == "ok":
                        # a result that was already complete may still be delivered; ask once more
                        t = _task(anext(stream))
                        r = await after_abort(t, "the consumer asking again after the abort")
                        if r[0] == "ok":
                            problem("abort-ignored", "two further results were delivered after the abort signal")
                            await stream.aclose()
                        if r[0] == "hang":
                            t.cancel()
                    break
                started = True
                pull = _task(anext(stream))
                aborted_here = False
                ok = True
                while True:
                    await _settle()
                    if pull.done():
                        break
                    if want_stop("mid"):
                        ctrl.abort(reason)
                        aborted_here = True
                        break
                    if not await step_or_hang(pull, "the consumer awaiting the next result"):
                        ok = False
                        break
                if aborted_here:
                    r = await after_abort(pull, "the consumer awaiting the next result")
                    if r[0] == "hang":
                        pull.cancel()
                    elif r[0] == "ok":
                        t = _task(anext(stream))
                        r = await after_abort(t, "the consumer asking again after the abort")
                        if r[0] == "ok":
                            problem("abort-ignored", "two further results were delivered after the abort signal")
                            await stream.aclose()
                        if r[0] == "hang":
                            t.cancel()
                    break
                if not ok:
                    pull.cancel()
                    break
                if pull.cancelled():
                    problem("wrong-release", "the pending request for the next result was cancelled")
                    break
                e = pull.exception()
                if isinstance(e, StopAsyncIteration):
                    out.completed = True
                    break
                if e is not None:
                    if ctrl is not None and ctrl.signal.aborted and _is_reason(e, reason):
                        break
                    if scen.get("stream_raises"):
                        out.completed = True   # the subscription source failed: the stream ends by raising
                        break
                    problem("stream-raised", f"{type(e).__name__}: {e}")
                    break
                out.payloads += 1

        # ---- judgement: quiescence
        if out.stopped is None:
            # no stop by the consumer (complete run, or only a resolver / source failed): the world goes
            # on, the resolvers that are still in flight answer (work the library settles in the background
            # on a failure path is by design not cancelled but awaited)
            for _ in range(200):
                g = world.next_gate()
                if g is None:
                    break
                world.release(g)
                await _settle()
        await _settle(DRAIN)
        left = [t for t in asyncio.all_tasks(loop) if t is not me and not t.done()]
        if left:
            await _settle(DRAIN * 3)
            left = [t for t in asyncio.all_tasks(loop) if t is not me and not t.done()]
        out.leaked = sorted(_coro_name(t) for t in left)
        out.gates_left = len(world.pending_gates())
        out.hooks_before_release = len(world.hook_calls)
        if left:
            # the world goes on: do the tasks settle once the remaining resolvers answer?
            for _ in range(200):
                g = world.next_gate()
                if g is None:
                    break
                world.release(g)
                await _settle()
            await _settle(DRAIN)
            left2 = [t for t in asyncio.all_tasks(loop) if t is not me and not t.done()]
            out.leaked_after_release = sorted(_coro_name(t) for t in left2)
            for t in left2:
                t.cancel()
            if left2:
                await asyncio.gather(*left2, return_exceptions=True)
        out.sources = [s.summary() for s in world.sources]
        out.hooks = list(world.hook_calls)
        out.trace = list(world.trace)
        if recorder is not None:
            out.comp_traces, out.siq_traces = recorder.collect()
    finally:
        if recorder is not None:
            recorder.detach()
        # never leave anything behind in the loop
        rest = [t for t in asyncio.all_tasks(loop) if t is not me and not t.done()]
        for t in rest:
            t.cancel()
        if rest:
            await asyncio.gather(*rest, return_exceptions=True)
    return out


_SCHEMA = None


def _schema():
    global _SCHEMA
    if _SCHEMA is None:
        from graphql import build_schema
        _SCHEMA = build_schema(SDL)
    return _SCHEMA


def run_scenario(scen, sched_seed, stop, recorder=None):
    """One run in a fresh event loop."""
    loop = asyncio.new_event_loop()
    noise = []
    loop.set_exception_handler(lambda _l, ctx: noise.append(str(ctx.get("message"))))
    try:
        with warnings.catch_warnings():
            warnings.simplefilter("ignore")
            return loop.run_until_complete(
                asyncio.wait_for(drive(scen, sched_seed, stop, recorder), 60))
    finally:
        try:
            loop.run_until_complete(loop.shutdown_asyncgens())
        except Exception:  # noqa: BLE001
            pass
        loop.close()


# --------------------------------------------------------------------------- scenarios

def G(v=None, name=None, err=None):
    d = {"$gate": name}
    if err is not None:
        d["err"] = err
    else:
        d["v"] = v
    return d


def SRC(kind, items, gated=False, raise_at=None, name=None):
    return {"$src": kind, "items": items, "gated": gated, "raise_at": raise_at, "name": name}


def item(i, **kw):
    d = {"id": i, "name": f"n{i}"}
    d.update(kw)
    return d


def base_scenarios():
    """Hand-written request templates covering the mechanisms named in the property anchors."""
    S = []

    def add(name, kind, doc, root, **kw):
        S.append(dict(name=name, kind=kind, doc=doc, root=root, **kw))

    # plain async execute
    add("exec-two-async", "exec", "{ a b }", {"a": G("x"), "b": G("y")})
    add("exec-nested", "exec", "{ a hero { name slow } }",
        {"a": G("x"), "hero": G({"name": G("n"), "slow": G("s")})})
    add("exec-resolver-raises", "exec", "{ a b hero { name } }",
        {"a": G(err="boom"), "b": G("y"), "hero": {"name": G("n")}})
    add("exec-nonnull-async-raise", "exec", "{ a nn b }",
        {"a": G("x"), "nn": G(err="boom"), "b": G("y")})
    add("exec-nonnull-sync-raise", "exec", "{ a nn b }",
        {"a": G("x"), "nn": {"$raise": "boom"}, "b": G("y")})
    for sk in ("agen", "aiter"):
        add(f"exec-list-{sk}", "exec", "{ a gen { id name } }",
            {"a": G("x"), "gen": SRC(sk, [item(0), item(1, name=G("n1")), item(2)], gated=True)})
        add(f"exec-list-{sk}-source-raises", "exec", "{ a gen { id name } }",
            {"a": G("x"), "gen": SRC(sk, [item(0), item(1, name=G("n1")), item(2)], gated=True, raise_at=2)})
        add(f"exec-list-{sk}-item-nonnull-raises", "exec", "{ gen { id nn } b }",
            {"b": G("y"), "gen": SRC(sk, [item(0, nn="k"), item(1, nn=G(err="boom")), item(2, nn="k")], gated=True)})

    # defer
    add("defer-one", "incr", "{ hero { id ... @defer { name slow } } a }",
        {"hero": {"id": 1, "name": G("n"), "slow": G("s")}, "a": G("x")})
    add("defer-two-siblings", "incr", "{ hero { id ... @defer(label: \"A\") { name } ... @defer(label: \"B\") { slow } } }",
        {"hero": {"id": 1, "name": G("n"), "slow": G("s")}})
    add("defer-nested", "incr",
        "{ hero { id ... @defer(label: \"O\") { name sub { id ... @defer(label: \"I\") { slow } } } } }",
        {"hero": {"id": 1, "name": G("n"), "sub": {"id": 2, "slow": G("s")}}})
    add("defer-resolver-raises", "incr", "{ hero { id ... @defer { name slow } } other { ... @defer { name } } }",
        {"hero": {"id": 1, "name": G(err="boom"), "slow": G("s")}, "other": {"name": G("o")}})
    add("defer-nonnull-raises", "incr", "{ hero { id ... @defer { nn slow } } other { ... @defer { name } } }",
        {"hero": {"id": 1, "nn": G(err="boom"), "slow": G("s")}, "other": {"name": G("o")}})
    add("defer-initial-nonnull-raises", "incr", "{ hero { id nn ... @defer { slow } } other { ... @defer { name } } }",
        {"hero": {"id": 1, "nn": G(err="boom"), "slow": G("s")}, "other": {"name": G("o")}})
    add("defer-async-parent", "incr", "{ hero { id ... @defer { name } } }",
        {"hero": G({"id": 1, "name": G("n")})})

    # stream
    for sk in ("agen", "aiter"):
        add(f"stream-{sk}", "incr", "{ items @stream(initialCount: 1) { id name } }",
            {"items": SRC(sk, [item(0), item(1, name=G("n1")), item(2), item(3, name=G("n3"))], gated=True)})
        add(f"stream-{sk}-ungated", "incr", "{ items @stream(initialCount: 1) { id name } a }",
            {"a": G("x"), "items": SRC(sk, [item(0), item(1, name=G("n1")), item(2), item(3, name=G("n3"))])})
        add(f"stream-{sk}-source-raises", "incr", "{ items @stream(initialCount: 1) { id name } }",
            {"items": SRC(sk, [item(0), item(1, name=G("n1")), item(2)], gated=True, raise_at=2)})
        add(f"stream-{sk}-source-raises-ungated", "incr", "{ items @stream(initialCount: 1) { id name } }",
            {"items": SRC(sk, [item(0), item(1, name=G("n1")), item(2)], raise_at=2)})
        add(f"stream-{sk}-item-nonnull-raises", "incr", "{ items @stream(initialCount: 0) { id nn } a }",
            {"a": G("x"), "items": SRC(sk, [item(0, nn="k"), item(1, nn=G(err="boom")), item(2, nn="k")], gated=True)})
        add(f"stream-{sk}-with-defer-in-items", "incr",
            "{ items @stream(initialCount: 1) { id ... @defer { slow } } }",
            {"items": SRC(sk, [item(0, slow=G("s0")), item(1, slow=G("s1")), item(2, slow=G("s2"))], gated=True)})
        add(f"defer-with-stream-{sk}", "incr",
            "{ hero { id ... @defer { name kids @stream(initialCount: 1) { id name } } } }",
            {"hero": {"id": 1, "name": G("n"),
                      "kids": SRC(sk, [item(0), item(1, name=G("k1")), item(2)], gated=True)}})
        add(f"two-streams-{sk}", "incr",
            "{ items @stream(initialCount: 0) { id } gen @stream(initialCount: 1) { id name } }",
            {"items": SRC(sk, [item(0), item(1)], gated=True, name="s1"),
             "gen": SRC(sk, [item(0), item(1, name=G("g1")), item(2)], gated=True, name="s2")})
        add(f"defer-list-{sk}", "incr", "{ hero { id ... @defer { kids { id name } } } a }",
            {"a": G("x"), "hero": {"id": 1, "kids": SRC(sk, [item(0), item(1, name=G("k1")), item(2)], gated=True)}})
    add("stream-sync-list", "incr", "{ items @stream(initialCount: 1) { id name } }",
        {"items": SRC("list", [item(0), item(1, name=G("n1")), item(2, name=G("n2"))])})
    add("stream-and-defer", "incr",
        "{ hero { id ... @defer { name } } items @stream(initialCount: 1) { id name } }",
        {"hero": {"id": 1, "name": G("n")},
         "items": SRC("agen", [item(0), item(1, name=G("n1")), item(2)], gated=True)})

    # subscriptions
    for sk in ("agen", "aiter"):
        add(f"sub-{sk}", "sub", "subscription { ev { id name } }",
            {"ev": SRC(sk, [{"ev": item(0)}, {"ev": item(1, name=G("n1"))}, {"ev": item(2)}], gated=True)})
        add(f"sub-{sk}-source-raises", "sub", "subscription { ev { id name } }",
            {"ev": SRC(sk, [{"ev": item(0)}, {"ev": item(1, name=G("n1"))}, {"ev": item(2)}], gated=True, raise_at=2),
             }, stream_raises=True)
        add(f"sub-{sk}-resolver-raises", "sub", "subscription { ev { id nn } }",
            {"ev": SRC(sk, [{"ev": item(0, nn="k")}, {"ev": item(1, nn=G(err="boom"))}, {"ev": item(2, nn="k")}],
                       gated=True)})
    add("sub-async-subscribe", "sub", "subscription { ev { id name } }",
        {"ev": G({"$src": "agen", "items": [{"ev": item(0)}, {"ev": item(1)}], "gated": True, "raise_at": None,
                  "name": "late"})})
    return S


# --------------------------------------------------------------------------- judgement of one run

K_UNSTARTED = "incremental-stream-aclose-before-first-request:no-cleanup"
K_FAIL_HANG = "early-execution-stream-source-failure-with-pending-item:consumer-never-released"


def judge(scen, out, stop):
    """Leak predicates of the property on one observed run -> list of (key, what)."""
    v = []
    tag = f"{scen['name']}|early={int(bool(scen.get('early')))}"
    st = "none" if stop is None or out.stopped is None else f"{out.stopped[0]}@{out.stopped[1]}"
    unstarted = out.unstarted_stream_closed and out.initial_kind == "incremental"

    def add(cls, what):
        if unstarted and cls in ("hook-count", "source-not-closed", "task-leak"):
            key = K_UNSTARTED
        elif cls == "hang" and scen.get("early") and any(s["raised"] for s in out.sources) \
                and scen["kind"] == "incr":
            key = K_FAIL_HANG
        else:
            key = f"{cls}:{tag}:{st}"
        v.append((key, cls, f"[{tag} stop={st}] {what}"))

    for cls, detail in out.problems:
        add(cls, detail)
    if out.leaked:
        settles = "they settle once the remaining resolvers answer" if not out.leaked_after_release \
            else "they stay pending even after every resolver answered"
        add("task-leak", f"{len(out.leaked)} task(s) started by the execution still pending after the loop was "
                         f"drained: {out.leaked[:4]} ({settles})")
    for s in out.sources:
        if s["kind"] == "list":
            continue
        if s["kind"] == "agen":
            if s["final"] > 1:
                add("source-closed-twice", f"source {s['name']} finalised {s['final']} times")
            elif s["started"] and s["final"] == 0:
                add("source-not-closed", f"started async generator source {s['name']} was never closed")
        else:
            if s["aclose_calls"] > 1:
                add("source-closed-twice", f"aclose() of source {s['name']} called {s['aclose_calls']} times")
            elif s["started"] and not s["exhausted"] and not s["raised"] and s["aclose_calls"] == 0:
                add("source-not-closed", f"started source {s['name']} never received aclose()")
    # the work-finished hook
    hooks = out.hooks
    if scen["kind"] == "sub":
        per = {}
        for h in hooks:
            per[h["executor"]] = per.get(h["executor"], 0) + 1
        if any(n > 1 for n in per.values()):
            add("hook-count", f"a per-event executor fired async_work_finished {max(per.values())} times")
        if out.initial_kind == "subscription" and len(hooks) < out.payloads:
            add("hook-count", f"{out.payloads} events delivered but the hook fired {len(hooks)} times")
    else:
        called = not any(c == "call-raised" for c, _ in out.problems)
        if called and len(hooks) != 1:
            add("hook-count", f"async_work_finished fired {len(hooks)} times (expected exactly once)")
    for h in hooks:
        if h["background"]:
            add("hook-early", f"hook fired while {h['background']} background future(s) were outstanding")
        if h["pending_incremental"]:
            add("hook-early", f"hook fired while {h['pending_incremental']} incremental future(s) were pending")
    return v


def is_nontrivial(out):
    """A run exercises the property when something had to be stopped, closed or failed."""
    return bool(out.stopped is not None or any(s["raised"] for s in out.sources) or out.problems
                or out.leaked or any(s["started"] for s in out.sources))
