"""C06 - stopping early never hangs or leaks: work settles and sources are closed.

Three parts:
 (R) real requests (incremental with @defer/@stream, plain async execute, subscriptions) driven step by
     step in a fresh event loop; the consumer stops at every quiescent point (aclose / abort with a reason),
     resolvers and sources may raise; leak predicates are evaluated directly on the implementation.
 (D) `Computation` and `StreamItemQueue` driven directly with scripted event sequences (bounded exhaustive)
     and compared with the extracted machines of Incr/Computation.v, Incr/Lifecycle.v.
 (T) abstract traces recorded from the real runs of (R) by wrapping Computation / StreamItemQueue methods,
     executor bookkeeping and source open/close must be accepted by the extracted machines.
"""
from __future__ import annotations

import asyncio
import itertools
import json
import warnings

from . import common
from .common import Check, Model

ASSUMPTIONS = [
    "C06 model: Incr/Computation.v, Incr/Lifecycle.v - hand-written control machines (Computation; StreamItemQueue "
    "control flags with the bounded entries queue, blocked/parked producer, _settle_parked, failure and "
    "cancellation-turned-into-failure; WorkQueue.cancel over a table of tasks; executor hook bookkeeping; aclosing); "
    "tied to the code by direct scripted drives of Computation / StreamItemQueue / map_async_iterable and by "
    "acceptance of traces recorded from real runs",
    "StreamItemQueue machine: macro steps (the loop runs only at QTick); the content of the entries (batching, "
    "_stopped) is not modelled; the direct drive does not combine a draining consumer with pending item futures; "
    "the machine excludes a producer that swallows its cancellation and goes on pushing / finishing (observed in "
    "lazy execution under an abort signal); recorded traces of that kind are skipped and counted",
    "runtime part NOT proved: 'the event loop reaches quiescence' and 'promptly' are decided by exploration only "
    "(asyncio.all_tasks after draining a fresh loop; asyncio.wait_for budget of 2 s per await of the caller)",
    "a cancelled asyncio task is given 40 loop iterations to settle before it is judged leaked",
    "the consumer protocol: a consumer that stops calls aclose() on the stream it holds; after an abort it either is "
    "awaiting the next result or asks for it once; after AbortedGraphQLExecutionError it awaits aborted_result and "
    "asks the exposed stream once (as tests/execution/test_cancellation.py does)",
    "a class-based source counts as closed when aclose() was called once, an async generator source when its "
    "finaliser ran; a source that was exhausted or raised by itself may additionally receive one aclose()",
]

SETTLE = 12          # loop iterations between two driver actions
DRAIN = 40           # loop iterations granted to cancelled tasks before judging leaks
BUDGET = 2.0         # seconds: the awaiting caller must be released within this budget

SDL = """
type Item { id: ID  name: String  slow: String  nn: String!  sub: Item  kids: [Item] }
type Query { a: String  b: String  nn: String!  hero: Item  other: Item  items: [Item]  gen: [Item]  nnitems: [Item!]  strs: [String] }
type Mutation { a: String  b: String  c: String  nn: String!  hero: Item  items: [Item]  gen: [Item] }
type Subscription { ev: Item }
"""

# --------------------------------------------------------------------------- the world of one run


class SourceRec:
    def __init__(self, name, kind):
        self.name, self.kind = name, kind
        self.created = 0      # iterator objects created
        self.started = 0      # body entered / first __anext__
        self.final = 0        # async generator finaliser runs
        self.aclose_calls = 0  # class-based: aclose() calls
        self.exhausted = False
        self.raised = False

    def summary(self):
        return {"name": self.name, "kind": self.kind, "started": self.started, "final": self.final,
                "aclose_calls": self.aclose_calls, "exhausted": self.exhausted, "raised": self.raised}


class World:
    """Harness-side environment of one run: gates (futures the harness resolves), sources, hook."""

    def __init__(self, loop, sched_seed):
        self.loop = loop
        self.sched_seed = sched_seed
        self.gates = {}       # name -> (future, spec)
        self.gate_order = []  # names in hand-out order
        self.sources = []
        self.hook_calls = []  # dicts recorded at hook time
        self.trace = []       # abstract events of the run
        self.released = []

    # -- gates
    def gate(self, name, spec=None):
        base, n = name, 1
        while name in self.gates:
            n += 1
            name = f"{base}#{n}"
        fut = self.loop.create_future()
        self.gates[name] = (fut, spec)
        self.gate_order.append(name)
        return fut

    def pending_gates(self):
        return [n for n in self.gate_order if not self.gates[n][0].done()]

    def _rank(self, name):
        import hashlib
        return hashlib.blake2b(f"{self.sched_seed}:{name}".encode(), digest_size=8).digest()

    def next_gate(self):
        p = self.pending_gates()
        if not p:
            return None
        if self.sched_seed == 0:
            return p[0]          # hand-out order
        if self.sched_seed == 1:
            return p[-1]         # reverse order
        return min(p, key=self._rank)

    def release(self, name):
        fut, spec = self.gates[name]
        if fut.done():
            return
        self.released.append(name)
        if isinstance(spec, dict) and "err" in spec:
            fut.set_exception(RuntimeError(spec["err"]))
        else:
            v = self.build(spec.get("v") if isinstance(spec, dict) else None, name)
            if isinstance(spec, dict) and isinstance(spec.get("v"), dict) and "$src" in spec["v"]:
                v = v()   # a resolver answering with the source itself (async subscribe resolver)
            fut.set_result(v)

    # -- data
    def build(self, spec, path="$"):
        """JSON-able data spec -> Python root value."""
        if isinstance(spec, list):
            return [self.build(x, f"{path}.{i}") for i, x in enumerate(spec)]
        if not isinstance(spec, dict):
            return spec
        if "$gate" in spec:
            name = spec["$gate"] or path
            if spec.get("coro"):
                # a coroutine resolver: its finaliser shows WHEN the library let it settle
                async def coro_resolver(_info, _spec=spec, _name=name, **_args):
                    self.trace.append(("res_start", _name))
                    try:
                        return await self.gate(_name, _spec)
                    finally:
                        self.trace.append(("res_final", _name))
                return coro_resolver

            def resolver(_info, _spec=spec, _name=name, **_args):
                return self.gate(_name, _spec)
            return resolver
        if "$task" in spec or "$tasks" in spec:
            # data-loader style: the resolver itself starts asyncio Tasks and returns them (already running)
            def start_load(_name, _v):
                async def load():
                    self.trace.append(("res_start", _name))
                    try:
                        return await self.gate(_name, {"v": _v})
                    finally:
                        self.trace.append(("res_final", _name))
                return asyncio.ensure_future(load())

            def task_resolver(_info, _spec=spec, _path=path, **_args):
                if "$task" in _spec:
                    return start_load(_path, _spec["$task"])
                return [start_load(f"{_path}.{i}", v) for i, v in enumerate(_spec["$tasks"])]
            return task_resolver
        if "$abort" in spec:
            # a resolver that triggers the abort signal synchronously (e.g. a permission guard)
            def aborter(_info, _spec=spec, **_args):
                ctrl = getattr(self, "ctrl", None)
                if ctrl is not None:
                    self.aborted_in_resolver = True
                    ctrl.abort(self.reason)
                return _spec["$abort"]
            return aborter
        if "$raise" in spec:
            def raiser(_info, _spec=spec, **_args):
                raise RuntimeError(_spec["$raise"])
            return raiser
        if "$src" in spec:
            rec = SourceRec(spec.get("name") or path, spec["$src"])
            self.sources.append(rec)

            def make(_info=None, _spec=spec, _rec=rec, **_args):
                return self.make_source(_spec, _rec)
            return make
        return {k: self.build(v, f"{path}.{k}") for k, v in spec.items()}

    def make_source(self, spec, rec):
        items, gated, raise_at = spec.get("items", []), spec.get("gated", False), spec.get("raise_at")
        world = self
        rec.created += 1
        if spec["$src"] == "list":
            return [self.build(x, f"{rec.name}.{i}") for i, x in enumerate(items)]
        if spec["$src"] == "agen":
            async def agen():
                rec.started += 1
                world.trace.append(("src_open", rec.name))
                try:
                    for i, it in enumerate(items):
                        if gated:
                            await world.gate(f"{rec.name}.next{i}")
                        if raise_at == i:
                            rec.raised = True
                            raise RuntimeError(f"source {rec.name} failed")
                        yield world.build(it, f"{rec.name}.{i}")
                    if gated:
                        await world.gate(f"{rec.name}.end")
                    rec.exhausted = True
                finally:
                    rec.final += 1
                    world.trace.append(("src_close", rec.name))
            return agen()

        class It:
            def __init__(self):
                self.i = 0

            def __aiter__(self):
                return self

            async def __anext__(self):
                if not rec.started:
                    world.trace.append(("src_open", rec.name))
                rec.started += 1
                i = self.i
                if gated:
                    await world.gate(f"{rec.name}.next{i}" if i < len(items) else f"{rec.name}.end")
                if raise_at == i:
                    rec.raised = True
                    raise RuntimeError(f"source {rec.name} failed")
                if i >= len(items):
                    rec.exhausted = True
                    raise StopAsyncIteration
                self.i += 1
                return world.build(items[i], f"{rec.name}.{i}")

            async def aclose(self):
                rec.aclose_calls += 1
                world.trace.append(("src_close", rec.name))
                await asyncio.sleep(0)

        if spec["$src"] in ("iterable", "iterable-closable"):
            # an async iterable that is not its own iterator: __aiter__() hands out a separate iterator object;
            # the iterator has aclose(), the iterable itself only in the "-closable" variant (then closing the
            # iterable instead of the iterator is visible as a close of the wrong object: it is not counted)
            class Iterable:
                def __aiter__(self):
                    return It()

            if spec["$src"] == "iterable-closable":
                async def _iterable_aclose(self):
                    world.trace.append(("iterable_close", rec.name))
                Iterable.aclose = _iterable_aclose
            return Iterable()
        return It()

    # -- hook
    def hook(self, info):
        rec = {"executor": None, "background": None, "pending_incremental": None}
        try:
            ex = info.executor
            self._keep = getattr(self, "_keep", [])
            self._keep.append(ex)   # keeps id(ex) unique for the run
            rec["executor"] = id(ex)
            bg = getattr(ex, "background_futures", None)
            pi = getattr(ex, "pending_incremental_futures", None)
            rec["background"] = None if bg is None else len(bg)
            rec["pending_incremental"] = None if pi is None else len([f for f in pi if not f.done()])
        except Exception:  # noqa: BLE001
            pass
        rec["pending_gates_awaited"] = len([n for n in self.pending_gates()])
        rec["_pending_gate_names"] = list(self.pending_gates())
        self.hook_calls.append(rec)
        self.trace.append(("hook", rec["background"]))


# --------------------------------------------------------------------------- the driver


class Outcome:
    """Everything observed in one run."""

    def __init__(self):
        self.qps = []             # kinds of the quiescent points passed: init / between / mid
        self.payloads = 0
        self.completed = False    # stream exhausted / result delivered without a stop
        self.stopped = None       # (kind, qp)
        self.problems = []        # (class, detail)
        self.released = None      # how the awaiting caller was released after the stop
        self.leaked = []
        self.leaked_after_release = []
        self.sources = []
        self.hooks = []
        self.trace = []
        self.initial_kind = None
        self.unstarted_stream_closed = False
        self.comp_traces = []
        self.siq_traces = []
        self.gates_left = 0


def _coro_name(t):
    try:
        c = t.get_coro()
        return getattr(c, "__qualname__", None) or type(c).__name__
    except Exception:  # noqa: BLE001
        return "?"


def _is_reason(exc, reason):
    if exc is reason:
        return True
    if getattr(exc, "__cause__", None) is reason or getattr(exc, "reason", None) is reason:
        return True
    orig = getattr(exc, "original_error", None)
    return orig is reason


def _quiet(task):
    """Tasks created by the driver: always retrieve the exception (no 'never retrieved' noise)."""
    task.add_done_callback(lambda t: t.cancelled() or t.exception())
    return task


def _task(aw):
    return _quiet(asyncio.ensure_future(aw))


def _explained(roots, pending):
    """Pending tasks reachable from the given (background) futures: children of gather futures, the
    future a task is blocked on, and the tasks an asyncio.wait() of such a task is waiting for."""
    seen, ok, stack = set(), set(), list(roots)
    while stack:
        f = stack.pop()
        if id(f) in seen:
            continue
        seen.add(id(f))
        if isinstance(f, asyncio.Task):
            ok.add(f)
            w = getattr(f, "_fut_waiter", None)
            if w is not None:
                stack.append(w)
            continue
        ch = getattr(f, "_children", None)
        if ch:
            stack.extend(ch)
        # tasks waiting FOR this future (e.g. wait_and_run_hook waiting for the background futures)
        for cb in (getattr(f, "_callbacks", None) or []):
            fn = cb[0] if isinstance(cb, tuple) else cb
            owner = getattr(fn, "__self__", None)
            if isinstance(owner, asyncio.Task) and owner in pending:
                stack.append(owner)
            for c in (getattr(fn, "__closure__", None) or ()):
                w = getattr(c, "cell_contents", None)
                if isinstance(w, asyncio.Future) and not isinstance(w, asyncio.Task):
                    for q in pending:
                        if getattr(q, "_fut_waiter", None) is w:
                            stack.append(q)
        if ch:
            continue
        # a plain future: e.g. the waiter of asyncio.wait(); find the tasks whose done callbacks refer to it
        for q in pending:
            if id(q) in seen:
                continue
            for cb in (getattr(q, "_callbacks", None) or []):
                fn = cb[0] if isinstance(cb, tuple) else cb
                cells = getattr(fn, "__closure__", None) or ()
                if any(getattr(c, "cell_contents", None) is f for c in cells):
                    stack.append(q)
                    break
    return ok


async def _settle(n=SETTLE):
    for _ in range(n):
        await asyncio.sleep(0)


async def _await_budget(fut):
    """Await a future/task of the implementation within the budget; returns ('ok', v) / ('exc', e) / ('hang',)."""
    try:
        v = await asyncio.wait_for(asyncio.shield(fut), BUDGET)
        return ("ok", v)
    except asyncio.TimeoutError:
        return ("hang",)
    except StopAsyncIteration as e:
        return ("stop", e)
    except BaseException as e:  # noqa: BLE001
        if isinstance(e, asyncio.CancelledError) and not fut.done():
            raise
        return ("exc", e)


async def drive(scen, sched_seed, stop, recorder=None):
    """Run one scenario.  stop = None | {"kind": "aclose"|"abort", "at": qp index}."""
    from graphql import build_schema, parse
    from graphql.execution import (ExecutionHooks, ExecutionResult, execute,
                                   experimental_execute_incrementally, subscribe)
    from graphql.pyutils import AbortController

    loop = asyncio.get_running_loop()
    me = asyncio.current_task()
    out = Outcome()
    world = World(loop, sched_seed)
    if recorder is not None:
        recorder.attach(world)
    schema = _schema()
    doc = parse(scen["doc"])
    root = world.build(scen["root"])
    ctrl = AbortController() if scen.get("signal") or scen.get("aborts_itself") \
        or (stop and stop["kind"] == "abort") else None
    reason = RuntimeError("stop requested by the consumer")
    world.ctrl, world.reason, world.aborted_in_resolver = ctrl, reason, False
    kwargs = {}
    if ctrl is not None:
        kwargs["abort_signal"] = ctrl.signal
    kwargs["hooks"] = ExecutionHooks(async_work_finished=world.hook)
    kwargs["enable_early_execution"] = bool(scen.get("early"))
    kind = scen["kind"]

    def want_stop(qp_kind):
        i = len(out.qps)
        out.qps.append(qp_kind)
        if stop is not None and stop["at"] == i and out.stopped is None:
            if stop["kind"] == "aclose" and qp_kind != "between":
                return False
            out.stopped = (stop["kind"], i)
            return True
        return False

    def problem(cls, detail):
        out.problems.append((cls, detail))

    async def step_or_hang(fut, what):
        """Release the next gate, or - when nothing is left to release - require `fut` to finish."""
        g = world.next_gate()
        if g is not None:
            world.release(g)
            return True
        r = await _await_budget(fut)
        if r[0] == "hang":
            problem("hang", f"{what} not released although every resolver and source was resolved")
            return False
        return True

    async def after_abort(fut, what):
        r = await _await_budget(fut)
        if r[0] == "hang":
            problem("hang-after-abort", f"{what} not released within {BUDGET}s after the abort signal")
            out.released = "hang"
        elif r[0] == "exc":
            out.released = "reason" if _is_reason(r[1], reason) else f"other:{type(r[1]).__name__}"
            if out.released != "reason":
                problem("wrong-release", f"{what} released with {type(r[1]).__name__}: {r[1]} instead of the abort reason")
        else:
            out.released = "result" if r[0] == "ok" else "end"
        return r

    stream = None
    # remember the sets of background futures of the executors of this run (resolved by name)
    bg_sets, bg_watch_failed, bg_saved = [], False, None
    try:
        from graphql.execution.executor import Executor as _Ex
        _orig_sib = _Ex.__dict__["settle_in_background"]

        def _sib(ex, awaitables, *a, **k):
            bg = getattr(ex, "background_futures", None)
            if bg is not None and not any(bg is b for b in bg_sets):
                bg_sets.append(bg)
            return _orig_sib(ex, awaitables, *a, **k)
        _Ex.settle_in_background = _sib
        bg_saved = (_Ex, _orig_sib)
    except Exception:  # noqa: BLE001
        bg_watch_failed = True
    try:
        # ---- phase A: the call and the initial result
        try:
            if kind == "sub":
                res = subscribe(schema, doc, root, **kwargs)
            elif kind == "exec":
                res = execute(schema, doc, root, **kwargs)
            else:
                res = experimental_execute_incrementally(schema, doc, root, **kwargs)
        except Exception as e:  # noqa: BLE001
            problem("call-raised", f"{type(e).__name__}: {e}")
            res = None
        first = None
        if asyncio.isfuture(res) or asyncio.iscoroutine(res):
            ok = True
            aborted_here = False
            if stop is not None and stop.get("at") == -1 and ctrl is not None and not world.aborted_in_resolver:
                # abort between the call and the first await of its result
                ctrl.abort(reason)
                out.stopped = ("abort", -1)
                aborted_here = True
            elif world.aborted_in_resolver:
                out.stopped = ("abort", "resolver")
                aborted_here = True
            caller = _task(res)
            while not aborted_here:
                await _settle()
                if caller.done():
                    break
                if want_stop("init"):
                    ctrl.abort(reason)
                    aborted_here = True
                    break
                if not await step_or_hang(caller, "the caller awaiting the initial result"):
                    ok = False
                    break
            if aborted_here:
                r = await after_abort(caller, "the caller awaiting the initial result")
                if r[0] == "exc" and hasattr(r[1], "aborted_result"):
                    ar = r[1].aborted_result
                    if asyncio.isfuture(ar) or asyncio.iscoroutine(ar) or hasattr(ar, "__await__"):
                        arf = _task(ar)
                        while True:
                            await _settle()
                            if arf.done():
                                break
                            # the world goes on: resolvers not cancelled by the abort still answer
                            if not await step_or_hang(arf, "aborted_result"):
                                break
                        if arf.done() and not arf.cancelled() and arf.exception() is None:
                            ar = arf.result()
                        else:
                            ar = None
                    sub = getattr(ar, "subsequent_results", None)
                    if sub is not None:
                        # documented protocol: asking the exposed stream raises the reason and cleans up
                        t = _task(anext(sub))
                        r2 = await _await_budget(t)
                        if r2[0] == "hang":
                            problem("hang-after-abort", "stream exposed by aborted_result not released")
                            t.cancel()
                elif r[0] == "ok":
                    first = r[1]
            elif ok and caller.done():
                if caller.cancelled():
                    problem("wrong-release", "the initial result was cancelled")
                elif caller.exception() is not None:
                    e = caller.exception()
                    if ctrl is not None and ctrl.signal.aborted and _is_reason(e, reason):
                        pass
                    else:
                        problem("call-raised", f"{type(e).__name__}: {e}")
                else:
                    first = caller.result()
            elif not ok:
                caller.cancel()
        else:
            first = res

        # ---- phase B: the stream of subsequent results / subscription events
        if first is not None and not isinstance(first, ExecutionResult):
            stream = getattr(first, "subsequent_results", None) or first
            out.initial_kind = "incremental" if hasattr(first, "subsequent_results") else "subscription"
        elif first is not None:
            out.initial_kind = "single"
            if out.stopped is None:
                out.completed = True
        if stream is not None:
            started = False
            while True:
                await _settle()
                if want_stop("between"):
                    # the world may go on while the consumer holds a payload: further resolvers answer, so that
                    # results complete which the work queue has not integrated yet when the stop arrives
                    for _ in range(stop.get("pre", 0)):
                        g = world.next_gate()
                        if g is None:
                            break
                        world.release(g)
                        await _settle()
                    if stop["kind"] == "aclose":
                        if not started:
                            out.unstarted_stream_closed = True
                        t = _task(stream.aclose())
                        r = await _await_budget(t)
                        if r[0] == "hang":
                            problem("hang-aclose", f"aclose() of the stream did not return within {BUDGET}s")
                            t.cancel()
                        elif r[0] == "exc":
                            problem("aclose-raised", f"{type(r[1]).__name__}: {r[1]}")
                        out.released = "closed"
                        break
                    ctrl.abort(reason)
                    t = _task(anext(stream))
                    r = await after_abort(t, "the consumer asking for the next result after the abort")
                    if r[0] == "hang":
                        t.cancel()
                    if r[0] == "ok":
                        # a result that was already complete may still be delivered; ask once more
                        t = _task(anext(stream))
                        r = await after_abort(t, "the consumer asking again after the abort")
                        if r[0] == "ok":
                            problem("abort-ignored", "two further results were delivered after the abort signal")
                            await stream.aclose()
                        if r[0] == "hang":
                            t.cancel()
                    break
                started = True
                pull = _task(anext(stream))
                aborted_here = False
                ok = True
                while True:
                    await _settle()
                    if pull.done():
                        break
                    if want_stop("mid"):
                        ctrl.abort(reason)
                        aborted_here = True
                        break
                    if not await step_or_hang(pull, "the consumer awaiting the next result"):
                        ok = False
                        break
                if aborted_here:
                    r = await after_abort(pull, "the consumer awaiting the next result")
                    if r[0] == "hang":
                        pull.cancel()
                    elif r[0] == "ok":
                        t = _task(anext(stream))
                        r = await after_abort(t, "the consumer asking again after the abort")
                        if r[0] == "ok":
                            problem("abort-ignored", "two further results were delivered after the abort signal")
                            await stream.aclose()
                        if r[0] == "hang":
                            t.cancel()
                    break
                if not ok:
                    pull.cancel()
                    break
                if pull.cancelled():
                    problem("wrong-release", "the pending request for the next result was cancelled")
                    break
                e = pull.exception()
                if isinstance(e, StopAsyncIteration):
                    out.completed = True
                    break
                if e is not None:
                    if ctrl is not None and ctrl.signal.aborted and _is_reason(e, reason):
                        break
                    if scen.get("stream_raises"):
                        out.completed = True   # the subscription source failed: the stream ends by raising
                        break
                    problem("stream-raised", f"{type(e).__name__}: {e}")
                    break
                out.payloads += 1

        # ---- judgement: quiescence
        # A payload stream that ended by itself (hasNext false / StopAsyncIteration) is a stop point of its
        # own kind: when fragments FAILED, sibling work of theirs may still be in flight; like after a stop
        # by the consumer it must have been cancelled and settled by the time the consumer is released
        # (only work the executor settles in background_futures may still wait for its resolvers).
        ended_by_itself = out.stopped is None and out.completed and out.initial_kind == "incremental"
        if out.stopped is None and not ended_by_itself:
            # no stop by the consumer (single result, subscription, or the run broke off): the world goes
            # on, the resolvers that are still in flight answer (work the library settles in the background
            # on a failure path is by design not cancelled but awaited); background work may ask further
            # resolvers only after a while, so "nothing to release" must hold for several drains in a row
            idle = 0
            for _ in range(400):
                g = world.next_gate()
                if g is None:
                    idle += 1
                    if idle >= 3:
                        break
                    await _settle(DRAIN)
                    continue
                idle = 0
                world.release(g)
                await _settle()
        await _settle(DRAIN)
        left = [t for t in asyncio.all_tasks(loop) if t is not me and not t.done()]
        if left:
            await _settle(DRAIN * 3)
            left = [t for t in asyncio.all_tasks(loop) if t is not me and not t.done()]
        out.tolerated_background = 0
        if left and (out.stopped is not None or ended_by_itself):
            # Work that the executor settles in the background (Executor.background_futures; by design it is
            # awaited, not cancelled, and the hook waits for it) may still wait for resolvers in flight.
            # Only tasks reachable from those futures are tolerated here; they must settle in phase 2.
            roots = []
            for bg in bg_sets:
                roots.extend(f for f in bg if not f.done() and f not in roots)
            if bg_watch_failed:
                out.tolerated_background = len(left)
                strict = []
            elif roots:
                try:
                    ok = _explained(roots, left)
                    out.tolerated_background = len([t for t in left if t in ok])
                    strict = [t for t in left if t not in ok]
                except Exception:  # noqa: BLE001
                    out.tolerated_background = len(left)
                    strict = []
            else:
                strict = left
            out.leaked = sorted(_coro_name(t) for t in strict)
        else:
            out.leaked = sorted(_coro_name(t) for t in left)
        out.gates_left = len(world.pending_gates())
        out.hooks_before_release = len(world.hook_calls)
        for h in world.hook_calls:
            # resolver futures that were in flight when the hook fired and were cancelled only afterwards
            # (judged before the driver itself cancels or releases anything)
            h["cancelled_after_hook"] = [n for n in h.pop("_pending_gate_names", []) if world.gates[n][0].cancelled()]
        if left:
            # the world goes on: do the tasks settle once the remaining resolvers answer?
            for _ in range(200):
                g = world.next_gate()
                if g is None:
                    break
                world.release(g)
                await _settle()
            await _settle(DRAIN)
            left2 = [t for t in asyncio.all_tasks(loop) if t is not me and not t.done()]
            out.leaked_after_release = sorted(_coro_name(t) for t in left2)
            if left2 and not out.leaked:
                out.leaked = out.leaked_after_release   # background work that never settles
            for t in left2:
                t.cancel()
            if left2:
                await asyncio.gather(*left2, return_exceptions=True)
        out.sources = [s.summary() for s in world.sources]
        for h in world.hook_calls:
            h.pop("_pending_gate_names", None)
            h.setdefault("cancelled_after_hook", [])
        out.hooks = list(world.hook_calls)
        out.trace = list(world.trace)
        if recorder is not None:
            out.comp_traces, out.siq_traces = recorder.collect()
    finally:
        if bg_saved is not None:       # installed last, removed first
            bg_saved[0].settle_in_background = bg_saved[1]
        if recorder is not None:
            recorder.detach()
        # never leave anything behind in the loop
        rest = [t for t in asyncio.all_tasks(loop) if t is not me and not t.done()]
        for t in rest:
            t.cancel()
        if rest:
            await asyncio.gather(*rest, return_exceptions=True)
    return out


_SCHEMA = None


def _schema():
    global _SCHEMA
    if _SCHEMA is None:
        from graphql import build_schema
        _SCHEMA = build_schema(SDL)
    return _SCHEMA


def run_scenario(scen, sched_seed, stop, recorder=None):
    """One run in a fresh event loop."""
    loop = asyncio.new_event_loop()
    noise = []
    loop.set_exception_handler(lambda _l, ctx: noise.append(str(ctx.get("message"))))
    try:
        with warnings.catch_warnings():
            warnings.simplefilter("ignore")
            return loop.run_until_complete(
                asyncio.wait_for(drive(scen, sched_seed, stop, recorder), 60))
    finally:
        try:
            loop.run_until_complete(loop.shutdown_asyncgens())
        except Exception:  # noqa: BLE001
            pass
        loop.close()


# --------------------------------------------------------------------------- scenarios

def G(v=None, name=None, err=None, coro=False):
    d = {"$gate": name}
    if coro:
        d["coro"] = True
    if err is not None:
        d["err"] = err
    else:
        d["v"] = v
    return d


def SRC(kind, items, gated=False, raise_at=None, name=None):
    return {"$src": kind, "items": items, "gated": gated, "raise_at": raise_at, "name": name}


def item(i, **kw):
    d = {"id": i, "name": f"n{i}"}
    d.update(kw)
    return d


def base_scenarios():
    """Hand-written request templates covering the mechanisms named in the property anchors."""
    S = []

    def add(name, kind, doc, root, **kw):
        S.append(dict(name=name, kind=kind, doc=doc, root=root, **kw))

    # plain async execute
    add("exec-two-async", "exec", "{ a b }", {"a": G("x"), "b": G("y")})
    add("exec-nested", "exec", "{ a hero { name slow } }",
        {"a": G("x"), "hero": G({"name": G("n"), "slow": G("s")})})
    add("exec-resolver-raises", "exec", "{ a b hero { name } }",
        {"a": G(err="boom"), "b": G("y"), "hero": {"name": G("n")}})
    add("exec-nonnull-async-raise", "exec", "{ a nn b }",
        {"a": G("x"), "nn": G(err="boom"), "b": G("y")})
    add("exec-nonnull-sync-raise", "exec", "{ a nn b }",
        {"a": G("x"), "nn": {"$raise": "boom"}, "b": G("y")})
    for sk in ("agen", "aiter"):
        add(f"exec-list-{sk}", "exec", "{ a gen { id name } }",
            {"a": G("x"), "gen": SRC(sk, [item(0), item(1, name=G("n1")), item(2)], gated=True)})
        add(f"exec-list-{sk}-source-raises", "exec", "{ a gen { id name } }",
            {"a": G("x"), "gen": SRC(sk, [item(0), item(1, name=G("n1")), item(2)], gated=True, raise_at=2)})
        add(f"exec-list-{sk}-item-nonnull-raises", "exec", "{ gen { id nn } b }",
            {"b": G("y"), "gen": SRC(sk, [item(0, nn="k"), item(1, nn=G(err="boom")), item(2, nn="k")], gated=True)})

    # defer
    add("defer-one", "incr", "{ hero { id ... @defer { name slow } } a }",
        {"hero": {"id": 1, "name": G("n"), "slow": G("s")}, "a": G("x")})
    add("defer-two-siblings", "incr", "{ hero { id ... @defer(label: \"A\") { name } ... @defer(label: \"B\") { slow } } }",
        {"hero": {"id": 1, "name": G("n"), "slow": G("s")}})
    add("defer-nested", "incr",
        "{ hero { id ... @defer(label: \"O\") { name sub { id ... @defer(label: \"I\") { slow } } } } }",
        {"hero": {"id": 1, "name": G("n"), "sub": {"id": 2, "slow": G("s")}}})
    add("defer-resolver-raises", "incr", "{ hero { id ... @defer { name slow } } other { ... @defer { name } } }",
        {"hero": {"id": 1, "name": G(err="boom"), "slow": G("s")}, "other": {"name": G("o")}})
    add("defer-nonnull-raises", "incr", "{ hero { id ... @defer { nn slow } } other { ... @defer { name } } }",
        {"hero": {"id": 1, "nn": G(err="boom"), "slow": G("s")}, "other": {"name": G("o")}})
    add("defer-initial-nonnull-raises", "incr", "{ hero { id nn ... @defer { slow } } other { ... @defer { name } } }",
        {"hero": {"id": 1, "nn": G(err="boom"), "slow": G("s")}, "other": {"name": G("o")}})
    add("defer-root-nonnull-raises", "incr", "{ nn hero { id ... @defer { name slow } } }",
        {"nn": G(err="boom"), "hero": {"id": 1, "name": G("n", coro=True), "slow": G("s", coro=True)}})
    add("defer-coroutine-resolvers", "incr", "{ a hero { id ... @defer { name slow } } other { ... @defer { name } } }",
        {"a": G("x", coro=True), "hero": {"id": 1, "name": G("n", coro=True), "slow": G(err="boom", coro=True)},
         "other": {"name": G("o", coro=True)}})
    add("defer-async-parent", "incr", "{ hero { id ... @defer { name } } }",
        {"hero": G({"id": 1, "name": G("n")})})

    # stream
    for sk in ("agen", "aiter"):
        add(f"stream-{sk}", "incr", "{ items @stream(initialCount: 1) { id name } }",
            {"items": SRC(sk, [item(0), item(1, name=G("n1")), item(2), item(3, name=G("n3"))], gated=True)})
        add(f"stream-{sk}-ungated", "incr", "{ items @stream(initialCount: 1) { id name } a }",
            {"a": G("x"), "items": SRC(sk, [item(0), item(1, name=G("n1")), item(2), item(3, name=G("n3"))])})
        add(f"stream-{sk}-source-raises", "incr", "{ items @stream(initialCount: 1) { id name } }",
            {"items": SRC(sk, [item(0), item(1, name=G("n1")), item(2)], gated=True, raise_at=2)})
        add(f"stream-{sk}-source-raises-ungated", "incr", "{ items @stream(initialCount: 1) { id name } }",
            {"items": SRC(sk, [item(0), item(1, name=G("n1")), item(2)], raise_at=2)})
        add(f"stream-{sk}-item-nonnull-raises", "incr", "{ items @stream(initialCount: 0) { id nn } a }",
            {"a": G("x"), "items": SRC(sk, [item(0, nn="k"), item(1, nn=G(err="boom")), item(2, nn="k")], gated=True)})
        add(f"stream-{sk}-with-defer-in-items", "incr",
            "{ items @stream(initialCount: 1) { id ... @defer { slow } } }",
            {"items": SRC(sk, [item(0, slow=G("s0")), item(1, slow=G("s1")), item(2, slow=G("s2"))], gated=True)})
        add(f"defer-with-stream-{sk}", "incr",
            "{ hero { id ... @defer { name kids @stream(initialCount: 1) { id name } } } }",
            {"hero": {"id": 1, "name": G("n"),
                      "kids": SRC(sk, [item(0), item(1, name=G("k1")), item(2)], gated=True)}})
        add(f"two-streams-{sk}", "incr",
            "{ items @stream(initialCount: 0) { id } gen @stream(initialCount: 1) { id name } }",
            {"items": SRC(sk, [item(0), item(1)], gated=True, name="s1"),
             "gen": SRC(sk, [item(0), item(1, name=G("g1")), item(2)], gated=True, name="s2")})
        add(f"defer-list-{sk}", "incr", "{ hero { id ... @defer { kids { id name } } } a }",
            {"a": G("x"), "hero": {"id": 1, "kids": SRC(sk, [item(0), item(1, name=G("k1")), item(2)], gated=True)}})
    add("stream-sync-list", "incr", "{ items @stream(initialCount: 1) { id name } }",
        {"items": SRC("list", [item(0), item(1, name=G("n1")), item(2, name=G("n2"))])})
    add("stream-and-defer", "incr",
        "{ hero { id ... @defer { name } } items @stream(initialCount: 1) { id name } }",
        {"hero": {"id": 1, "name": G("n")},
         "items": SRC("agen", [item(0), item(1, name=G("n1")), item(2)], gated=True)})

    # subscriptions
    for sk in ("agen", "aiter"):
        add(f"sub-{sk}", "sub", "subscription { ev { id name } }",
            {"ev": SRC(sk, [{"ev": item(0)}, {"ev": item(1, name=G("n1"))}, {"ev": item(2)}], gated=True)})
        add(f"sub-{sk}-source-raises", "sub", "subscription { ev { id name } }",
            {"ev": SRC(sk, [{"ev": item(0)}, {"ev": item(1, name=G("n1"))}, {"ev": item(2)}], gated=True, raise_at=2),
             }, stream_raises=True)
        add(f"sub-{sk}-resolver-raises", "sub", "subscription { ev { id nn } }",
            {"ev": SRC(sk, [{"ev": item(0, nn="k")}, {"ev": item(1, nn=G(err="boom"))}, {"ev": item(2, nn="k")}],
                       gated=True)})
    add("sub-async-subscribe", "sub", "subscription { ev { id name } }",
        {"ev": G({"$src": "agen", "items": [{"ev": item(0)}, {"ev": item(1)}], "gated": True, "raise_at": None,
                  "name": "late"})})
    return S


# --------------------------------------------------------------------------- judgement of one run

K_UNSTARTED = "incremental-stream-aclose-before-first-request:no-cleanup"
K_FAIL_HANG = "early-execution-stream-source-failure-with-pending-item:consumer-never-released"


def judge(scen, out, stop):
    """Leak predicates of the property on one observed run -> list of (key, what)."""
    v = []
    tag = f"{scen['name']}|early={int(bool(scen.get('early')))}"
    st = "none" if stop is None or out.stopped is None else f"{out.stopped[0]}@{out.stopped[1]}"
    unstarted = out.unstarted_stream_closed and out.initial_kind == "incremental"

    def add(cls, what):
        if unstarted and cls in ("hook-count", "source-not-closed", "task-leak"):
            key = K_UNSTARTED
        elif cls == "hang" and scen.get("early") and any(s["raised"] for s in out.sources) \
                and scen["kind"] == "incr":
            key = K_FAIL_HANG
        else:
            key = f"{cls}:{tag}:{st}"
        v.append((key, cls, f"[{tag} stop={st}] {what}"))

    for cls, detail in out.problems:
        add(cls, detail)
    if out.leaked:
        settles = "they settle once the remaining resolvers answer" if not out.leaked_after_release \
            else "they stay pending even after every resolver answered"
        add("task-leak", f"{len(out.leaked)} task(s) started by the execution still pending after the loop was "
                         f"drained: {out.leaked[:4]} ({settles})")
    for s in out.sources:
        if s["kind"] == "list":
            continue
        if s["kind"] == "agen":
            if s["final"] > 1:
                add("source-closed-twice", f"source {s['name']} finalised {s['final']} times")
            elif s["started"] and s["final"] == 0:
                add("source-not-closed", f"started async generator source {s['name']} was never closed")
        else:
            if s["aclose_calls"] > 1:
                add("source-closed-twice", f"aclose() of source {s['name']} called {s['aclose_calls']} times")
            elif s["started"] and not s["exhausted"] and not s["raised"] and s["aclose_calls"] == 0:
                add("source-not-closed", f"started source {s['name']} never received aclose()")
    # the work-finished hook
    hooks = out.hooks
    if scen["kind"] == "sub":
        per = {}
        for h in hooks:
            per[h["executor"]] = per.get(h["executor"], 0) + 1
        if any(n > 1 for n in per.values()):
            add("hook-count", f"a per-event executor fired async_work_finished {max(per.values())} times")
        if out.initial_kind == "subscription" and len(hooks) < out.payloads:
            add("hook-count", f"{out.payloads} events delivered but the hook fired {len(hooks)} times")
    else:
        called = not any(c == "call-raised" for c, _ in out.problems)
        if called and len(hooks) != 1:
            add("hook-count", f"async_work_finished fired {len(hooks)} times (expected exactly once)")
    for h in hooks:
        if h["background"]:
            add("hook-early", f"hook fired while {h['background']} background future(s) were outstanding")
        if h.get("cancelled_after_hook"):
            add("hook-early", f"async_work_finished fired while work of the execution was still unsettled: the "
                              f"resolver future(s) {h['cancelled_after_hook']} were cancelled only after the hook")
    if scen["kind"] != "sub" and len(hooks) == 1:
        tr = out.trace
        hi = next((i for i, e in enumerate(tr) if e[0] == "hook"), None)
        late = [e[1] for e in tr[hi + 1:] if e[0] == "src_close"] if hi is not None else []
        if late:
            add("hook-early", f"async_work_finished fired before the source(s) {late} were closed")
        late = [e[1] for e in tr[hi + 1:] if e[0] == "res_final"] if hi is not None else []
        if late:
            add("hook-early", f"async_work_finished fired before the resolver coroutine(s) {late} had settled "
                              f"(their finalisers ran after the hook)")
    return v


def is_nontrivial(out):
    """A run exercises the property when something had to be stopped, closed or failed."""
    return bool(out.stopped is not None or any(s["raised"] for s in out.sources) or out.problems
                or out.leaked or any(s["started"] for s in out.sources))


# --------------------------------------------------------------------------- recording of real runs (T)

K_ORPHAN = "abort-signal-wrapper-cancelled:source-anext-orphaned"
K_TWICE = "stream-source-closed-twice:abort-races-producer-failure"
K_CANCELLED_LIST = "cancelled-list-completion:class-source-not-closed"
K_HOOK_EARLY = "hook-fired-before-cancelled-deferred-work-settled"
K_ABORT_HANG = "abort-with-pending-early-stream-item:consumer-never-released"
K_UNREACHABLE = "work-of-failed-fragment-or-unintegrated-result:never-cancelled"
K_SUB_ITERATOR = "subscription-without-abort-signal:separate-source-iterator-never-closed"
K_NO_LOOP = "early-execution-with-defer-outside-running-event-loop:execution-fails"
K_CLEANUP_INTERRUPTED = "stream-queue-cleanup-interrupted-by-cancellation-of-its-awaiter:abort-callback-lost"


def _cleanup_interrupted(tr):
    """A queue that was aborted (>= 2 abort calls), whose producer is gone, but whose abort callback never ran: the
    asynchronous cleanup started by the first abort() was cancelled together with the task awaiting it."""
    return bool(tr.get("aborted") and tr.get("has_cb") and tr.get("cb") == 0 and not tr.get("finished")
                and tr.get("prod") == 2 and list(tr.get("events", [])).count(7) >= 2)

ST_CODE = {None: 0, "pending": 1, "fulfilled": 2, "rejected": 3}


class Recorder:
    """Wraps Computation / StreamItemQueue / Executor bookkeeping methods at run time (resolved by name)
    and records abstract per-object event traces of one run."""

    def __init__(self):
        self.degraded = []
        self.saved = []
        self.comps = []   # [obj, rec]
        self.queues = []
        self.hook_traces = {}   # id(background set) -> [codes]
        self.keep = []
        try:
            from graphql.execution.incremental.computation import Computation
            self.Computation = Computation
            for n in ("prime", "result", "abort", "_settle"):
                getattr(Computation, n)
        except Exception as e:  # noqa: BLE001
            self.Computation = None
            self.degraded.append(f"Computation trace recording: {e!r}")
        try:
            from graphql.execution.incremental.stream_item_queue import StreamItemQueue
            self.StreamItemQueue = StreamItemQueue
            for n in ("_start", "push", "abort"):
                getattr(StreamItemQueue, n)
        except Exception as e:  # noqa: BLE001
            self.StreamItemQueue = None
            self.degraded.append(f"StreamItemQueue trace recording: {e!r}")
        try:
            from graphql.execution.executor import Executor
            self.Executor = Executor
            for n in ("settle_in_background", "run_async_work_finished_hook"):
                getattr(Executor, n)
        except Exception as e:  # noqa: BLE001
            self.Executor = None
            self.degraded.append(f"Executor hook bookkeeping recording: {e!r}")

    def _patch(self, cls, name, new):
        self.saved.append((cls, name, cls.__dict__[name]))
        setattr(cls, name, new)

    def attach(self, world):
        self.world = world
        rec_self = self
        from graphql.pyutils import is_awaitable
        C = self.Computation
        if C is not None:
            o_init, o_prime, o_result, o_abort, o_settle = C.__init__, C.prime, C.result, C.abort, C._settle

            def c_init(obj, fn, on_abort=None):
                rec = {"runs": 0, "cb": 0, "cb_async": False, "has_cb": on_abort is not None, "last": 1,
                       "events": [], "depth": 0}

                def fn2():
                    rec["runs"] += 1
                    try:
                        r = fn()
                    except Exception:
                        rec["last"] = 3
                        raise
                    rec["last"] = 2 if is_awaitable(r) else 1
                    return r

                def cb2(reason):
                    rec["cb"] += 1
                    r = on_abort(reason)
                    rec["cb_async"] = bool(is_awaitable(r))
                    return r
                o_init(obj, fn2, cb2 if on_abort is not None else None)
                rec_self.comps.append((obj, rec))
                rec_self._rec_of[id(obj)] = rec

            def status(obj):
                return ST_CODE.get(getattr(obj, "_status", "?"), 9)

            def wrap(orig, kind):
                def w(obj, *a, **k):
                    rec = rec_self._rec_of.get(id(obj))
                    if rec is None or rec["depth"]:
                        return orig(obj, *a, **k)
                    rec["depth"] += 1
                    runs0 = rec["runs"]
                    ret = 0
                    try:
                        r = orig(obj, *a, **k)
                        if kind == "result":
                            ret = 3 if asyncio.isfuture(r) else 1
                        elif kind == "abort":
                            ret = 4 if is_awaitable(r) else 0
                        return r
                    except BaseException:
                        ret = 2
                        raise
                    finally:
                        rec["depth"] -= 1
                        outcome = rec["last"] if rec["runs"] > runs0 else 1
                        if kind == "prime":
                            rec["events"].append((outcome, status(obj), ret))
                        elif kind == "result":
                            rec["events"].append((3 + outcome, status(obj), ret))
                        elif kind == "abort":
                            rec["events"].append((7, status(obj), ret))
                        else:
                            fut = a[0]
                            code = 10 if fut.cancelled() else (9 if fut.exception() is not None else 8)
                            rec["events"].append((code, 9, 9))
                            rec["events"].append((11, status(obj), 0))
                return w
            self._rec_of = {}
            self._patch(C, "__init__", c_init)
            self._patch(C, "prime", wrap(o_prime, "prime"))
            self._patch(C, "result", wrap(o_result, "result"))
            self._patch(C, "abort", wrap(o_abort, "abort"))
            self._patch(C, "_settle", wrap(o_settle, "settle"))
        Q = self.StreamItemQueue
        if Q is not None:
            q_init, q_start, q_push, q_abort = Q.__init__, Q._start, Q.push, Q.abort

            def qi(obj, produce, on_abort=None, eager=False, capacity=100):
                rec = {"cb": 0, "cb_async": False, "has_cb": on_abort is not None, "eager": bool(eager),
                       "events": [], "obj": obj, "cap": int(capacity)}

                async def produce2(q):
                    try:
                        await produce(q)
                    except Exception:
                        # 9: the producer had been cancelled and raises an exception instead
                        rec["events"].append(9 if getattr(obj, "_producer_cancelled", False) else 6)
                        raise
                    rec["events"].append(5)

                def cb2(reason):
                    rec["cb"] += 1
                    r = on_abort(reason)
                    rec["cb_async"] = bool(is_awaitable(r))
                    return r
                rec_self.queues.append(rec)
                rec_self._qrec_of[id(obj)] = rec
                q_init(obj, produce2, cb2 if on_abort is not None else None, eager, capacity)

            def qs(obj):
                rec = rec_self._qrec_of.get(id(obj))
                had = getattr(obj, "_producer_task", None)
                q_start(obj)
                if rec is not None and had is None and getattr(obj, "_producer_task", None) is not None:
                    rec["events"].append(1)

            async def qp(obj, result):
                rec = rec_self._qrec_of.get(id(obj))
                if rec is not None:
                    if asyncio.isfuture(result) and not result.done():
                        rec["events"].append(2)
                        # a cancelled item future is discarded by the machine's tick, not an event
                        # (nor is one that ends, in whatever way, after the queue was aborted)
                        result.add_done_callback(
                            lambda f, rec=rec, obj=obj: f.cancelled() or getattr(obj, "_aborted", False)
                            or rec["events"].append(4))
                        # an item future that FAILS (non-null item): batches() then runs _cleanup on the consumer
                        # side, which the queue machine has no event for
                        result.add_done_callback(
                            lambda f, rec=rec: (not f.cancelled()) and f.exception() is not None
                            and rec.__setitem__("item_failed", True))
                    else:
                        rec["events"].append(3)
                return await q_push(obj, result)

            def qa(obj, reason=None):
                rec = rec_self._qrec_of.get(id(obj))
                r = q_abort(obj, reason)
                if rec is not None:
                    rec["events"].append(7)
                return r
            self._qrec_of = {}
            self._patch(Q, "__init__", qi)
            self._patch(Q, "_start", qs)
            self._patch(Q, "push", qp)
            self._patch(Q, "abort", qa)
        E = self.Executor
        if E is not None:
            e_bg, e_hook = E.settle_in_background, E.run_async_work_finished_hook

            def sib(ex, awaitables, *a, **k):
                bg = getattr(ex, "background_futures", None)
                before = set(bg) if bg is not None else set()
                e_bg(ex, awaitables, *a, **k)
                if bg is not None:
                    tr = rec_self.hook_traces.setdefault(id(bg), [])
                    rec_self.keep.append(bg)
                    for f in set(bg) - before:
                        tr.append(1)
                        f.add_done_callback(lambda _f, tr=tr: tr.append(2))

            def rh(ex):
                bg = getattr(ex, "background_futures", None)
                if bg is not None and getattr(ex, "hooks", None) is not None \
                        and getattr(ex.hooks, "async_work_finished", None) is not None:
                    rec_self.keep.append(bg)
                    rec_self.hook_traces.setdefault(id(bg), []).append(3)
                return e_hook(ex)
            self._patch(E, "settle_in_background", sib)
            self._patch(E, "run_async_work_finished_hook", rh)
            world_hook = world.hook

            def hook2(info):
                try:
                    bg = info.executor.background_futures
                    rec_self.keep.append(bg)
                    rec_self.hook_traces.setdefault(id(bg), []).append(5)
                except Exception:  # noqa: BLE001
                    pass
                return world_hook(info)
            world.hook = hook2

    def detach(self):
        for cls, name, old in reversed(self.saved):
            setattr(cls, name, old)
        self.saved = []

    def collect(self):
        comps = []
        for obj, rec in self.comps:
            comps.append({"has_cb": rec["has_cb"], "cb_async": rec["cb_async"], "events": list(rec["events"]),
                          "runs": rec["runs"], "cb": rec["cb"], "final": ST_CODE.get(getattr(obj, "_status", "?"), 9)})
        queues = []
        for rec in self.queues:
            o = rec["obj"]
            t = getattr(o, "_producer_task", None)
            queues.append({"eager": rec["eager"], "has_cb": rec["has_cb"], "cb_async": rec["cb_async"], "cap": rec["cap"],
                           "events": list(rec["events"]), "cb": rec["cb"], "item_failed": bool(rec.get("item_failed")),
                           "aborted": bool(getattr(o, "_aborted", False)), "finished": bool(getattr(o, "_finished", False)),
                           "prod": 0 if t is None else (2 if t.done() else 1),
                           "pending": len([f for f in getattr(o, "_pending_futures", ()) if not f.done()])})
        return comps, queues


def comp_case(tr):
    return [1, int(tr["has_cb"]), int(tr["cb_async"])] + [e[0] for e in tr["events"]]


def check_comp_trace(tr, out):
    """Model output vs recorded observations of one Computation -> None or a description."""
    ev = tr["events"]
    if out == [999999] or len(out) != 2 * len(ev) + 2:
        return f"model rejected the event list {[e[0] for e in ev]}"
    for i, (code, st, ret) in enumerate(ev):
        mst, mret = out[2 * i], out[2 * i + 1]
        if st != 9 and st != mst:
            return f"event {i} (code {code}): status {st}, machine says {mst}"
        if ret != 9 and code != 11 and ret != mret:
            return f"event {i} (code {code}): returned kind {ret}, machine says {mret}"
    if out[-2] != tr["runs"]:
        return f"fn was called {tr['runs']} times, machine says {out[-2]}"
    if out[-1] != tr["cb"]:
        return f"on_abort was called {tr['cb']} times, machine says {out[-1]}"
    return None


def queue_case(tr):
    """Recorded queue events -> opcode 6 (the machine decides where the loop may have settled)."""
    evs = list(tr["events"])
    if tr["eager"] and evs and evs[0] == 1:
        evs = evs[1:]        # the eager start is the initial state of the machine
    return [6, int(tr["eager"]), int(tr["has_cb"]), int(tr["cb_async"]), int(tr.get("cap", 100))] + evs, len(evs)


def check_queue_trace(tr, out, nev):
    FW = 9
    if out == [999999] or len(out) < nev or (len(out) - nev) % FW:
        return "model rejected the event list"
    for i in range(nev):
        if out[i] == 0:
            return f"event {i} (code {tr['events'][-nev:][i]}) of the recorded trace is impossible in the machine"
    finals = [out[nev + FW * j: nev + FW * j + FW] for j in range((len(out) - nev) // FW)]
    want = [int(tr["aborted"]), int(tr["finished"]), tr["cb"]]
    ok = [f for f in finals if [f[1], f[2], f[5]] == want]
    if not ok:
        return (f"final [aborted, finished, on_abort calls] = {want}; the machine allows "
                f"{sorted(set((f[1], f[2], f[5]) for f in finals))}")
    if all(f[0] == 1 for f in ok) and (tr["prod"] == 1 or tr["pending"]):
        return "machine is quiescent but the producer task / item futures of the queue are still pending"
    return None


# --------------------------------------------------------------------------- direct drives (D)

COMP_EVENTS = list(range(1, 12))
QUEUE_SCRIPT_EVENTS = [1, 2, 3, 4, 5, 6, 7, 9]   # Tick (8) is inserted after every non-abort event
ACLOSE_EVENTS = [1, 2, 3, 4]


class _Quiet:
    """Event loop shared by the direct drives; swallows 'never retrieved' noise."""

    def __enter__(self):
        self.loop = asyncio.new_event_loop()
        self.loop.set_exception_handler(lambda _l, _c: None)
        return self.loop

    def __exit__(self, *a):
        try:
            self.loop.run_until_complete(self.loop.shutdown_asyncgens())
        finally:
            self.loop.close()


async def drive_computation(Computation, has_cb, cb_async, events):
    """Scripted events on a real Computation -> [(status, ret)...], runs, on_abort calls."""
    loop = asyncio.get_running_loop()
    st = {"runs": 0, "cb": 0, "outcome": 1, "fut": None}
    cleanup = []

    def fn():
        st["runs"] += 1
        if st["outcome"] == 1:
            return 7
        if st["outcome"] == 3:
            raise RuntimeError("fn failed")
        st["fut"] = loop.create_future()
        return st["fut"]

    async def acb():
        return None

    def on_abort(_reason):
        st["cb"] += 1
        return acb() if cb_async else None

    comp = Computation(fn, on_abort if has_cb else None)
    obs = []
    for e in events:
        ret = 0
        if e in (1, 2, 3):
            st["outcome"] = e
            comp.prime()
        elif e in (4, 5, 6):
            st["outcome"] = e - 3
            try:
                r = comp.result()
                ret = 3 if asyncio.isfuture(r) else 1
            except BaseException:  # noqa: BLE001
                ret = 2
        elif e == 7:
            r = comp.abort(RuntimeError("stop"))
            if r is None:
                ret = 0
            else:
                ret = 4
                cleanup.append(r)
        elif e in (8, 9, 10):
            f = st["fut"]
            if f is not None and not f.done():
                if e == 8:
                    f.set_result(1)
                elif e == 9:
                    f.set_exception(RuntimeError("async failure"))
                else:
                    f.cancel()
        elif e == 11:
            await asyncio.sleep(0)
        obs.append((ST_CODE.get(comp._status, 9), ret))
    for c in cleanup:
        try:
            await c
        except BaseException:  # noqa: BLE001
            pass
    f = st["fut"]
    if f is not None and not f.done():
        f.cancel()
    await asyncio.sleep(0)
    return obs, st["runs"], st["cb"]


async def drive_queue(StreamItemQueue, WorkResult, eager, has_cb, cb_async, cap, script, applicable):
    """Scripted events on a real StreamItemQueue (loop settled after every non-abort event)."""
    loop = asyncio.get_running_loop()
    cmds = asyncio.Queue()
    pend, tasks = [], []
    st = {"cb": 0}

    async def produce(q):
        try:
            while True:
                c = await cmds.get()
                if c == 2:
                    f = loop.create_future()
                    pend.append(f)
                    await q.push(f)
                elif c == 3:
                    await q.push(WorkResult(1))
                elif c == 5:
                    return
                elif c == 6:
                    raise RuntimeError("source failed")
        except asyncio.CancelledError:
            if st.get("convert"):
                raise RuntimeError("cancellation turned into a failure") from None
            raise

    async def acb():
        await asyncio.sleep(0)

    def on_abort(_reason):
        st["cb"] += 1
        return acb() if cb_async else None

    async def consume(q):
        try:
            async for _ in q.batches():
                pass
        except BaseException:  # noqa: BLE001
            pass

    q = StreamItemQueue(produce, on_abort if has_cb else None, eager=eager, capacity=cap)
    consumer = None
    obs = []

    def observe(ret):
        t = q._producer_task
        return [int(bool(ret)), int(q._aborted), int(q._finished), 0 if t is None else (2 if t.done() else 1),
                len(q._pending_futures), st["cb"]]

    problem = None
    for e, app in zip(script, applicable):
        if not app:
            obs.append(None)
            if e != 7:
                await _settle(8)     # the machine's script has a tick after every non-abort event
            continue
        ret = False
        if e == 1:
            if consumer is None:
                consumer = asyncio.ensure_future(consume(q))
        elif e in (2, 3, 5, 6):
            cmds.put_nowait(e)
        elif e == 4:
            f = next((f for f in pend if not f.done()), None)
            if f is None:
                problem = "the machine has a pending item future, the implementation has none"
                break
            f.set_result(WorkResult(2))
        elif e == 7:
            r = q.abort(RuntimeError("stop"))
            if r is not None:
                ret = True
                tasks.append(asyncio.ensure_future(r))
        elif e == 9:
            st["convert"] = True
        if e != 7:
            await _settle(8)
        obs.append(observe(ret))
    await _settle(8)
    final = observe(False)[1:]
    left = [t for t in ([consumer, q._producer_task] + tasks) if t is not None and not t.done()]
    final_quiet = not [t for t in ([q._producer_task] + tasks) if t is not None and not t.done()]
    for t in left:
        t.cancel()
    for f in pend:
        if not f.done():
            f.cancel()
    if left:
        await asyncio.gather(*left, return_exceptions=True)
    await asyncio.sleep(0)
    return obs, final, final_quiet, problem


async def drive_aclosing(map_async_iterable, events, callback_raises):
    """Scripted events on map_async_iterable over a class-based source -> close calls after each event."""
    st = {"closes": 0, "next": None}

    class Src:
        def __aiter__(self):
            return self

        async def __anext__(self):
            k = st["next"]
            if k == 2:
                raise StopAsyncIteration
            if k == 3 and not callback_raises:
                raise RuntimeError("source failed")
            return 1

        async def aclose(self):
            st["closes"] += 1

    async def cb(x):
        if st["next"] == 3 and callback_raises:
            raise RuntimeError("callback failed")
        return x

    gen = map_async_iterable(Src(), cb)
    obs = []
    for e in events:
        st["next"] = e
        try:
            if e == 4:
                await gen.aclose()
            else:
                await anext(gen)
        except BaseException:  # noqa: BLE001
            pass
        obs.append(st["closes"])
    await gen.aclose()
    return obs


def sequences(alphabet, n):
    for k in range(n + 1):
        yield from itertools.product(alphabet, repeat=k)


# --------------------------------------------------------------------------- generated scenarios


def extra_scenarios():
    """Templates added for specific stop points (requested regression scenarios)."""
    S = []
    for sk in ("agen", "aiter", "iterable"):
        # a stream item that has started a nested stream while another field of it is still pending: a stop of the
        # consumer (or the natural end) cancels the item future, the work the item started must go with it
        S.append(dict(name=f"stream-item-pending-with-nested-stream-{sk}", kind="incr",
                      doc="{ hero { id ... @defer { name } } items @stream(initialCount: 0) { id slow kids "
                          "@stream(initialCount: 0) { id } } }",
                      root={"hero": {"id": 1, "name": G("n")},
                            "items": SRC("list", [{"id": 0, "slow": G("s0"),
                                                   "kids": SRC(sk, [item(0), item(1)], gated=True, name="kids0")}])}))
        # a deferred fragment fails after a nested fragment under one of its fields has completed and started a stream
        S.append(dict(name=f"defer-fails-after-nested-defer-started-stream-{sk}", kind="incr",
                      doc="{ hero { id ... @defer(label: \"O\") { nn sub { id ... @defer(label: \"I\") { kids "
                          "@stream(initialCount: 0) { id } } } } } a }",
                      root={"a": G("x"), "hero": {"id": 1, "nn": G(err="boom"),
                                                  "sub": {"id": 2, "kids": SRC(sk, [item(0), item(1)], gated=True,
                                                                               name="kids")}}}))
    # resolvers returning already running Tasks (data loader style), also as list items; the abort may come from a
    # sibling resolver (synchronously, after the loads were started) or before the first await of the result
    S.append(dict(name="exec-running-tasks", kind="exec", doc="{ a strs b }",
                  root={"a": {"$task": "x"}, "strs": {"$tasks": ["p", "q"]}, "b": G("y")}))
    S.append(dict(name="exec-running-tasks-sibling-aborts", kind="exec", doc="{ a strs hero { name } b }",
                  root={"a": {"$task": "x"}, "strs": {"$tasks": ["p", "q"]}, "hero": {"name": {"$task": "n"}},
                        "b": {"$abort": "checked"}}, aborts_itself=True))
    S.append(dict(name="exec-coro-and-future-sibling-aborts", kind="exec", doc="{ a other { name } b }",
                  root={"a": G("x", coro=True), "other": {"name": G("o")}, "b": {"$abort": "checked"}},
                  aborts_itself=True))
    S.append(dict(name="defer-running-tasks", kind="incr", doc="{ a ... @defer { strs hero { name } } b }",
                  root={"a": {"$task": "x"}, "strs": {"$tasks": ["p", "q"]}, "hero": {"name": {"$task": "n"}}, "b": G("y")}))
    S.append(dict(name="defer-running-tasks-sibling-aborts", kind="incr",
                  doc="{ a ... @defer { strs hero { name } } b }",
                  root={"a": {"$task": "x"}, "strs": {"$tasks": ["p", "q"]}, "hero": {"name": {"$task": "n"}},
                        "b": {"$abort": "checked"}}, aborts_itself=True))
    S.append(dict(name="mutation-running-tasks-sibling-aborts", kind="exec", doc="mutation { a b c }",
                  root={"a": {"$task": "x"}, "b": {"$abort": "checked"}, "c": {"$task": "z"}}, aborts_itself=True))
    # sources that are async ITERABLES with a separate iterator object
    for sk in ("iterable", "iterable-closable"):
        S.append(dict(name=f"exec-list-{sk}", kind="exec", doc="{ a gen { id name } }",
                      root={"a": G("x"), "gen": SRC(sk, [item(0), item(1, name=G("n1")), item(2)], gated=True)}))
        S.append(dict(name=f"exec-list-{sk}-item-nonnull-raises", kind="exec", doc="{ gen { id nn } b }",
                      root={"b": G("y"), "gen": SRC(sk, [item(0, nn="k"), item(1, nn=G(err="boom")), item(2, nn="k")])}))
        S.append(dict(name=f"exec-list-{sk}-item-nonnull-raises-sync", kind="exec", doc="{ gen { id nn } }",
                      root={"gen": SRC(sk, [item(0, nn="k"), item(1, nn={"$raise": "boom"}), item(2, nn="k")])}))
        S.append(dict(name=f"stream-{sk}", kind="incr", doc="{ items @stream(initialCount: 1) { id name } }",
                      root={"items": SRC(sk, [item(0), item(1, name=G("n1")), item(2), item(3)], gated=True)}))
        S.append(dict(name=f"stream-{sk}-ungated-item-nonnull-raises", kind="incr",
                      doc="{ items @stream(initialCount: 0) { id nn } a }",
                      root={"a": G("x"), "items": SRC(sk, [item(0, nn="k"), item(1, nn=G(err="boom")), item(2, nn="k")])}))
        S.append(dict(name=f"sub-{sk}", kind="sub", doc="subscription { ev { id name } }",
                      root={"ev": SRC(sk, [{"ev": item(0)}, {"ev": item(1, name=G("n1"))}, {"ev": item(2)}])}))
        S.append(dict(name=f"sub-{sk}-gated", kind="sub", doc="subscription { ev { id name } }",
                      root={"ev": SRC(sk, [{"ev": item(0)}, {"ev": item(1)}, {"ev": item(2)}], gated=True)}))
        S.append(dict(name=f"sub-{sk}-resolver-raises", kind="sub", doc="subscription { ev { id nn } }",
                      root={"ev": SRC(sk, [{"ev": item(0, nn="k")}, {"ev": item(1, nn=G(err="boom"))}, {"ev": item(2, nn="k")}])}))
    # a streamed list with NON-NULL items whose item starts nested work (a nested @stream over an async source, a
    # nested @defer) and then fails asynchronously through a non-null field of its own
    for sk in ("agen", "aiter", "iterable"):
        for outer in ("list", "agen"):
            S.append(dict(name=f"stream-nonnull-items-{outer}-nested-stream-{sk}-item-fails", kind="incr",
                          doc="{ nnitems @stream(initialCount: 0) { id nn kids @stream(initialCount: 0) { id } } a }",
                          root={"a": G("x"),
                                "nnitems": SRC(outer, [{"id": 0, "nn": G(err="boom"),
                                                        "kids": SRC(sk, [item(0), item(1)], gated=True, name="kids0")},
                                                       {"id": 1, "nn": "k",
                                                        "kids": SRC(sk, [item(0)], gated=True, name="kids1")}])}))
    S.append(dict(name="stream-nonnull-items-nested-defer-item-fails", kind="incr",
                  doc="{ nnitems @stream(initialCount: 0) { id nn ... @defer { name slow } } }",
                  root={"nnitems": SRC("list", [{"id": 0, "nn": G(err="boom"), "name": G("n", coro=True),
                                                 "slow": G("s", coro=True)}])}))
    # the payload stream ends because fragments FAIL while sibling execution groups are still in flight:
    # overlapping fragments sharing a failing non-null field, each with private work (plain and nested)
    for coro in (False, True):
        tag = "-coro" if coro else ""
        S.append(dict(name=f"defer-overlap-shared-nonnull-raises{tag}", kind="incr",
                      doc="{ a ... @defer(label: \"X\") { nn b } ... @defer(label: \"Y\") { nn hero { name } } }",
                      root={"a": "x", "nn": G(err="boom"), "b": G("y", coro=coro),
                            "hero": {"name": G("n", coro=coro)}}))
        S.append(dict(name=f"defer-overlap-nested-shared-nonnull-raises{tag}", kind="incr",
                      doc="{ hero { id ... @defer(label: \"X\") { nn slow } ... @defer(label: \"Y\") { nn sub { name } } "
                          "... @defer(label: \"Z\") { name } } }",
                      root={"hero": {"id": 1, "nn": G(err="boom"), "slow": G("s", coro=coro), "name": G("n", coro=coro),
                                     "sub": {"name": G("sn", coro=coro)}}}))
    for sk in ("agen", "aiter"):
        # sibling fragments; the second one produces a stream and may complete while the consumer holds the
        # payload of the first one (its result is then not integrated into the work queue when a stop arrives)
        for n0, gated in ((0, True), (1, False), (1, True)):
            S.append(dict(name=f"defer-siblings-second-with-stream{n0}-{sk}{'-gated' if gated else ''}", kind="incr",
                          doc="{ a ... @defer(label: \"A\") { b } ... @defer(label: \"B\") { hero { name kids "
                              "@stream(initialCount: %d) { id } } } }" % n0,
                          root={"a": "x", "b": G("y"),
                                "hero": {"name": G("n"), "kids": SRC(sk, [item(0), item(1), item(2)], gated=gated)}}))
        S.append(dict(name=f"defer-overlap-shared-nonnull-raises-stream-{sk}", kind="incr",
                      doc="{ ... @defer(label: \"X\") { nn b } ... @defer(label: \"Y\") { nn items @stream(initialCount: 0) { id } } }",
                      root={"nn": G(err="boom"), "b": G("y"),
                            "items": SRC(sk, [item(0), item(1)], gated=True)}))
        # serial execution (mutation): a streamed root field has pulled its initial items before later root
        # fields run; every quiescent point while those are in flight is an abort point
        for n0 in (1, 2):
            S.append(dict(name=f"mutation-stream{n0}-{sk}-then-fields", kind="incr",
                          doc="mutation { items @stream(initialCount: %d) { id } a b c }" % n0,
                          root={"items": SRC(sk, [item(0), item(1), item(2)]), "a": G("x"), "b": G("y"), "c": G("z")}))
        S.append(dict(name=f"mutation-stream-gated-{sk}-then-fields", kind="incr",
                      doc="mutation { items @stream(initialCount: 1) { id name } a b }",
                      root={"items": SRC(sk, [item(0), item(1, name=G("n1")), item(2)], gated=True),
                            "a": G("x", coro=True), "b": G("y")}))
        S.append(dict(name=f"mutation-defer-and-list-{sk}", kind="incr",
                      doc="mutation { hero { id ... @defer { name } } gen { id } a b }",
                      root={"hero": {"id": 1, "name": G("n")}, "gen": SRC(sk, [item(0), item(1)], gated=True),
                            "a": G("x"), "b": G("y")}))
    for sk in ("agen", "aiter"):
        # the source raises while an EARLIER item is still pending; a deferred fragment gives the consumer a
        # payload boundary (aclose) while StreamItemQueue._run waits for that item
        S.append(dict(name=f"stream-{sk}-raises-with-pending-item-and-defer", kind="incr",
                      doc="{ hero { id ... @defer { name } } items @stream(initialCount: 1) { id name } }",
                      root={"hero": {"id": 1, "name": G("h")},
                            "items": SRC(sk, [item(0), item(1, name=G("n1")), item(2)], raise_at=2)}))
        S.append(dict(name=f"stream-{sk}-gated-raises-with-pending-item-and-defer", kind="incr",
                      doc="{ hero { id ... @defer { name } } items @stream(initialCount: 1) { id name } }",
                      root={"hero": {"id": 1, "name": G("h")},
                            "items": SRC(sk, [item(0), item(1, name=G("n1")), item(2)], gated=True, raise_at=2)}))
        S.append(dict(name=f"exec-list-{sk}-cancelled-by-sibling", kind="exec", doc="{ gen { id } nn }",
                      root={"nn": G(err="boom"), "gen": SRC(sk, [item(0), item(1)], gated=True)}))
    return S


def random_scenario(rng, i):
    """A request composed from building blocks; every choice comes from rng."""
    parts, root = [], {}
    sk = lambda: rng.choice(["agen", "aiter", "agen", "aiter", "list", "iterable"])  # noqa: E731

    def gate_or(v, p_err=0.15):
        r = rng.random()
        if r < p_err:
            return G(err="boom")
        if r < 0.75:
            return G(v, coro=rng.random() < 0.3)
        return v

    def items(n, with_defer=False):
        out = []
        for j in range(n):
            it = {"id": j, "name": gate_or(f"n{j}")}
            if with_defer:
                it["slow"] = gate_or(f"s{j}")
            out.append(it)
        return out

    if rng.random() < 0.5:
        parts.append("a")
        root["a"] = gate_or("x")
    if rng.random() < 0.25:
        parts.append("nn")
        root["nn"] = rng.choice([G("k"), G(err="boom"), {"$raise": "boom"}, "k"])
    if rng.random() < 0.7:
        inner = rng.choice(["name", "name slow", "slow sub { id ... @defer(label: \"I\") { name } }",
                            "kids @stream(initialCount: 1) { id name }", "kids { id name }", "nn name"])
        hero = {"id": 1, "name": gate_or("n"), "slow": gate_or("s"), "nn": gate_or("k", 0.4),
                "sub": {"id": 2, "name": gate_or("sn")}}
        if "kids" in inner:
            k = sk()
            n = rng.randint(1, 3)
            hero["kids"] = SRC(k, items(n), gated=rng.random() < 0.7,
                               raise_at=rng.choice([None, None, rng.randint(0, n - 1)]) if k != "list" else None,
                               name="kids")
        parts.append("hero { id ... @defer(label: \"H\") { %s } }" % inner)
        root["hero"] = gate_or(hero, 0.0) if rng.random() < 0.3 else hero
    if rng.random() < 0.7:
        k = sk()
        n = rng.randint(1, 4)
        wd = rng.random() < 0.3
        sel = "id name" + (" ... @defer { slow }" if wd else "")
        root["items"] = SRC(k, items(n, wd), gated=rng.random() < 0.7,
                            raise_at=rng.choice([None, None, rng.randint(0, n - 1)]) if k != "list" else None,
                            name="items")
        parts.append("items @stream(initialCount: %d) { %s }" % (rng.randint(0, 2), sel))
    if rng.random() < 0.3:
        k = rng.choice(["agen", "aiter"])
        n = rng.randint(1, 3)
        root["gen"] = SRC(k, items(n), gated=True, raise_at=rng.choice([None, None, n - 1]), name="gen")
        parts.append("gen { id name }")
    if rng.random() < 0.35:
        # overlapping fragments sharing a field (often a failing non-null one), each with private work
        shared = rng.choice(["nn", "nn", "a"])
        root.setdefault(shared, G(err="boom") if rng.random() < 0.6 else gate_or("k"))
        root.setdefault("b", gate_or("y", 0.05))
        root.setdefault("a", gate_or("x", 0.05))
        priv = rng.choice(["b", "other { name }", "other { slow ... @defer(label: \"Q\") { name } }"])
        root.setdefault("other", {"name": gate_or("o", 0.05), "slow": gate_or("os", 0.05)})
        parts.append("... @defer(label: \"X\") { %s b } ... @defer(label: \"Y\") { %s %s }" % (shared, shared, priv))
    if not parts:
        parts.append("a")
        root["a"] = G("x")
    op = ""
    if rng.random() < 0.25 and all(k in ("a", "b", "nn", "hero", "items", "gen") for k in root) \
            and "other" not in " ".join(parts):
        op = "mutation "      # serial execution of the root fields
        for extra in ("a", "b"):
            if extra not in parts:
                parts.append(extra)
                root.setdefault(extra, gate_or("x", 0.05))
    return dict(name=f"random-{i}", kind="incr", doc=op + "{ " + " ".join(parts) + " }", root=root)


def random_subscription(rng, i):
    n = rng.randint(1, 3)
    evs = [{"ev": {"id": j, "name": (G(f"n{j}") if rng.random() < 0.5 else f"n{j}"),
                   "nn": (G(err="boom") if rng.random() < 0.2 else "k")}} for j in range(n)]
    ra = rng.choice([None, None, n - 1])
    return dict(name=f"random-sub-{i}", kind="sub", doc="subscription { ev { id name nn } }",
                root={"ev": SRC(rng.choice(["agen", "aiter", "iterable"]), evs, gated=rng.random() < 0.8, raise_at=ra, name="ev")},
                stream_raises=ra is not None)



# --------------------------------------------------------------------------- abort at EVERY loop iteration


def tick_sweep(ck, thorough):
    """The stop points of the main sweep are quiescent points.  Here the abort signal fires after exactly k loop
    iterations (k = 0..), i.e. also in the middle of hand-offs (producer just resumed, __anext__ just issued, item
    being completed), for a streamed list over an async generator / class-based source, lazy and early."""
    import itertools
    from graphql import parse
    from graphql.execution import ExecutionHooks, experimental_execute_incrementally
    from graphql.pyutils import AbortController
    schema = _schema()

    async def one(kind, early, k, n0, hang_at, slow_name):
        st = {"started": 0, "closed": 0, "final": 0, "hook": 0, "exhausted": False}
        never = asyncio.Event()
        me = asyncio.current_task()

        async def name(_i):
            await asyncio.sleep(0)
            await asyncio.sleep(0)
            return "n"

        def mk(i):
            return {"id": i, "name": name if slow_name else "n"}

        async def agen():
            st["started"] += 1
            try:
                for i in range(5):
                    if i == hang_at:
                        await never.wait()
                    await asyncio.sleep(0)
                    yield mk(i)
                st["exhausted"] = True
            finally:
                st["final"] += 1

        class It:
            def __init__(self):
                self.i = 0

            def __aiter__(self):
                return self

            async def __anext__(self):
                st["started"] += 1
                if self.i == hang_at:
                    await never.wait()
                await asyncio.sleep(0)
                self.i += 1
                if self.i > 5:
                    st["exhausted"] = True
                    raise StopAsyncIteration
                return mk(self.i)

            async def aclose(self):
                st["closed"] += 1

        ctrl = AbortController()
        res = experimental_execute_incrementally(
            schema, parse("{ items @stream(initialCount: %d) { id name } }" % n0),
            {"items": (lambda _i: agen()) if kind == "agen" else (lambda _i: It())},
            enable_early_execution=early, abort_signal=ctrl.signal,
            hooks=ExecutionHooks(async_work_finished=lambda _i: st.__setitem__("hook", st["hook"] + 1)))

        async def consume():
            r = res
            if hasattr(r, "__await__"):
                try:
                    r = await r
                except Exception as e:  # noqa: BLE001
                    r = getattr(e, "aborted_result", None)
                    if r is None:
                        return
                    if hasattr(r, "__await__"):
                        r = await r
            sub = getattr(r, "subsequent_results", None)
            if sub is not None:
                async for _ in sub:   # after an abort: the documented protocol (asking raises the reason)
                    pass

        t = asyncio.ensure_future(consume())
        for _ in range(k):
            await asyncio.sleep(0)
        ctrl.abort(RuntimeError("stop"))
        bad = []
        try:
            await asyncio.wait_for(t, BUDGET)
        except asyncio.TimeoutError:
            bad.append("consumer not released")
        except Exception:  # noqa: BLE001
            pass
        await _settle(DRAIN + 20)
        left = [_coro_name(x) for x in asyncio.all_tasks() if x is not me and not x.done()]
        closes = st["final"] if kind == "agen" else st["closed"]
        if st["started"] and not st["exhausted"] and closes != 1:
            bad.append(f"started source closed {closes} times")
        if closes > 1:
            bad.append(f"source closed {closes} times")
        if left and not bad:
            bad.append(f"tasks left pending: {sorted(left)[:3]}")
        if st["hook"] != 1 and not bad:
            bad.append(f"hook fired {st['hook']} times")
        for x in asyncio.all_tasks():
            if x is not me and not x.done():
                x.cancel()
        await _settle(4)
        return bad

    ks = range(0, 40 if thorough else 28)
    combos = list(itertools.product(("agen", "aiter"), (False, True), (0, 1, 2) if thorough else (0, 1),
                                    (1, 3, 9) if thorough else (1, 3), (False, True) if thorough else (False,)))
    n = 0
    for kind, early, n0, hang_at, slow in combos:
        for k in ks:
            loop = asyncio.new_event_loop()
            loop.set_exception_handler(lambda _l, _c: None)
            try:
                with warnings.catch_warnings():
                    warnings.simplefilter("ignore")
                    bad = loop.run_until_complete(asyncio.wait_for(one(kind, early, k, n0, hang_at, slow), 30))
            except Exception as e:  # noqa: BLE001
                bad = [f"driver: {type(e).__name__}"]
            finally:
                try:
                    loop.run_until_complete(loop.shutdown_asyncgens())
                except Exception:  # noqa: BLE001
                    pass
                loop.close()
            n += 1
            ck.note_case(("tick", kind, early, n0, hang_at, slow, k), nontrivial=True)
            if bad:
                ck.violation(f"abort-at-loop-iteration:{kind}|early={int(early)}|initialCount={n0}|hang_at={hang_at}",
                             f"abort signal fired after {k} loop iterations on a streamed list over a {kind} source "
                             f"(early={early}, initialCount={n0}, source hangs at item {hang_at}): {'; '.join(bad)}",
                             {"relation": "leak predicates at a non-quiescent stop point", "kind": kind, "early": early,
                              "initial_count": n0, "hang_at": hang_at, "slow_item_field": slow, "k": k})
    ck.count("abort_at_loop_iteration_runs", n)

# --------------------------------------------------------------------------- the check


def stop_points(out):
    pts = []
    if out.qps and out.qps[0] == "init" and out.stopped is None:
        pts.append({"kind": "abort", "at": -1})     # before the first await of the result
    for i, q in enumerate(out.qps):
        if q == "between":
            pts.append({"kind": "aclose", "at": i})
            if i > 0:
                # ... and after one / two more resolvers have answered while the consumer held the payload
                pts.append({"kind": "aclose", "at": i, "pre": 1})
                pts.append({"kind": "aclose", "at": i, "pre": 2})
                pts.append({"kind": "abort", "at": i, "pre": 1})
        pts.append({"kind": "abort", "at": i})
    return pts


def canon_key(key, cls, scen, out):
    """Canonical keys of the findings made while building the check (stable across scenarios)."""
    if key in (K_UNSTARTED, K_FAIL_HANG):
        return key
    anext_names = {"async_generator_asend", "World.make_source.<locals>.It.__anext__"}
    if cls in ("task-leak", "source-not-closed") and out.leaked and set(out.leaked) <= anext_names:
        return K_ORPHAN
    if scen["kind"] == "incr" and cls in ("task-leak", "source-not-closed", "hook-early", "hook-count") \
            and (any("StreamItemQueue._run" in x for x in (out.leaked or []))
                 or (cls == "source-not-closed" and not out.leaked and out.stopped is not None
                     and out.stopped[0] == "aclose")):
        # a stream (or early started task) carried by the result of a fragment that failed, or by a result that
        # was not integrated into the work queue when the consumer stopped, is not reachable for cancel()
        return K_UNREACHABLE
    if cls == "source-not-closed" and out.stopped is not None and out.stopped[0] == "abort" \
            and any(_cleanup_interrupted(t) for t in (getattr(out, "siq_traces", None) or [])):
        return K_CLEANUP_INTERRUPTED
    if scen["kind"] == "sub" and not scen.get("signal") and cls == "source-not-closed" \
            and any(x["kind"].startswith("iterable") and x["started"] and not x["aclose_calls"] for x in out.sources):
        # map_async_iterable closes the iterable, not the iterator that `async for` obtained from it
        return K_SUB_ITERATOR
    if cls == "source-closed-twice":
        return K_TWICE
    if cls == "source-not-closed" and not out.leaked:
        return K_CANCELLED_LIST
    if cls == "hook-early" and scen["kind"] == "incr":
        return K_HOOK_EARLY
    if out.released == "hang" and cls in ("hang-after-abort", "hook-count", "task-leak", "source-not-closed") \
            and scen["kind"] == "incr" and scen.get("early"):
        return K_ABORT_HANG
    return key


def run(tier):
    ck = Check("C06", tier)
    ck.assumptions += ASSUMPTIONS
    br = common.build("C06", models=("lifecycle",))
    ck.proofs(br)
    m = Model("lifecycle") if br.ok else None
    thorough = tier == "thorough"
    ck.rule = (
        "(R) real requests: hand-written templates (plain async execute, @defer, @stream over async generator / "
        "class-based / sync sources, nested, subscriptions; resolver and source failures) plus requests composed "
        "from building blocks by ck.rng, x early execution {F,T} x abort signal passed {F,T} x schedules "
        "(hand-out order, reverse, hashed) x EVERY quiescent point of the complete run as a stop point "
        "(aclose between results incl. before the first, abort with a reason at every point) plus the complete run; "
        "predicates: caller released within 2 s with result/reason, asyncio.all_tasks empty after draining, every "
        "started source closed exactly once, hook exactly once and not while background/incremental futures pend. "
        "(T) Computation / StreamItemQueue / hook bookkeeping traces recorded from those runs vs the extracted "
        "machines. (D) all event sequences up to a bound on real Computation / StreamItemQueue / "
        "map_async_iterable vs the machines. non-trivial = a run with a stop, a failure or a started source")

    # ---------------- (D) direct drives against the extracted machines
    if m is not None:
        direct_drives(ck, m, thorough)
    else:
        ck.degraded.append("model not built: direct drives and trace acceptance skipped")

    # ---------------- (R)+(T) real runs
    scens = base_scenarios() + extra_scenarios()
    nrand = 120 if thorough else 10
    for i in range(nrand):
        scens.append(random_scenario(ck.rng, i))
    for i in range(20 if thorough else 3):
        scens.append(random_subscription(ck.rng, i))
    seeds = [0, 1, 2, 3] if thorough else [0, 1]
    corpus = [c for c in common.load_corpus("C06") if "scenario" in c]
    todo = []
    for c in corpus:
        todo.append((c["scenario"], c.get("sched_seed", 0), c.get("stop")))
    recorder_ok = True
    comp_cases, comp_meta, q_cases, q_meta, h_cases, h_meta = [], [], [], [], [], []
    nruns = 0

    def one(scen, seed, stop):
        nonlocal nruns, recorder_ok
        rec = None
        if m is not None and recorder_ok:
            rec = Recorder()
            if rec.degraded:
                for d in rec.degraded:
                    if d not in ck.degraded:
                        ck.degraded.append(d)
        try:
            out = run_scenario(scen, seed, stop, rec)
        except asyncio.TimeoutError:
            ck.violation(f"driver-timeout:{scen['name']}:{seed}:{stop}",
                         f"run of {scen['name']} did not finish within 60 s",
                         {"relation": "the run terminates", "scenario": scen, "sched_seed": seed, "stop": stop})
            return None
        nruns += 1
        canon = (scen["name"], scen["doc"], bool(scen.get("early")), bool(scen.get("signal")), seed,
                 json.dumps(stop, sort_keys=True))
        ck.note_case(canon, nontrivial=is_nontrivial(out),
                     sample={"scenario": scen["name"], "doc": scen["doc"], "early": bool(scen.get("early")),
                             "sched_seed": seed, "stop": stop, "payloads": out.payloads,
                             "quiescent_points": out.qps} if nruns % 977 == 1 else None)
        ck.count("runs_" + scen["kind"])
        ck.count("stop_" + ("none" if out.stopped is None else out.stopped[0]))
        if out.stopped is not None:
            ck.count("released_" + str(out.released))
        for key, cls, what in judge(scen, out, stop):
            key = canon_key(key, cls, scen, out)
            ck.violation(key, what, {
                "relation": "leak predicates of C06 on a real run", "scenario": scen, "sched_seed": seed,
                "stop": stop, "impl": {"problems": out.problems, "leaked_tasks": out.leaked,
                                       "leaked_after_resolvers_answered": out.leaked_after_release,
                                       "sources": out.sources, "hooks": out.hooks, "released": out.released,
                                       "payloads": out.payloads, "trace": out.trace}})
        if rec is not None:
            unstarted = out.unstarted_stream_closed and out.initial_kind == "incremental"
            ctx = (scen, seed, stop, unstarted)
            for tr in out.comp_traces:
                comp_cases.append(comp_case(tr))
                comp_meta.append((ctx, tr))
            for tr in out.siq_traces:
                evs = tr["events"]
                if tr.get("item_failed"):
                    # consumer-side cleanup after a failed item future (batches() -> _cleanup, which runs the
                    # abort callback even when the source had finished) is outside the machine's fragment; the
                    # run itself is still judged by the leak predicates
                    ck.count("skipped_out_of_fragment_item_future_failed")
                    continue
                if 7 in evs and any(e in (2, 3, 5, 6) for e in evs[evs.index(7):]):
                    # the producer swallowed its cancellation and went on producing (lazy execution under an
                    # abort signal: with_abort_signal swallows CancelledError); outside the machine's fragment
                    ck.count("skipped_out_of_fragment")
                    continue
                case, nev = queue_case(tr)
                q_cases.append(case)
                q_meta.append((ctx, tr, nev))
            for tid, tr in rec.hook_traces.items():
                h_cases.append([3] + tr)
                h_meta.append((ctx, tr, bool(out.leaked)))
        return out

    for scen, seed, stop in todo:
        one(scen, seed, stop)
    ck.count("corpus_cases", len(todo))
    run_repro_scripts(ck)
    for scen in scens:
        for early in (False, True):
            for signal in ((False, True) if scen["kind"] != "exec" or thorough else (True,)):
                sc = dict(scen, early=early, signal=signal)
                for seed in seeds:
                    out = one(sc, seed, None)
                    if out is None:
                        continue
                    for stop in stop_points(out):
                        if stop["kind"] == "abort" and not signal and not thorough:
                            continue       # quick: abort stops are run once (the signal is created anyway)
                        one(sc, seed, stop)
    ck.count("real_runs", nruns)
    tick_sweep(ck, thorough)
    ck.exhaustive = False

    # ---------------- (T) acceptance of the recorded traces
    if m is not None:
        def tkey(kind, ctx):
            scen, seed, stop, unstarted = ctx
            if unstarted:
                return K_UNSTARTED
            st = "none" if stop is None else f"{stop['kind']}@{stop['at']}"
            return f"trace-rejected:{kind}:{scen['name']}|early={int(bool(scen.get('early')))}:{st}"

        def rep(kind, ctx, tr, mo):
            scen, seed, stop, _ = ctx
            return {"relation": f"recorded {kind} trace accepted by the extracted machine", "scenario": scen,
                    "sched_seed": seed, "stop": stop, "impl": tr, "model": mo}
        outs = m.run_batch(comp_cases)
        for (ctx, tr), mo in zip(comp_meta, outs):
            ck.evaluations += 1
            err = check_comp_trace(tr, mo)
            if err:
                ck.violation(tkey("computation", ctx), f"[{ctx[0]['name']}] Computation trace: {err}",
                             rep("Computation", ctx, tr, mo))
        outs = m.run_batch(q_cases)
        for (ctx, tr, nev), mo in zip(q_meta, outs):
            ck.evaluations += 1
            err = check_queue_trace(tr, mo, nev)
            if err:
                ck.violation(K_CLEANUP_INTERRUPTED if _cleanup_interrupted(tr) and ctx[2] and ctx[2].get("kind") == "abort"
                             else tkey("stream-queue", ctx), f"[{ctx[0]['name']}] StreamItemQueue trace: {err}",
                             rep("StreamItemQueue", ctx, tr, mo))
        outs = m.run_batch(h_cases)
        for (ctx, tr, leaked), mo in zip(h_meta, outs):
            ck.evaluations += 1
            if mo[0] != 1:
                ck.violation(tkey("hook", ctx), f"[{ctx[0]['name']}] hook bookkeeping trace {tr} rejected: {mo}",
                             rep("hook bookkeeping", ctx, tr, mo))
            elif len(mo) == 4 and mo[2] != 0 and not leaked and not ctx[3]:
                ck.violation(tkey("hook", ctx), f"[{ctx[0]['name']}] run_async_work_finished_hook was called but the "
                             f"hook never fired although the loop is quiescent (trace {tr})",
                             rep("hook bookkeeping", ctx, tr, mo))
        ck.count("computation_traces", len(comp_cases))
        ck.count("stream_queue_traces", len(q_cases))
        ck.count("hook_traces", len(h_cases))
    return ck.finish()


REPRO_KEYS = {"F1": K_UNSTARTED, "F3": K_ORPHAN, "F4": K_TWICE, "F5": K_CANCELLED_LIST, "F6": K_HOOK_EARLY, "F7": K_ABORT_HANG, "F8": K_UNREACHABLE, "F9": K_UNREACHABLE, "F10": K_SUB_ITERATOR, "F11": K_UNREACHABLE, "F12": K_UNREACHABLE, "F13": K_UNREACHABLE,
              "F14": K_NO_LOOP}


def run_repro_scripts(ck):
    """Stand-alone minimal scripts of the findings made so far (corpus/C06/repro_F*.py): exit 1 = violation."""
    import os
    import re
    import subprocess
    import sys
    d = common.CORPUS / "C06"
    for path in sorted(d.glob("repro_F*.py")):
        tag = re.match(r"repro_(F\d+)", path.name).group(1)
        env = dict(os.environ, PYTHONPATH=str(common.REPO / "src"), PYTHONHASHSEED="0")
        try:
            p = subprocess.run([sys.executable, str(path)], capture_output=True, text=True, timeout=120, env=env)
            rc, outp = p.returncode, p.stdout
        except subprocess.TimeoutExpired:
            rc, outp = 1, "script did not finish within 120 s (hang)"
        ck.evaluations += 1
        ck.count("repro_scripts")
        if rc != 0:
            lines = [ln for ln in outp.splitlines() if "VIOLATION" in ln or "hang" in ln]
            ck.violation(REPRO_KEYS.get(tag, f"repro:{path.name}"),
                         f"{path.name}: " + (" | ".join(lines)[:400] or f"exit code {rc}"),
                         {"relation": "stand-alone regression script of an earlier finding", "script": str(path),
                          "impl": outp[-1500:]})


def direct_drives(ck, m, thorough):
    # -- Computation
    try:
        from graphql.execution.incremental.computation import Computation
        Computation(lambda: 1)._status  # noqa: B018
    except Exception as e:  # noqa: BLE001
        Computation = None
        ck.degraded.append(f"Computation direct drive skipped: {e!r}")
    if Computation is not None:
        n = 5 if thorough else 4
        cfgs = [(0, 0), (1, 0), (1, 1)]
        cases, meta = [], []
        for has_cb, cb_async in cfgs:
            for evs in sequences(COMP_EVENTS, n):
                cases.append([1, has_cb, cb_async] + list(evs))
                meta.append((has_cb, cb_async, evs))
        outs = m.run_batch(cases)
        with _Quiet() as loop:
            async def all_comp():
                res = []
                for has_cb, cb_async, evs in meta:
                    try:
                        res.append(await drive_computation(Computation, bool(has_cb), bool(cb_async), evs))
                    except Exception as e:  # noqa: BLE001
                        res.append(e)
                return res
            results = loop.run_until_complete(all_comp())
        for (has_cb, cb_async, evs), mo, r in zip(meta, outs, results):
            ck.note_case(("comp", has_cb, cb_async, evs), nontrivial=(7 in evs))
            key = f"computation-direct:{has_cb}{cb_async}:{list(evs)}"
            if isinstance(r, Exception):
                ck.violation(key, f"driving Computation with {list(evs)} raised {r!r}",
                             {"relation": "Computation = machine", "events": list(evs), "config": [has_cb, cb_async]})
                continue
            obs, runs, cb = r
            want = [x for p in obs for x in p] + [runs, cb]
            if want != mo:
                ck.violation(key, f"Computation(on_abort={has_cb}, async={cb_async}) driven with events {list(evs)}: "
                             f"observed (status, return)*, runs, on_abort calls = {want}, machine says {mo}",
                             {"relation": "Computation = machine (status, return kind, runs, on_abort calls)",
                              "events": list(evs), "config": [has_cb, cb_async], "impl": want, "model": mo})
        ck.count("computation_direct_cases", len(cases))
        ck.samples.append({"computation_events": [2, 7, 11, 7, 4], "codes": "1-3 prime(value/awaitable/raise) 4-6 result "
                           "7 abort 8-10 future ok/err/cancelled 11 loop runs the done callback"})

    # -- StreamItemQueue
    try:
        from graphql.execution.incremental import StreamItemQueue, WorkResult

        async def _p(_q):
            return None
        q = StreamItemQueue(_p, None)
        (q._aborted, q._finished, q._producer_task, q._pending_futures)  # noqa: B018
    except Exception as e:  # noqa: BLE001
        StreamItemQueue = None
        ck.degraded.append(f"StreamItemQueue direct drive skipped: {e!r}")
    if StreamItemQueue is not None:
        n = 5 if thorough else 4
        cfgs = [(eg, hc, ca, cap) for eg in (0, 1) for (hc, ca) in ((0, 0), (1, 0), (1, 1)) for cap in (1, 100)]
        cases, meta = [], []
        for eg, hc, ca, cap in cfgs:
            for script in sequences(QUEUE_SCRIPT_EVENTS, n):
                if 1 in script and 2 in script:
                    continue     # a draining consumer next to pending item futures is outside the compared fragment
                es = []
                for e in script:
                    es.append(e)
                    if e != 7:
                        es.append(8)
                cases.append([2, eg, hc, ca, cap] + es)
                meta.append((eg, hc, ca, cap, script, es))
        outs = m.run_batch(cases)
        W = 10
        plans = []
        for (eg, hc, ca, cap, script, es), mo in zip(meta, outs):
            app, i = [], 0
            for e in es:
                if e != 8:
                    app.append(mo[W * i] == 1)
                i += 1
            plans.append(app)
        with _Quiet() as loop:
            async def all_q():
                res = []
                for (eg, hc, ca, cap, script, es), app in zip(meta, plans):
                    try:
                        res.append(await drive_queue(StreamItemQueue, WorkResult, bool(eg), bool(hc), bool(ca), cap,
                                                     script, app))
                    except Exception as e:  # noqa: BLE001
                        res.append(e)
                return res
            results = loop.run_until_complete(all_q())
        for (eg, hc, ca, cap, script, es), mo, app, r in zip(meta, outs, plans, results):
            ck.note_case(("queue", eg, hc, ca, cap, script), nontrivial=(7 in script or 6 in script))
            key = f"stream-queue-direct:{eg}{hc}{ca}:{cap}:{list(script)}"
            repd = {"relation": "StreamItemQueue = machine (abort return kind, _aborted, _finished, producer task, "
                                "pending futures, on_abort calls)", "script": list(script),
                    "config": {"eager": eg, "on_abort": hc, "async_on_abort": ca, "capacity": cap}, "model": mo}
            if isinstance(r, Exception):
                ck.violation(key, f"driving StreamItemQueue with {list(script)} raised {r!r}", repd)
                continue
            obs, final, final_quiet, problem = r
            if problem:
                ck.violation(key, f"StreamItemQueue script {list(script)}: {problem}", repd)
                continue
            # model rows: one per model event (incl. ticks); compare the row after the tick that follows
            # a non-abort event, and the row of the abort itself
            i, bad = 0, None
            for e, a, o in zip(script, app, obs):
                row_i = i if e == 7 else i + 1
                i += 1 if e == 7 else 2
                if not a:
                    continue
                row = mo[W * row_i: W * row_i + W]
                want = [row[1] if e == 7 else 0] + row[2:7]
                if o != want:
                    bad = f"after event {e}: observed [ret, aborted, finished, producer, pending, on_abort calls] = {o}, machine says {want}"
                    break
            if bad is None:
                fin = mo[W * len(es):]
                if final != fin[1:6]:
                    bad = f"final state {final}, machine says {fin[1:6]}"
                elif fin[0] == 1 and not final_quiet:
                    bad = "machine is quiescent, the implementation still has a pending producer / cleanup task"
            if bad:
                repd["impl"] = {"observations": obs, "final": final}
                if final[-1] > 1:
                    key = K_TWICE      # the abort callback (source close) ran more than once
                ck.violation(key, f"StreamItemQueue(eager={eg}, on_abort={hc}, async={ca}, capacity={cap}) "
                             f"script {list(script)}: {bad}", repd)
        ck.count("stream_queue_direct_cases", len(cases))

    # -- map_async_iterable / aclosing
    try:
        from graphql.execution import map_async_iterable
    except Exception as e:  # noqa: BLE001
        map_async_iterable = None
        ck.degraded.append(f"map_async_iterable direct drive skipped: {e!r}")
    if map_async_iterable is not None:
        n = 6 if thorough else 5
        cases, meta = [], []
        for cbr in (False, True):
            for evs in sequences(ACLOSE_EVENTS, n):
                cases.append([4] + list(evs))
                meta.append((cbr, evs))
        outs = m.run_batch(cases)
        with _Quiet() as loop:
            async def all_a():
                return [await drive_aclosing(map_async_iterable, evs, cbr) for cbr, evs in meta]
            results = loop.run_until_complete(all_a())
        for (cbr, evs), mo, obs in zip(meta, outs, results):
            ck.note_case(("aclosing", cbr, evs), nontrivial=bool(evs))
            want = mo[1::2]
            if obs != want:
                ck.violation(f"aclosing-direct:{int(cbr)}:{list(evs)}",
                             f"map_async_iterable driven with {list(evs)} (callback raises: {cbr}): source.aclose() "
                             f"calls after each event {obs}, machine says {want}",
                             {"relation": "aclosing: source close calls", "events": list(evs),
                              "callback_raises": cbr, "impl": obs, "model": want})
        ck.count("aclosing_direct_cases", len(cases))


def replay(path):
    d = json.loads(open(path).read())
    if "scenario" in d:
        out = run_scenario(d["scenario"], d.get("sched_seed", 0), d.get("stop"))
        print("quiescent points:", out.qps)
        print("stopped:", out.stopped, "released:", out.released, "payloads:", out.payloads)
        print("sources:", out.sources)
        print("hook calls:", len(out.hooks), "leaked tasks:", out.leaked)
        vs = judge(d["scenario"], out, d.get("stop"))
        for key, cls, what in vs:
            print("VIOLATION", canon_key(key, cls, d["scenario"], out), what)
        if not vs:
            print("no violation on this input")
        return 1 if vs else 0
    print(json.dumps(d, indent=1)[:4000])
    return 0
