"""C12 - validation is a deterministic, compositional function of document and schema."""
from __future__ import annotations

import json
import time
from dataclasses import fields as dc_fields, replace as dc_replace

from . import common, gen_doc
from .astutil import norm
from .common import Check, Model

ASSUMPTIONS = [
    "C12 model: Valid/Compose.v - validate() as one traversal (Lang/Visit.v) with a parallel composition of abstract "
    "non-editing rule visitors (private state, may SKIP/BREAK) writing to an error sink with a limit; the concrete rules "
    "are abstract in the theorems: that each real rule depends only on its own state, the node and the (pure) context "
    "queries is established by the alone-vs-together runs on the implementation, not proved per rule",
    "an error is observed as (message, AST paths of error.nodes); paths are invariant under reprinting, ignored-character "
    "changes and added descriptions, unlike line/column; message text is compared implementation-vs-implementation only",
    "TypeInfo and the ValidationContext caches are not modelled: covered by the direct checks only",
    "the validation key table is read from graphql.validation.validate.query_document_keys_to_validate at run time "
    "(Gen/Tables.v does not sweep it); the Coq theorem about descriptions is over a mask parameter",
]

BIG = 10 ** 9

SCHEMA_SDL = '''
schema { query: Query mutation: Mutation subscription: Subscription }
directive @onField on FIELD
directive @onQuery on QUERY
directive @onMutation on MUTATION
directive @onSubscription on SUBSCRIPTION
directive @onFragmentDefinition on FRAGMENT_DEFINITION
directive @onFragmentSpread on FRAGMENT_SPREAD
directive @onInlineFragment on INLINE_FRAGMENT
directive @onVariableDefinition on VARIABLE_DEFINITION
directive @rep(n: Int) repeatable on FIELD | QUERY | FRAGMENT_SPREAD
directive @req(must: Int!) on FIELD
directive @defer(if: Boolean! = true, label: String) on FRAGMENT_SPREAD | INLINE_FRAGMENT
directive @stream(if: Boolean! = true, label: String, initialCount: Int = 0) on FIELD
interface Node { id: ID! }
interface I implements Node { id: ID! name(surname: Boolean): String a: Int f(x: Int = 1, y: In): T }
type T implements I & Node {
  id: ID! name(surname: Boolean): String a: Int b: String c: [Int!] f(x: Int = 1, y: In): T g: U on_: E type_: S
  x1: Float _y: Boolean friends(first: Int, after: ID): [T!]! i: I req(r: Int!): Int
}
type User implements Node { id: ID! field1(first: Int, after: ComplexType): User field2: User name: String friend: Friend }
type Friend { foo(size: Int, bar: Boolean, obj: Obj): String id: ID }
type Story { id: ID likers: Likers likeSentence: Text }
type Likers { count: Int }
type Text { text: String }
type LikeResult { story: Story }
union U = T | User | Friend
enum E { A B C }
enum Site { MOBILE DESKTOP }
scalar S
input In { p: Int q: In r: [Int] s: String! = "d" e: E }
input ComplexType { x: Int y: [String] }
input Obj { key: String block: String }
input OneOf @oneOf { a: Int b: String }
input StoryLikeSubscribeInput { story: ID }
type Query {
  node(id: [ID]): Node a: Int b(x: Int, y: In, z: [Int], w: String): String c: [Int]
  t(id: ID, in: In, one: OneOf, e: E = A): T u: U i: I ts(first: Int): [T] user: User f(x: Int = 1, y: In): T
  id: ID name: String unnamed(truthy: Boolean, falsy: Boolean, nullish: Int): Int query: Query
}
type Mutation { like(story: ID): LikeResult a: Int set(in: In!): T }
type Subscription { storyLikeSubscribe(input: StoryLikeSubscribeInput): LikeResult t: T a: Int }
'''

SEEDS = [
    "{ a }",
    "query Q { a b(x: 1, y: {p: 1, s: \"x\"}, z: [1, 2], w: \"s\") c }",
    "query Q($x: Int = 1, $in: In, $b: Boolean!) { b(x: $x, y: $in) t(id: 1) @include(if: $b) { id name(surname: $b) } }",
    "query Q($id: ID) { node(id: [$id]) { id ... on T { a b } ... on User { name } } }",
    "{ t { ...F } } fragment F on T { id a f(x: 2) { ...G } } fragment G on T { b c }",
    "query A { t { id } } query B { t { a } }",
    "mutation M($in: In!) { set(in: $in) { id } like(story: 1) { story { id likers { count } } } }",
    "subscription S($i: StoryLikeSubscribeInput) { storyLikeSubscribe(input: $i) { story { likeSentence { text } } } }",
    "{ u { __typename ... on T { a } ... on User { id } ... on Friend { foo(size: 1, bar: true, obj: {key: \"k\"}) } } }",
    "{ i { id name ... on T { b } } }",
    "{ t(one: {a: 1}) { id } }",
    "query Q($s: String!) { t(one: {b: $s}) { id } }",
    "{ t(e: B, in: {s: \"x\", e: C, q: {s: \"y\", r: [1, 2, 3]}}) { on_ type_ x1 _y } }",
    "{ ts(first: 3) { friends(first: 2, after: \"x\") { id } } }",
    "{ t { a @onField b @rep(n: 1) @rep(n: 2) } }",
    "query Q @onQuery @rep { a }",
    "{ t { ... @include(if: true) { a } ... on T @onInlineFragment { b } ...F @onFragmentSpread } } fragment F on T @onFragmentDefinition { c }",
    "query Q($v: Int @onVariableDefinition) { b(x: $v) }",
    "{ t { ... @defer(label: \"l1\") { a } ...F @defer(label: \"l2\") } } fragment F on T { b }",
    "{ ts { id } t { friends @stream(initialCount: 1, label: \"s\") { id } } }",
    "{ __schema { types { name kind fields { name type { name ofType { name } } } } } __type(name: \"T\") { name } }",
    "{ __typename t { __typename } }",
    "{ x: a y: a t { q: id r: id } }",
    "query Q($a: Int, $b: Int) { t { f(x: $a) { f(x: $b) { id } } } }",
    "query Q($a: Int) { t { ...F } } fragment F on T { f(x: $a) { id } }",
    "{ t { req(r: 1) } unnamed(truthy: true, falsy: false, nullish: null) }",
    "{ user { field2 { field1(first: 10, after: {x: 1, y: [\"a\"]}) { id friend { id } } } } }",
    "{ t { i { ... on T { g { ... on User { name } } } } } }",
    "{ query { query { a } } }",
    "{ f(y: {s: \"a\"}) { id } f2: f { id } }",
    # several errors of different rules in one document, the subscription rule's error last / in the middle
    "query Q { unknown } subscription S { a t { id } }",
    "subscription S { a b: a __typename } query Q { zz }",
    "subscription { ...F a2: a } fragment F on Subscription { a t { zz } }",
    "query Q($u: Int) { zz } subscription S($v: Int) { a t { id } __typename }",
    # type-system definitions inside an executable document (rules that merge document definitions)
    "directive @skip on FIELD directive @cached(ttl: Int!) on FIELD { a }",
    "{ a @skip  x: a @cached  t { id @req } }",
    "directive @req(other: Int!) on FIELD { t { id @req(must: 1) a @req(other: 2) } }",
    "type T { other: Int } { t { other id } }",
    "input In { zz: Int! } { b(y: {zz: 1}) t(in: {s: \"x\"}) { id } }",
    "enum E { Z } { t(e: Z) { id } u: t(e: A) { id } }",
    "scalar S2 extend type Query { extra: S2 } { extra }",
    "directive @onField(n: Int!) on FIELD { a @onField }",
]

NAME_POOL = ["a", "b", "c", "id", "name", "f", "g", "t", "u", "i", "T", "U", "I", "E", "S", "In", "User", "Friend", "Node",
             "Query", "x", "y", "z", "p", "q", "r", "s", "e", "F", "G", "Q", "first", "after", "include", "skip", "if",
             "onField", "rep", "defer", "stream", "label", "deprecated", "Int", "String", "Boolean", "ID", "Float",
             "zz", "friends", "ts", "node", "req", "must", "one", "in", "A", "B"]


# --------------------------------------------------------------------------- helpers


def node_paths(doc):
    """id(node) -> path (tuple of keys/indices) for every AST node below doc."""
    from graphql.language import Node
    out = {}

    def walk(n, path):
        out[id(n)] = path
        for f in dc_fields(n):
            if f.name == "loc":
                continue
            v = getattr(n, f.name)
            if isinstance(v, Node):
                walk(v, path + (f.name,))
            elif isinstance(v, (tuple, list)):
                for i, c in enumerate(v):
                    if isinstance(c, Node):
                        walk(c, path + (f.name, i))
    walk(doc, ())
    return out


def observe(errors, paths):
    """list of (message, node paths, is abort notice)."""
    from graphql.validation.validate import ValidationAbortedError
    out = []
    for e in errors:
        ns = tuple(paths.get(id(n), ("?",)) for n in (e.nodes or ()))
        out.append((e.message, ns, isinstance(e, ValidationAbortedError)))
    return out


def all_locs(doc):
    from graphql.language import Node
    out = []

    def walk(n):
        out.append((n.loc.start, n.loc.end) if n.loc else None)
        for f in dc_fields(n):
            if f.name == "loc":
                continue
            v = getattr(n, f.name)
            if isinstance(v, Node):
                walk(v)
            elif isinstance(v, (tuple, list)):
                for c in v:
                    if isinstance(c, Node):
                        walk(c)
    walk(doc)
    return out


def lexemes(text):
    from graphql.language import Lexer, Source, TokenKind
    lx = Lexer(Source(text))
    out = []
    while True:
        t = lx.advance()
        if t.kind == TokenKind.EOF:
            break
        out.append((t.kind, text[t.start:t.end]))
    return out


def mutate(rng, text, n=1):
    """Token-level near-valid mutant; None if it does not lex."""
    from graphql.language import TokenKind
    try:
        toks = lexemes(text)
    except Exception:  # noqa: BLE001
        return None
    if not toks:
        return None
    toks = [list(t) for t in toks]
    for _ in range(n):
        op = rng.choice(["rename", "rename", "rename", "delete", "dup", "directive", "literal", "swapvar", "dupsel"])
        i = rng.randrange(len(toks))
        names = [j for j, t in enumerate(toks) if t[0] == TokenKind.NAME]
        if op == "rename" and names:
            j = rng.choice(names)
            pool = [toks[k][1] for k in names] + NAME_POOL
            toks[j][1] = rng.choice(pool)
        elif op == "delete":
            del toks[i]
            if not toks:
                return None
        elif op == "dup":
            toks.insert(i, list(toks[i]))
        elif op == "dupsel" and names:
            j = rng.choice(names)
            toks[j:j] = [list(toks[j])]
        elif op == "directive" and names:
            j = rng.choice(names)
            d = rng.choice(["@include(if: $zz)", "@skip(if: true)", "@onField", "@rep", "@unknown", "@defer", "@stream",
                            "@include(if: true) @include(if: false)", "@req"])
            toks[j + 1:j + 1] = [[None, d]]
        elif op == "literal":
            lits = [j for j, t in enumerate(toks) if t[0] in (TokenKind.INT, TokenKind.STRING, TokenKind.FLOAT)]
            if lits:
                toks[rng.choice(lits)][1] = rng.choice(['"s"', "1", "1.5", "true", "null", "$zz", "[1]", "{p: 1}", "A", "{}"])
        elif op == "swapvar" and names:
            dl = [j for j, t in enumerate(toks) if t[0] == TokenKind.DOLLAR]
            if dl:
                j = rng.choice(dl)
                if j + 1 < len(toks):
                    toks[j + 1][1] = rng.choice(["x", "a", "b", "in", "zz", "v"])
    return " ".join(t[1] for t in toks)


def add_descriptions(doc, rng):
    """AST copy with descriptions added on operations (non-shorthand), fragments and variable definitions."""
    from graphql.language import (FragmentDefinitionNode, OperationDefinitionNode, StringValueNode)
    added = 0
    defs = []
    for d in doc.definitions:
        if isinstance(d, (OperationDefinitionNode, FragmentDefinitionNode)):
            kw = {}
            shorthand = (isinstance(d, OperationDefinitionNode) and d.name is None and not d.variable_definitions
                         and not d.directives and d.operation.value == "query")
            vds = getattr(d, "variable_definitions", None)
            if vds:
                nv = []
                for v in vds:
                    if rng.random() < 0.6 and getattr(v, "description", None) is None:
                        v = dc_replace(v, description=StringValueNode(value=rng.choice(["d", "$x { a }", "line1\nline2"]),
                                                                      block=rng.random() < 0.5))
                        added += 1
                    nv.append(v)
                kw["variable_definitions"] = tuple(nv)
            if not shorthand and rng.random() < 0.8 and getattr(d, "description", None) is None:
                kw["description"] = StringValueNode(value=rng.choice(["desc", "{ zz }", "fragment X on Y { z }", "a\n  b"]),
                                                    block=rng.random() < 0.5)
                added += 1
            if kw:
                d = dc_replace(d, **kw)
        defs.append(d)
    return dc_replace(doc, definitions=tuple(defs)), added


def msgs(obs):
    return sorted((m, p) for m, p, _ in obs)


class Impl:
    def __init__(self, schema):
        from graphql.validation import specified_rules
        self.schema = schema
        self.rules = list(specified_rules)

    def validate(self, doc, rules=None, max_errors=BIG):
        from graphql import validate
        return validate(self.schema, doc, self.rules if rules is None else rules, max_errors=max_errors)


def check_document(ck, impl, text, doc, rng, light=False):
    """All direct predicates on one document. Returns the unlimited observation or None."""
    from graphql import parse, print_ast, strip_ignored_characters
    rep = {"document": text[:2000], "schema": "C12 fixed schema (harness/c12.py SCHEMA_SDL)" if impl.sdl is None else impl.sdl}
    key = lambda k: f"{k}:{text!r}"  # noqa: E731
    paths = node_paths(doc)
    snap = (norm(doc), all_locs(doc))
    try:
        full_e = impl.validate(doc)
    except Exception as e:  # noqa: BLE001
        ck.count("validate_raised")
        ck.extra.setdefault("validate_raised_samples", []).append((text[:200], repr(e)[:200]))
        return None
    full = observe(full_e, paths)
    # (d) twice, same objects
    again = observe(impl.validate(doc), paths)
    if again != full:
        ck.violation(key("twice"), f"validating the same document twice gives different answers on {text!r}",
                     dict(rep, relation="validate twice", first=full[:5], second=again[:5]))
    # (a) every rule alone; union
    alone = {}
    for r in impl.rules:
        try:
            alone[r] = observe(impl.validate(doc, [r]), paths)
        except Exception as e:  # noqa: BLE001
            ck.violation(key("alone-raises"), f"rule {r.__name__} alone raised {type(e).__name__} but the full set did not: {text!r}",
                         dict(rep, relation="alone vs together", rule=r.__name__))
            alone[r] = []
    union = sorted(x for r in impl.rules for x in msgs(alone[r]))
    if union != msgs(full):
        a, b = msgs(full), union
        only_t = [x for x in a if x not in b][:3]
        only_a = [x for x in b if x not in a][:3]
        ck.violation(key("union"), f"rules together report a different multiset of errors than the rules alone on {text!r}: "
                     f"only together {only_t}, only alone {only_a}",
                     dict(rep, relation="together = union of alone", only_together=only_t, only_alone=only_a))
    reporting = sum(1 for r in impl.rules if alone[r])
    ck.count(f"rules_reporting_{min(reporting, 4)}{'+' if reporting >= 4 else ''}")
    # random subsets and orderings
    for _ in range(1 if light else 3):
        sub = rng.sample(impl.rules, rng.randint(2, len(impl.rules)))
        got = msgs(observe(impl.validate(doc, sub), paths))
        want = sorted(x for r in sub for x in msgs(alone[r]))
        if got != want:
            ck.violation(key("subset"), f"a subset/ordering of rules reports a different multiset than its rules alone on {text!r}",
                         dict(rep, relation="subset = union of alone", rules=[r.__name__ for r in sub]))
    # (b) max_errors
    sweep = sorted({0, 1, 2, 5, *range(0, min(len(full), 14) + 1)}) if not light else sorted({1, max(len(full) - 1, 0)})
    for n in [*sweep, None]:
        lim = observe(impl.validate(doc, max_errors=n), paths)
        eff = 100 if n is None else n
        if len(full) <= eff:
            ok = lim == full
        else:
            ok = len(lim) == eff + 1 and lim[-1][2] and lim[:eff] == full[:eff] and not any(x[2] for x in lim[:eff])
        if not ok:
            ck.violation(key(f"limit{n}"), f"max_errors={n}: expected the unlimited list ({len(full)} errors) cut to {eff} "
                         f"plus the abort notice, got {len(lim)} errors on {text!r}",
                         dict(rep, relation="max_errors prefix", n=n, unlimited=len(full), limited=[x[0] for x in lim][:8]))
    # (c) metamorphic variants
    variants = []
    try:
        variants.append(("print_ast", print_ast(doc)))
    except Exception:  # noqa: BLE001
        pass
    if not light:
        try:
            lx = [t[1] for t in lexemes(text)]
            variants.append(("ignored characters", gen_doc.join_random(lx, rng)))
            variants.append(("strip_ignored_characters", strip_ignored_characters(text)))
        except Exception:  # noqa: BLE001
            pass
    for what, vt in variants:
        try:
            vd = parse(vt)
        except Exception as e:  # noqa: BLE001
            ck.count("variant_unparseable")  # C08/C09 territory
            continue
        if norm(vd) != snap[0] and what != "print_ast":
            ck.count("variant_changed_ast")
            continue
        vo = observe(impl.validate(vd), node_paths(vd))
        if msgs(vo) != msgs(full):
            ck.violation(key("meta-" + what), f"validation answer changes under {what} on {text!r}",
                         dict(rep, relation="invariance under " + what, variant=vt[:1000],
                              before=[x[0] for x in full][:5], after=[x[0] for x in vo][:5]))
        elif vo != full:
            ck.count("variant_order_differs")
    dd, added = add_descriptions(doc, rng)
    if added:
        do = observe(impl.validate(dd), node_paths(dd))
        if msgs(do) != msgs(full):
            ck.violation(key("meta-descriptions"), f"validation answer changes when descriptions are added on {text!r}",
                         dict(rep, relation="invariance under added descriptions",
                              before=[x[0] for x in full][:5], after=[x[0] for x in do][:5]))
        ck.count("description_variants")
    # location-free AST: same document, answer must be the same function of it
    try:
        nd = parse(text, no_location=True)
        no = [m for m, _, _ in observe(impl.validate(nd), {})]
        if sorted(no) != sorted(m for m, _, _ in full):
            ck.violation(key("noloc"), f"the location-free AST of {text!r} validates differently",
                         dict(rep, relation="same answer on the location-free AST",
                              located=sorted(m for m, _, _ in full)[:6], location_free=sorted(no)[:6]))
        ck.count("location_free_variants")
    except Exception as e:  # noqa: BLE001
        ck.violation(key("noloc-raises"), f"validating the location-free AST raised {type(e).__name__} on {text!r}", rep)
    # (d) no mutation of the document
    if (norm(doc), all_locs(doc)) != snap:
        ck.violation(key("mutated-doc"), f"validate() modified the document {text!r}", dict(rep, relation="document unchanged"))
    ck.note_case(text, nontrivial=bool(full))
    return full


def check_keys_table(ck):
    """descriptions are excluded from the validation key table, everything else is kept."""
    from graphql.language.ast import QUERY_DOCUMENT_KEYS
    try:
        from graphql.validation.validate import query_document_keys_to_validate as vk
    except Exception as e:  # noqa: BLE001
        ck.degraded.append(f"query_document_keys_to_validate not importable: {e!r}")
        return
    for kind, keys in QUERY_DOCUMENT_KEYS.items():
        want = tuple(k for k in keys if k != "description")
        if tuple(vk.get(kind, ())) != want:
            ck.violation(f"keys:{kind}", f"validation key table for {kind} is {vk.get(kind)!r}, expected {want!r}",
                         {"relation": "validation keys = document keys minus description"})
    ck.count("key_table_kinds", len(QUERY_DOCUMENT_KEYS))


def check_descriptions_not_visited(ck, impl, docs):
    """A spy rule must never be called on a node inside a description."""
    from graphql.validation import ValidationRule
    seen = []

    class Spy(ValidationRule):
        def enter(self, node, key, parent, path, ancestors):
            if "description" in path:
                seen.append((node.kind, tuple(path)))

    for text, doc in docs:
        del seen[:]
        impl.validate(doc, [Spy])
        if seen:
            ck.violation(f"desc-visited:{text!r}", f"a rule visitor was called inside a description: {seen[:2]} on {text!r}",
                         {"relation": "descriptions are not traversed", "document": text[:1000]})
        ck.count("spy_runs")


def check_sdl_rules(ck, rng, quick, deadline):
    """validate_sdl: every SDL rule alone vs all together, twice, document unchanged."""
    from graphql import parse
    try:
        from graphql.validation.specified_rules import specified_sdl_rules
        from graphql.validation.validate import validate_sdl
    except Exception as e:  # noqa: BLE001
        ck.degraded.append(f"validate_sdl/specified_sdl_rules not importable: {e!r}")
        return
    sdl_fixture = gen_doc.fixtures()[1]
    texts = [sdl_fixture, "type Query { a: Int }", "type Query { a: Int } extend type Query { b: Int } type Query { c: Int }",
             "schema { query: Q } schema { query: Q } type Q { a(x: Int, x: Int): Int a: Int } enum E { A A } directive @d on FIELD directive @d on FIELD"]
    for i in range(60 if quick else 1200):
        base = sdl_fixture if i % 4 == 0 else rng.choice(texts[1:])
        mt = mutate(rng, base, rng.randint(1, 3))
        if mt:
            texts.append(mt)
    for i in range(60 if quick else 1200):
        g = gen_doc.Gen(rng, depth=2, experimental=False)
        try:
            texts.append(gen_doc.join_min(g.document("sdl")))
        except Exception:  # noqa: BLE001
            pass
    for text in texts:
        if time.time() > deadline:
            ck.count("stopped_on_time_budget")
            break
        try:
            doc = parse(text)
        except Exception:  # noqa: BLE001
            ck.count("skipped_unparseable")
            continue
        paths = node_paths(doc)
        snap = norm(doc)
        try:
            full = observe(validate_sdl(doc), paths)
        except Exception:  # noqa: BLE001
            ck.count("validate_sdl_raised")
            continue
        rep = {"document": text[:2000], "relation": "validate_sdl: together = union of alone"}
        again = observe(validate_sdl(doc), paths)
        if again != full:
            ck.violation(f"sdl-twice:{text!r}", f"validate_sdl twice gives different answers on {text!r}", rep)
        union = []
        for r in specified_sdl_rules:
            try:
                union += msgs(observe(validate_sdl(doc, None, [r]), paths))
            except Exception as e:  # noqa: BLE001
                ck.violation(f"sdl-alone-raises:{text!r}", f"SDL rule {r.__name__} alone raised {type(e).__name__} on {text!r}", rep)
        if sorted(union) != msgs(full):
            ck.violation(f"sdl-union:{text!r}", f"SDL rules together report a different multiset of errors than alone on {text!r}", rep)
        if norm(doc) != snap:
            ck.violation(f"sdl-mutated:{text!r}", f"validate_sdl modified the document {text!r}", rep)
        ck.count("documents_sdl")
        ck.note_case(("sdl", text), nontrivial=bool(full))


# --------------------------------------------------------------------------- scripted rules vs the model


def scripted_rule_runs(ck, m, impl, docs, rng, quick):
    """Real validate() with scripted rule visitors (idle/skip/break + errors per call) and a limit,
    against the extracted Compose model."""
    from graphql import GraphQLError
    from graphql.language import BREAK, SKIP
    from graphql.validation import ValidationRule
    from graphql.validation.validate import ValidationAbortedError, query_document_keys_to_validate as vkeys
    from . import c11
    kc, _ = c11.kinds_table()
    cases, meta = [], []
    for text, doc in docs:
        ids = c11.Ids()
        tree = c11.to_tree(doc, ids, kc, vkeys)
        nodes = c11.all_nodes(doc, vkeys, [])
        for _ in range(2 if quick else 4):
            nrules = rng.randint(1, 4)
            scripts = []
            for _r in range(nrules):
                sc = {}
                for _k in range(max(1, int(len(nodes) * rng.choice([0.05, 0.2, 0.5])))):
                    n = rng.choice(nodes)
                    sc[(ids.of(n), rng.randint(0, 1))] = (rng.choice([0, 0, 0, 1, 2]), rng.choice([0, 1, 1, 2, 3]))
                scripts.append(sc)
            limit = rng.choice([0, 1, 2, 5, 50])
            enc = [1, c11.FUEL, limit] + tree + [nrules]
            for sc in scripts:
                enc.append(len(sc))
                for (nid, ph), (act, nerr) in sc.items():
                    enc += [nid, ph, act, nerr]
            cases.append(enc)
            meta.append((text, doc, ids, scripts, limit))
    outs = m.run_batch(cases) if cases else []
    for (text, doc, ids, scripts, limit), out in zip(meta, outs):
        def mk(ri, sc):
            def handler(ph):
                def fn(self, node, *_a):
                    act, nerr = sc.get((ids.of(node), ph), (0, 0))
                    for j in range(nerr):
                        self.report_error(GraphQLError(f"{ri}:{ids.of(node)}:{ph}:{j}", node))
                    return [None, SKIP, BREAK][act]
                return fn
            return type(f"Scripted{ri}", (ValidationRule,), {"enter": handler(0), "leave": handler(1)})
        rules = [mk(i, sc) for i, sc in enumerate(scripts)]
        try:
            errs = impl.validate(doc, rules, max_errors=limit)
            got = []
            for e in errs:
                if isinstance(e, ValidationAbortedError):
                    got += [9, 0, 0, 0]
                else:
                    ri, nid, ph, j = map(int, e.message.split(":"))
                    got += [ri, nid, ph, j]
        except Exception as e:  # noqa: BLE001
            got = ["raised", type(e).__name__, str(e)[:80]]
        hit = any(any(a for a, _ in sc.values()) for sc in scripts)
        ck.note_case(("scripted", text, repr(scripts), limit), nontrivial=hit)
        ck.count("scripted_rule_runs")
        if out[0] != 0:
            raise RuntimeError(f"model could not decode/ran out of fuel: {out[:5]} on {text!r}")
        if got != out[2:]:
            ck.violation(f"compose:{text!r}:{scripts!r}:{limit}",
                         f"validate() with scripted rules (limit {limit}) returns a different error list than the model on {text!r}",
                         {"relation": "validate = Compose.validate", "document": text[:1000],
                          "scripts": [[list(k) + list(v) for k, v in sc.items()] for sc in scripts], "limit": limit,
                          "impl": got[:40], "model": out[2:42]})


# --------------------------------------------------------------------------- the check


def run(tier):
    from graphql import build_schema, parse, print_schema

    ck = Check("C12", tier)
    ck.assumptions += ASSUMPTIONS
    br = common.build("C12", models=("compose", "rules", "rules13"),
                      extra_targets=("theories/Properties/C12rules.vo", "theories/Properties/C12dirs.vo",
                                     "theories/Properties/C12stream.vo", "theories/Properties/C12root.vo",
                                     "theories/Properties/C12validops.vo"))
    ck.proofs(br, extra_files=("C12rules", "C12dirs", "C12stream", "C12root", "C12validops"))
    if not br.ok:
        return ck.finish()
    m = Model("compose")
    quick = tier == "quick"
    rng = ck.rng
    t0 = time.time()
    budget = 85 if quick else 1000
    schema = build_schema(SCHEMA_SDL)
    impl = Impl(schema)
    impl.sdl = None
    schema_snap = print_schema(schema)
    ck.rule = ("documents: 30 valid seeds over a fixed rich schema (objects, interfaces, unions, enums, input objects incl. oneOf, "
               "custom/repeatable directives, defer/stream, three root types), the kitchen-sink fixture, 1-3 step token mutants "
               "of both (rename/delete/duplicate a token, insert a directive, change a literal, change a variable), grammar-random "
               "documents from gen_doc (executable and mixed with SDL), type-directed documents with fragments over generated "
               "schemas (from the C14 generator). Per document on the implementation: every specified rule alone vs all together "
               "(multiset of (message, AST node paths)), random subsets/orderings, max_errors in {0,1,2,5,None}, reprint / "
               "ignored characters / strip_ignored_characters / added descriptions / location-free AST, twice, snapshots of "
               "document and schema; validate_sdl on the SDL kitchen sink, its mutants and grammar-random SDL (alone vs together). "
               "Scripted rule visitors (idle/skip/break, 0-3 errors per call, limit) through the real "
               "validate() vs the extracted Compose model. non-trivial = document with at least one validation error; scripted "
               "run with at least one SKIP or BREAK")
    check_keys_table(ck)
    docs = []  # (text, source kind)
    for sd in SEEDS:
        docs.append((sd, "seed"))
    ks = gen_doc.fixtures()[0]
    docs.append((ks, "kitchen_sink"))
    nmut = 500 if quick else 6000
    for i in range(nmut):
        base = ks if i % 8 == 0 else rng.choice(SEEDS)
        mt = mutate(rng, base, rng.randint(1, 3))
        if mt:
            docs.append((mt, "mutant"))
    for i in range(150 if quick else 2500):
        g = gen_doc.Gen(rng, depth=2, experimental=False)
        try:
            docs.append((gen_doc.join_min(g.document("exec" if i % 3 else "mixed")), "grammar_random"))
        except Exception:  # noqa: BLE001
            ck.count("generator_failed")
    parsed_for_model = []
    nseed_invalid = 0
    for idx, (text, kind) in enumerate(docs):
        if time.time() - t0 > budget * 0.6:
            ck.count("stopped_on_time_budget")
            break
        try:
            doc = parse(text)
        except Exception:  # noqa: BLE001
            ck.count("skipped_unparseable")
            continue
        ck.count("documents_" + kind)
        full = check_document(ck, impl, text, doc, rng, light=(len(text) > 1500))
        if kind == "seed" and full:
            nseed_invalid += 1
            ck.extra.setdefault("invalid_seeds", []).append((text, full[0][0]))
        if len(parsed_for_model) < (60 if quick else 600) and len(text) < 600:
            parsed_for_model.append((text, doc))
        if idx % 50 == 49 and print_schema(schema) != schema_snap:
            ck.violation("schema-mutated", "validate() modified the schema", {"relation": "schema unchanged"})
            schema_snap = print_schema(schema)
    if print_schema(schema) != schema_snap:
        ck.violation("schema-mutated", "validate() modified the schema", {"relation": "schema unchanged"})
    # history independence: after everything above was validated against `schema`, the answer for a document must
    # still be the one a freshly built schema object gives (no state carried in the schema / rule modules)
    hist = [(t, d) for (t, d) in parsed_for_model if any(k in t for k in ("directive @", "type ", "input ", "enum ", "scalar "))]
    hist += rng.sample(parsed_for_model, min(len(parsed_for_model), 25 if quick else 120))
    for order in range(2):
        rng.shuffle(hist)
        for text, doc in hist:
            try:
                used = msgs(observe(impl.validate(doc), node_paths(doc)))
                fresh_impl = Impl(build_schema(SCHEMA_SDL))
                fresh = msgs(observe(fresh_impl.validate(doc), node_paths(doc)))
            except Exception:  # noqa: BLE001
                ck.count("history_validate_raised")
                continue
            ck.evaluations += 1
            if used != fresh:
                ck.violation(f"history:{text!r}",
                             f"validate() of {text!r} on a schema object that has served earlier validations differs "
                             f"from the answer on a freshly built schema: only used {[x for x in used if x not in fresh][:3]}, "
                             f"only fresh {[x for x in fresh if x not in used][:3]}",
                             {"relation": "validate is independent of earlier validations", "document": text,
                              "schema": "C12 fixed schema (harness/c12.py SCHEMA_SDL)"})
    ck.count("history_checks", 2 * len(hist))
    # type-directed documents with fragments over generated schemas
    from . import c14
    nschemas = 10 if quick else 150
    for _ in range(nschemas):
        if time.time() - t0 > budget * 0.8:
            ck.count("stopped_on_time_budget")
            break
        try:
            info = c14.gen_schema(rng)
        except Exception:  # noqa: BLE001
            continue
        impl2 = Impl(info.schema)
        impl2.sdl = info.sdl
        snap2 = print_schema(info.schema)
        for j in range(12):
            g = c14.DocGen(rng, info, rng.choice([0, 1, 2, 3]), mutate=0.02)
            text = g.document(rng.randint(1, 2))
            if j % 2 == 0:
                text = text.replace("query Q0 ", "query Q0($v: Int, $w: Int, $c: Boolean!) ", 1)
            try:
                doc = parse(text)
            except Exception:  # noqa: BLE001
                continue
            ck.count("documents_type_directed")
            check_document(ck, impl2, text, doc, rng, light=True)
        if print_schema(info.schema) != snap2:
            ck.violation("schema-mutated:" + info.sdl, "validate() modified a generated schema", {"relation": "schema unchanged", "schema": info.sdl})
    # descriptions are never visited
    desc_docs = []
    for text, doc in parsed_for_model[:40]:
        dd, added = add_descriptions(doc, rng)
        if added:
            desc_docs.append((text, dd))
    desc_docs.append((ks, parse(ks)))
    check_descriptions_not_visited(ck, impl, desc_docs)
    # scripted rules vs the model
    scripted_rule_runs(ck, m, impl, parsed_for_model, rng, quick)
    check_sdl_rules(ck, rng, quick, t0 + budget)
    ck.samples.append({"document": SEEDS[2], "checks": "alone/together, subsets, max_errors, metamorphic variants, twice, snapshots"})
    if br.ok:
        # twelve concrete schema-independent rules: extracted model vs the real rules alone and inside validate()
        from . import crules
        rule0 = ck.rule
        ck.assumptions += crules.ASSUMPTIONS
        crules.core(ck, tier, True, budget_s=20 if quick else 200)
        ck.extra["rules_rule"] = ck.rule
        from . import crulesdir
        ck.assumptions += crulesdir.ASSUMPTIONS
        crulesdir.core(ck, tier, True, budget_s=15 if quick else 200)
        ck.extra["rulesdir_rule"] = ck.rule
        # StreamDirectiveOnListField (needs TypeInfo): extracted Valid/RulesStream.v vs the real rule alone / together
        from . import crules13
        crules13.core_stream(ck, tier, True, budget_s=10 if quick else 150)
        ck.rule = rule0 + " (concrete rules) see coverage.rules_rule, coverage.rulesdir_rule and coverage.stream_rule"
    return ck.finish()


def replay(path):
    """Re-evaluate the direct predicates on the document of a replay file."""
    import random
    from graphql import build_schema, parse
    d = json.loads(open(path).read())
    print(json.dumps({k: d[k] for k in d if k != "proof_breaks"}, indent=1)[:3000])
    if d.get("kind") == "stream":
        from . import crules13
        return crules13.replay_stream(d)
    if "document" not in d:
        return 0
    sdl = d.get("schema", "")
    fixed = not sdl or sdl.startswith("C12 fixed schema")
    impl = Impl(build_schema(SCHEMA_SDL if fixed else sdl))
    impl.sdl = None if fixed else sdl
    ck = Check("C12", "replay")
    try:
        doc = parse(d["document"])
    except Exception as e:  # noqa: BLE001
        print("document does not parse:", e)
        return 0
    check_document(ck, impl, d["document"], doc, random.Random(d.get("seed", 0)))
    for key, what, _ in ck.violations:
        print("STILL FAILS:", what[:300])
    if not ck.violations:
        print("all direct predicates hold on this document now")
    return 1 if ck.violations else 0
