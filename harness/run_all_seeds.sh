#!/bin/sh
# Runs every kept seeded change against the quick check of its property; records the outcome in meta.json.
cd /verif || exit 2
for d in seeded/${1:-}*/; do
  name=$(basename "$d"); pid=$(echo "$name" | cut -d- -f1)
  [ -f "$d/patch.diff" ] || continue
  out=$(harness/seeded_run.sh "/verif/$d/patch.diff" "$pid" quick 2>/dev/null | tail -2 | tr '\n' ' ')
  echo "$name: $out"
  python3 - "$d" "$pid" "$out" <<'PY'
import json, sys, os
d, pid, out = sys.argv[1:4]
p = os.path.join(d, "meta.json")
m = json.load(open(p)) if os.path.exists(p) else {"property": pid}
m.setdefault("property", pid)
m["check_result"] = {"command": f"harness/seeded_run.sh {d}patch.diff {pid} quick", "output_tail": out,
                     "detected": "exit=1" in out}
json.dump(m, open(p, "w"), indent=1)
PY
done
