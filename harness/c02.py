"""C02 - execution computes exactly what the specification's algorithm computes."""
from __future__ import annotations

import json
import time

from . import common, gen_exec as G
from .common import Check, Model

ASSUMPTIONS = [
    "C02 model: Exec/Spec.v `execute` is a hand-written reading of spec section 6 (CollectFields, "
    "ExecuteSelectionSet, ExecuteField, CoerceArgumentValues, CompleteValue, error propagation); choices the "
    "spec leaves open follow /repo: siblings after a propagated error are not executed, error path = raise point",
    "fragment: objects/interfaces/unions/enums/specified scalars, list/non-null, arguments and variables of "
    "leaf/list/input-object (incl. OneOf) types with defaults at every level, @skip/@include, custom directives "
    "(ignored), fragments, aliases, __typename, query and mutation roots, operation selection by name, synchronous "
    "default-like resolvers over dict/list data; leaves are well-typed for their position or a value no leaf type "
    "accepts (lenient scalar serialisation is C16's subject); outside: custom scalars, middleware, fragment "
    "arguments, out_name/out_type, is_type_of/resolve_type, @defer/@stream, subscriptions, async",
    "a null/absent variable reaching the `if` of @skip/@include (allowed by a default) is skipped and counted: "
    "the spec text and /repo (error) differ there and the property does not fix it",
    "error list compared as a multiset of paths; messages, locations and order are not compared",
    "float literals are parsed by CPython float() in the harness and cross the wire as exact ratios",
]


def build_case(ck, rng, gs, schema, wschema, max_depth, p_bad, all_nonnull=False, keep_rejected=False):
    """One generated request on the schema, or None (rejected / out of fragment), counted."""
    from graphql import parse, validate
    from graphql.execution.values import get_variable_values
    from graphql.language import ast as A, visit, Visitor

    dg = G.DocGen(rng, gs, max_depth=max_depth)
    text = dg.document()
    try:
        doc = parse(text)
    except Exception as e:  # noqa: BLE001
        ck.count("generator_syntax_error")
        ck.extra.setdefault("generator_errors", []).append(f"{e!r}: {text}"[:300])
        return None
    errs = validate(schema, doc)
    if errs:
        ck.count("rejected_by_validate")
        if not keep_rejected:
            return None
    variables = dg.variables()
    op = next(d for d in doc.definitions if isinstance(d, A.OperationDefinitionNode)
              and (dg.operation_name is None or d.name.value == dg.operation_name))
    root = "Mutation" if op.operation.value == "mutation" else "Query"
    dgen = G.DataGen(rng, gs, dg.used_fields, p_bad=p_bad, all_nonnull=all_nonnull)
    data = dgen.obj(root, max_depth + 1)
    data.pop("__typename", None)
    # classification: null/absent variable in a directive condition
    coerced = get_variable_values(schema, op.variable_definitions or (), variables)
    if not isinstance(coerced, list):
        bad = []

        class V(Visitor):
            def enter_directive(self, node, *_):
                if node.name.value in ("skip", "include"):
                    for a in node.arguments or ():
                        if isinstance(a.value, A.VariableNode) and coerced.coerced.get(a.value.name.value) is None:
                            bad.append(a.value.name.value)
        visit(doc, V())
        if bad:
            ck.count("skipped_out_of_fragment")
            ck.count("skipped_null_directive_condition")
            return None
    try:
        wire = [1] + G.flatten(G.W(100, [], [wschema, G.enc_doc(doc, dg.operation_name), G.enc_vars(variables),
                                             G.enc_data(data)]))
    except G.OutOfFragment as e:
        ck.count("skipped_out_of_fragment")
        ck.count("skipped:" + str(e))
        return None
    if len(wire) > 150000:
        ck.count("skipped_too_large_for_the_wire")
        return None
    return {"text": text, "doc": doc, "variables": variables, "data": data, "wire": wire,
            "operation_name": dg.operation_name,
            "features": sorted(dg.features), "injected": dgen.injected, "valid": not errs, "dg": dg}


def compare(impl, model):
    """List of (what, impl, model) disagreements on the observables C02 fixes."""
    if model["kind"] in ("bad-wire", "out-of-fuel"):
        return [("model-" + model["kind"], None, None)]
    if impl["kind"] != model["kind"]:
        return [("response kind", impl["kind"] + ":" + "; ".join(impl.get("messages", []))[:200], model["kind"])]
    if impl["kind"] != "response":
        return []
    out = []
    if impl["data"] != model["data"]:
        out.append(("data", impl["data"], model["data"]))
    if impl["errors"] != model["errors"]:
        out.append(("error paths", impl["errors"], model["errors"]))
    if list(impl["calls"]) != list(model["calls"]):
        out.append(("resolver calls", impl["calls"], model["calls"]))
    return out


def run_safe(schema, c):
    try:
        return G.run_impl(schema, c["doc"], c["data"], c["variables"], c["operation_name"])
    except Exception as e:  # noqa: BLE001
        return {"kind": "raised", "messages": [repr(e)]}


def strip(r):
    return {k: v for k, v in r.items() if k not in ("messages", "raw", "fields", "causes")}


def replay_dict(sdl, case, impl, model, what):
    return {"relation": "execute_sync == Spec.execute (data incl. key order, error-path multiset, resolver calls)",
            "disagreement": what, "sdl": sdl, "document": case["text"], "variables": case["variables"],
            "operation_name": case.get("operation_name"),
            "data": G.data_to_jsonable(case["data"]), "impl": repr(strip(impl))[:3000],
            "model": repr(model)[:3000], "messages": impl.get("messages")}


def run_schema(ck, m, rng, n_docs, max_depth, p_bad):
    from graphql import build_schema
    from graphql.type import validate_schema
    gs = G.GSchema(rng)
    sdl = gs.sdl()
    try:
        schema = build_schema(sdl)
        errs = validate_schema(schema)
    except Exception as e:  # noqa: BLE001
        errs = [e]
    if errs:
        ck.count("generator_invalid_schema")
        ck.extra.setdefault("generator_errors", []).append(f"{errs[0]!r}"[:300])
        return
    ck.count("schemas")
    wschema = G.enc_schema(schema)
    cases = []
    for _ in range(n_docs):
        c = build_case(ck, rng, gs, schema, wschema, max_depth, p_bad)
        if c:
            cases.append(c)
    if not cases:
        return
    # pass 1: each request, and immediately again on the same schema/document objects
    first, again = [], []
    for c in cases:
        rs = []
        for _ in range(2):
            try:
                rs.append(G.run_impl(schema, c["doc"], c["data"], c["variables"], c["operation_name"]))
            except Exception as e:  # noqa: BLE001
                rs.append({"kind": "raised", "messages": [repr(e)]})
        first.append(rs[0])
        again.append(rs[1])
    # pass 2: once more after all the other requests of this schema have been executed
    later = []
    for c in cases:
        try:
            later.append(G.run_impl(schema, c["doc"], c["data"], c["variables"], c["operation_name"]))
        except Exception as e:  # noqa: BLE001
            later.append({"kind": "raised", "messages": [repr(e)]})
    # the same schema assembled programmatically, defaults in the legacy / value / literal styles:
    # every request must be answered as by the SDL-built schema
    variants = []
    for label, styles in (("legacy default_value", ("legacy",)), ("mixed default styles", ("legacy", "value", "literal"))):
        try:
            from graphql.type import validate_schema as _vs
            ps = gs.build_programmatic(rng, styles)
            if _vs(ps):
                raise ValueError("programmatic schema invalid")
            variants.append((label, ps, [run_safe(ps, c) for c in cases]))
        except Exception as e:  # noqa: BLE001
            ck.count("programmatic_schema_not_built")
            ck.extra.setdefault("generator_errors", []).append(f"programmatic: {e!r}"[:300])
    outs = m.run_batch([c["wire"] for c in cases])
    for label, _ps, rs in variants:
        for c, r1, rp in zip(cases, first, rs):
            ck.count("programmatic_schema_runs")
            if strip(rp) != strip(r1):
                kid = "exec-programmatic:" + common.hashlib.blake2b(
                    repr((sdl, c["text"], repr(c["variables"]))).encode("utf-8", "surrogatepass"), digest_size=8).hexdigest()
                ck.violation(kid, f"the programmatically built schema ({label}) answers differently from the "
                                  "SDL-built schema (and the specification model): "
                                  + "; ".join(rp.get("messages", [])[:2]),
                             dict(replay_dict(sdl, c, r1, {}, "programmatic schema"), programmatic=repr(strip(rp))[:3000],
                                  default_styles=label))
    # wire echo: the model's decoder/encoder reproduce the request tree
    for c, echo in zip(cases[:5], m.run_batch([[0] + c["wire"][1:] for c in cases[:5]])):
        ck.count("wire_echo_checked")
        if echo != c["wire"][1:]:
            ck.violation("wire-echo", "wire codec does not round-trip a request (harness/model defect)",
                         {"relation": "dec_tree/enc_tree echo", "document": c["text"]})
    for c, r1, r2, r3, o in zip(cases, first, again, later, outs):
        model = G.dec_response(o)
        key_src = (sdl, c["text"], json.dumps(c["variables"], sort_keys=True, default=repr),
                   repr(G.data_to_jsonable(c["data"])))
        nerr = len(r1.get("errors", []))
        nontrivial = bool(c["features"]) or nerr > 0
        ck.note_case(key_src, nontrivial=nontrivial,
                     sample={"document": c["text"], "variables": c["variables"], "errors": nerr}
                     if len(ck.samples) < 4 and nerr and len(c["text"]) < 400 else None)
        for f in c["features"]:
            ck.count("feature:" + f)
        for f in set(c["injected"]):
            ck.count("data:" + f)
        ck.count("responses_with_errors" if nerr else "responses_without_errors")
        if r1["kind"] == "request-error":
            ck.count("request_errors")
        if r1["kind"] == "response" and r1["data"] is None:
            ck.count("data_null_by_propagation")
        if any(len(p) >= 3 and sum(isinstance(s, int) for s in p) >= 2 for p in r1.get("errors", [])):
            ck.count("errors_two_lists_deep")
        kid = "exec:" + common.hashlib.blake2b(repr(key_src).encode("utf-8", "surrogatepass"), digest_size=8).hexdigest()
        if r1["kind"] in ("raised", "pathless-error"):
            ck.violation(kid, f"execute_sync {r1['kind']} on a validated in-fragment request: {r1['messages'][:1]}",
                         replay_dict(sdl, c, r1, model, r1["kind"]))
            continue
        diffs = compare(r1, model)
        if diffs:
            what = "; ".join(d[0] for d in diffs)
            ck.violation(kid, f"response differs from the specification's algorithm in: {what}",
                         replay_dict(sdl, c, r1, model, what))
        if strip(r2) != strip(r1) or strip(r3) != strip(r1):
            ck.violation(kid + ":history", "executing the same request again gives a different response",
                         dict(replay_dict(sdl, c, r1, model, "history"), second=repr(strip(r2))[:2000],
                              later=repr(strip(r3))[:2000]))


def run(tier):
    ck = Check("C02", tier)
    ck.assumptions += ASSUMPTIONS
    br = common.build("C02", models=("exec",))
    ck.proofs(br)
    if not br.ok:
        return ck.finish()
    m = Model("exec")
    t0 = time.time()
    n_schemas, n_docs = (40, 70) if tier == "quick" else (400, 250)
    budget = 60 if tier == "quick" else 900
    for c in common.load_corpus("C02"):
        run_corpus_case(ck, m, c)
    for i in range(n_schemas):
        if time.time() - t0 > budget:
            ck.count("stopped_on_time_budget")
            break
        run_schema(ck, m, ck.rng, n_docs, max_depth=ck.rng.choice([2, 3, 3, 4]),
                   p_bad=ck.rng.choice([0.0, 0.03, 0.05, 0.08]))
    custom_scalar_arguments(ck, 150 if tier == "quick" else 2000)
    custom_scalar_literal_arguments(ck, 400 if tier == "quick" else 6000)
    derived_schema_history(ck)
    ck.rule = ("type-directed generation: per schema (objects, interfaces incl. interface hierarchies, unions, enums, "
               "list/non-null nesting up to 2 lists, input objects incl. OneOf and nested defaults, arguments with defaults) "
               "a batch of operations (object literals with variables inside, aliases that "
               "collide on the same field, fields repeated 3+ times across selections/inline fragments/named "
               "fragments, type conditions on objects/interfaces/unions, @skip/@include on literals and variables, "
               "variables with defaults, variables inside list literals) x variable values x data graphs with "
               "injected nulls in non-null positions, ill-typed leaves, raising resolvers, unresolvable type names; "
               "documents rejected by validate() are skipped and counted; each request is executed twice in a row "
               "and once more after all other requests of its schema, on the same schema and document objects. "
               "non-trivial = the document uses at least one of the listed features or the response has errors")
    return ck.finish()


def derived_schema_history(ck):
    """Memoised coerced defaults must not leak between a schema and schemas derived from it: a request on the
    extended/sorted schema answers the same whether or not requests ran on the base schema before."""
    from graphql import build_schema, extend_schema, graphql_sync, lexicographic_sort_schema, parse
    bases = [
        ("input I { a: Int = 1 } type Query { f(x: I = {}): String }", "extend input I { b: Int = 2 }", "{ f }"),
        ("input I { a: Int = 1  n: J = {} } input J { c: String = \"s\" } type Query { f(x: I = {n: {}}): String }",
         "extend input J { d: [Int] = [1, 2] }", "{ f }"),
        ("input I { a: Int = 1 } type Query { f(x: [I] = [{}, {a: 5}]): String g(y: I = {a: 3}): String }",
         "extend input I { z: Boolean = true }", "{ f g }"),
        ("enum E { A B } input I { e: E = A } type Query { f(x: I = {}): String }", "extend input I { e2: E = B }", "{ f }"),
        ("input I { a: Int = 1 } type Query { f: String } directive @d(x: I = {}) on FIELD", "extend input I { b: Int = 2 } extend type Query { h(x: I = {}): String }", "{ h }"),
    ]

    def run(schema, q):
        root = {k: (lambda info, **kw: repr(sorted(kw.items(), key=str))) for k in ("f", "g", "h")}
        r = graphql_sync(schema, q, root_value=root)
        return r.formatted

    for sdl, ext, q in bases:
        for derive in ("extend", "extend-then-sort"):
            fresh = extend_schema(build_schema(sdl), parse(ext))
            base = build_schema(sdl)
            warm = [run(base, qq) for qq in ("{ f }", "{ __typename }")]
            derived = extend_schema(base, parse(ext))
            if derive != "extend":
                fresh, derived = lexicographic_sort_schema(fresh), lexicographic_sort_schema(derived)
            want, got = run(fresh, q), run(derived, q)
            again = [run(base, qq) for qq in ("{ f }", "{ __typename }")]
            ck.note_case(("derived-history", sdl, ext, derive), nontrivial=True)
            if want != got:
                ck.violation(f"derived-schema-history:{sdl}:{ext}:{derive}",
                             f"a schema derived ({derive}) from a schema that already served requests answers {got}, the same schema derived from a fresh base answers {want}",
                             {"relation": "responses do not depend on earlier requests (memoised defaults)", "sdl": sdl, "extension": ext,
                              "document": q, "impl": got, "reference": want})
            if warm != again:
                ck.violation(f"derived-schema-history-base:{sdl}:{ext}:{derive}", "deriving a schema changed the answers of the base schema",
                             {"relation": "responses do not depend on earlier requests", "sdl": sdl, "impl": again, "reference": warm})


def custom_scalar_arguments(ck, n):
    """Arguments of a custom scalar (outside the Coq fragment): the resolver must receive the literal with
    every variable at every depth replaced by its coerced value (direct predicate on the implementation)."""
    from graphql import build_schema, execute_sync, parse
    rng = ck.rng
    schema = build_schema("scalar Any  type Query { put(doc: Any, n: Int, f: Float, b: Boolean, s: String): String  echo(x: [Any!]): String }")
    pool = {"n": 3, "s": "str", "b": True, "f": 1.5, "l": [1, "x"], "o": {"k": [None, 2]}, "u": None}
    decl = {"n": "Int", "s": "String", "b": "Boolean", "f": "Float", "l": "Any", "o": "Any", "u": "Any"}

    def gen(depth):
        k = rng.randint(0, 6 if depth > 0 else 3)
        if k == 0:
            v = rng.choice(list(pool))
            return "$" + v, pool[v], {v}
        if k == 1:
            x = rng.choice([0, -7, 2 ** 40])
            return str(x), x, set()
        if k == 2:
            x = rng.choice(["a", "", "q\"uote"])
            return json.dumps(x), x, set()
        if k == 3:
            return rng.choice([("true", True, set()), ("null", None, set()), ("ENUMV", "ENUMV", set()), ("1.25", 1.25, set())])
        if k in (4, 5):
            items = [gen(depth - 1) for _ in range(rng.randint(0, 3))]
            return "[" + ", ".join(i[0] for i in items) + "]", [i[1] for i in items], set().union(*[i[2] for i in items])
        keys = rng.sample(["a", "b", "c", "d"], rng.randint(0, 3))
        items = [(k_, gen(depth - 1)) for k_ in keys]
        return ("{" + ", ".join(f"{k_}: {i[0]}" for k_, i in items) + "}", {k_: i[1] for k_, i in items},
                set().union(*[i[2] for k_, i in items]))

    for _ in range(n):
        text, want, used = gen(3)
        field = rng.choice(["put", "echo"])
        if field == "echo":
            text, want = "[" + text + "]", [want]
            if want[0] is None:
                continue
        vdefs = ", ".join(f"${v}: {decl[v]}" for v in sorted(used))
        q = "query" + (f"({vdefs})" if vdefs else "") + " { " + (f"put(doc: {text})" if field == "put" else f"echo(x: {text})") + " }"
        got = []

        def resolver(_src, _info, **kw):
            got.append(kw)
            return "ok"
        try:
            res = execute_sync(schema, parse(q), variable_values={v: pool[v] for v in used}, field_resolver=resolver)
        except Exception as e:  # noqa: BLE001
            ck.violation(f"custom-scalar-arg:{q}", f"execute_sync raised {type(e).__name__} for {q}", {"relation": "execution never raises", "document": q})
            continue
        ck.note_case(("custom-scalar-arg", q), nontrivial=bool(used))
        key = "doc" if field == "put" else "x"
        if res.errors or not got or got[0].get(key) != want:
            ck.violation(f"custom-scalar-arg:{q}",
                         f"resolver of a custom-scalar argument received {got[0].get(key) if got else None!r}, coercion prescribes {want!r} for {q}",
                         {"relation": "resolver arguments = coerced arguments (custom scalar literal with embedded variables)",
                          "document": q, "variables": {v: pool[v] for v in used}, "impl": repr(got), "model": repr(want),
                          "errors": [e.message for e in res.errors or []]})
    ck.count("custom_scalar_argument_cases", n)


def custom_scalar_literal_arguments(ck, n):
    """Arguments of a custom scalar that defines coerce_input_literal (JSON-like, outside the Coq
    fragment): the scalar sees the literal with the variables replaced.  Variables with and without
    defaults, provided / null / not provided, nested in lists and objects.  Oracle: a provided
    variable stands for its value; one that is not provided for its default if it declares one,
    else for null in a list or at the top and for an ABSENT field in an object."""
    from graphql import (GraphQLArgument, GraphQLBoolean, GraphQLField, GraphQLFloat, GraphQLInt, GraphQLList,
                         GraphQLNonNull, GraphQLObjectType, GraphQLScalarType, GraphQLSchema, GraphQLString,
                         execute_sync, parse)
    from graphql.utilities import value_from_ast_untyped
    rng = ck.rng
    json_scalar = GraphQLScalarType("Json", coerce_input_value=lambda v: v,
                                    coerce_input_literal=lambda node, *_a: value_from_ast_untyped(node))
    schema = GraphQLSchema(GraphQLObjectType("Query", {
        "put": GraphQLField(GraphQLString, {"doc": GraphQLArgument(json_scalar)}),
        "echo": GraphQLField(GraphQLString, {"x": GraphQLArgument(GraphQLList(GraphQLNonNull(json_scalar)))})}),
        types=[GraphQLInt, GraphQLFloat, GraphQLBoolean, GraphQLString])
    # name -> (type, default literal text | None, default value, a value a client may send)
    decl = {"n": ("Int", None, None, 3), "nd": ("Int", "10", 10, 4), "s": ("String", None, None, "str"),
            "sd": ("String", '"dflt"', "dflt", "sent"), "b": ("Boolean", "true", True, False),
            "f": ("Float", None, None, 1.5), "l": ("[Int]", "[1, 2]", [1, 2], [7]), "ln": ("[Int]", None, None, [8, None]),
            "nz": ("Int", "null", None, 5)}
    absent = object()

    def gen(depth, state):
        """-> (literal text, expected value or `absent` (only for a variable in field position))"""
        k = rng.randint(0, 7 if depth > 0 else 3)
        if k in (0, 1):
            v = rng.choice(list(decl))
            st = state.setdefault(v, rng.choice(["sent", "null", "unset", "unset"]))
            ty, dtext, dval, sent = decl[v]
            if st == "sent":
                return "$" + v, sent, True
            if st == "null":
                return "$" + v, None, True
            return "$" + v, (dval if dtext is not None else absent), True
        if k == 2:
            x = rng.choice([0, -7, "a", "", 1.25, True])
            return json.dumps(x), x, False
        if k == 3:
            return rng.choice([("null", None, False), ("ENUMV", "ENUMV", False)])
        if k in (4, 5):
            items = [gen(depth - 1, state) for _ in range(rng.randint(0, 3))]
            return ("[" + ", ".join(i[0] for i in items) + "]",
                    [None if i[1] is absent else i[1] for i in items], False)
        keys = rng.sample(["a", "b", "c", "d"], rng.randint(0, 4))
        items = [(k_, gen(depth - 1, state)) for k_ in keys]
        return ("{" + ", ".join(f"{k_}: {i[0]}" for k_, i in items) + "}",
                {k_: i[1] for k_, i in items if i[1] is not absent}, False)

    for _ in range(n):
        state = {}
        text, want, _is_var = gen(3, state)
        if want is absent:
            want = None
        field = rng.choice(["put", "echo"])
        if field == "echo":
            text, want = "[" + text + "]", [want]
            if want[0] is None:
                continue
        vdefs = ", ".join(f"${v}: {decl[v][0]}" + (f" = {decl[v][1]}" if decl[v][1] is not None else "")
                          for v in sorted(state))
        variables = {v: (decl[v][3] if st == "sent" else None) for v, st in state.items() if st != "unset"}
        q = "query" + (f"({vdefs})" if vdefs else "") + " { " + (f"put(doc: {text})" if field == "put" else f"echo(x: {text})") + " }"
        got = []

        def resolver(_src, _info, **kw):
            got.append(kw)
            return "ok"
        try:
            res = execute_sync(schema, parse(q), variable_values=variables, field_resolver=resolver)
        except Exception as e:  # noqa: BLE001
            ck.violation(f"custom-scalar-lit:{q}", f"execute_sync raised {type(e).__name__} for {q}", {"relation": "execution never raises", "document": q})
            continue
        ck.note_case(("custom-scalar-lit", q, repr(sorted(variables.items(), key=repr))), nontrivial=bool(state))
        for st in state.values():
            ck.count("custom_scalar_literal_variable:" + st)
        key = "doc" if field == "put" else "x"
        if res.errors or not got or got[0].get(key, None) != want:
            ck.violation(f"custom-scalar-lit:{q}:{sorted(variables.items(), key=repr)!r}",
                         f"resolver of a custom-scalar (coerce_input_literal) argument received "
                         f"{got[0].get(key) if got else None!r}, variable replacement prescribes {want!r} for {q} with {variables!r}",
                         {"relation": "resolver arguments = coerced arguments (custom scalar with coerce_input_literal; "
                                      "variables provided / null / unset, with and without defaults)",
                          "document": q, "variables": variables, "impl": repr(got), "model": repr(want),
                          "errors": [e.message for e in res.errors or []]})
    ck.count("custom_scalar_literal_argument_cases", n)


def run_one(sdl, text, variables, data, operation_name=None):
    from graphql import build_schema, parse
    schema = build_schema(sdl)
    doc = parse(text)
    wire = [1] + G.flatten(G.W(100, [], [G.enc_schema(schema), G.enc_doc(doc, operation_name), G.enc_vars(variables),
                                          G.enc_data(data)]))
    impl = G.run_impl(schema, doc, data, variables, operation_name)
    model = G.dec_response(Model("exec").run_batch([wire])[0])
    return impl, model


def run_corpus_case(ck, m, c):
    try:
        data = G.data_from_jsonable(c["data"])
        impl, model = run_one(c["sdl"], c["document"], c.get("variables") or {}, data, c.get("operation_name"))
    except Exception as e:  # noqa: BLE001
        ck.count("corpus_case_unusable")
        return
    ck.note_case(("corpus", c["document"]), nontrivial=True)
    diffs = compare(impl, model)
    if diffs:
        ck.violation("corpus:" + c.get("name", c["document"][:40]),
                     "response differs from the specification's algorithm in: " + "; ".join(d[0] for d in diffs),
                     {"sdl": c["sdl"], "document": c["document"], "variables": c.get("variables"),
                      "data": c["data"], "impl": repr(strip(impl))[:3000], "model": repr(model)[:3000]})


def replay(path):
    c = json.loads(open(path).read())
    common.build("C02", models=("exec",))
    data = G.data_from_jsonable(c["data"])
    impl, model = run_one(c["sdl"], c["document"], c.get("variables") or {}, data, c.get("operation_name"))
    print("document:", c["document"])
    print("impl :", strip(impl))
    print("model:", model)
    diffs = compare(impl, model)
    for d in diffs:
        print("DIFF", d[0], "\n  impl :", d[1], "\n  model:", d[2])
    print("messages:", impl.get("messages"))
    return 1 if diffs else 0
