"""C03 - the response does not depend on when resolvers complete."""
from __future__ import annotations

import asyncio
import itertools
import json
import types
import zlib

from . import common
from .common import Check, Model
from .loopctl import Controller

ASSUMPTIONS = [
    "C03 model: Exec/ErrorsAlg.v - the CollectedErrors.add algebra (nulled positions under any arrival order); the asyncio runtime (gather/cancel, allocator) is not modelled: completion orders are explored with a controlled event loop (harness/loopctl.py, inspects loop._ready)",
    "reference = the implementation's own fully synchronous execution of the same request (the property's statement)",
    "address reuse for the sub-selection memo is provoked (short-lived sibling objects) and detected (memoised result vs fresh computation at every call), not enumerated",
]

SDL = """
type Query { a: Obj b: Obj c: Obj me: Obj slow: Obj nn: Obj! list: [Obj] nnlist: [Obj!] it: I un: U uns: [U] its: [I] }
type Mutation { m1: Obj m2: Obj m3: Obj! }
interface I { id: ID name: String }
type Obj implements I { id: ID name: String req: String! bestFriend: Obj nnFriend: Obj! friends: [Obj] nnFriends: [Obj!]! }
type Other implements I { id: ID name: String x: Int  o: Obj }
union U = Obj | Other
"""

QUERIES = [
    "{ a{id} b{id} c{id} me{id} slow{bestFriend{name}} }",
    "{ a{id} b{id} c{id} me{id} slow{bestFriend{name id}} nn { req } }",
    "{ me { name req bestFriend { req name } } a { id } }",
    "{ me { nnFriend { req nnFriend { req } } name } b { name } }",
    "{ list { id req bestFriend { name } } me { id } }",
    "{ nnlist { id req } a { friends { name req } } }",
    "{ me { nnFriends { name req } friends { nnFriend { req } } } c { id } }",
    "{ it { id name ... on Obj { req bestFriend { id } } } un { ... on Obj { name } ... on Other { x o { req } } } }",
    "{ x: me { id } y: me { name } z: me { bestFriend { id } } w: me { bestFriend { name } } }",
    "{ a{name} b{name} c{name} slow{ friends { bestFriend { id } } } me { friends { bestFriend { name } } } }",
    "mutation { m1 { id bestFriend { name } } m2 { name } m3 { req } }",
    "mutation { m3 { req } m1 { friends { id } } m2 { nnFriend { req } } }",
    "{ nn { nnFriend { nnFriend { req } } } me { id } }",
    "mutation { m1 { name req id } m2 { id } }",
    "mutation { m1 { bestFriend { name req } id } m2 { name req } m3 { id } }",
    # one response key selected by several field nodes of an abstract type, values of different runtime types
    "{ uns { ... on Obj { id } } uns { ... on Obj { name } ... on Other { x } } me { id } }",
    "{ its { id } its { ... on Obj { req } ... on Other { x o { id } } } ...F } fragment F on Query { its { name } }",
    "{ un { ... on Other { x } } un { ... on Obj { id } ... on Other { o { name } } } it { id } it { ... on Obj { name } } }",
    "{ its { ... on Other { x } } a { id } its { ... on Obj { bestFriend { id } bestFriend { name } } } }",
]

FIELDS_OBJ = ["id", "name", "req", "bestFriend", "nnFriend", "friends", "nnFriends"]


AWAITABLE_KINDS = ("future", "coroutine", "task", "object", "generator", "coroutine_cleanup")


class AwaitableObject:
    """An object that is awaitable only through __await__."""

    def __init__(self, fut):
        self.fut = fut

    def __await__(self):
        return self.fut.__await__()


@types.coroutine
def generator_awaitable(fut):
    """A generator-based coroutine object (types.coroutine): awaitable without an __await__ attribute."""
    return (yield from fut)


class World:
    """Data served by callables; behaviour per response path decided by a table."""

    def __init__(self, rng, ctl_holder, behaviours, log, cleanup=3):
        # cleanup: loop iterations a `coroutine_cleanup` resolver spends cleaning up when it is cancelled
        self.rng, self.h, self.b, self.log, self.cleanup = rng, ctl_holder, behaviours, log, cleanup
        self.kind_override = {}  # response path -> kind, for hand-written scenarios

    def awaitable(self, path, fut):
        """The awaitable a resolver returns for the controlled future `fut`: the KIND is a fixed function of the response
        path, so every run of the same request uses the same kinds; all kinds must behave alike."""
        kind = AWAITABLE_KINDS[zlib.crc32(repr(path).encode()) % len(AWAITABLE_KINDS)]
        if len(path) == 1 and kind in ("future", "task"):
            kind = "coroutine"  # root fields: always observable begin/end
        kind = self.kind_override.get(path, kind)
        self.kinds_used = getattr(self, "kinds_used", set()) | {kind}
        if kind == "future":
            return fut
        if kind == "object":
            return AwaitableObject(fut)
        if kind == "generator":
            return generator_awaitable(fut)
        ticks = self.cleanup if kind == "coroutine_cleanup" else 0

        async def coro(_f=fut, _p=path, _log=kind != "task"):
            if _log:
                self.log.append(("begin", _p))
            try:
                return await _f
            except asyncio.CancelledError:
                for _ in range(ticks):  # asynchronous cleanup on cancellation, e.g. a rollback
                    await asyncio.sleep(0)
                raise
            finally:
                if _log:
                    self.log.append(("end", _p))
        if kind == "task":
            task = self.h[0].loop.create_task(coro())
            task.add_done_callback(lambda t: t.cancelled() or t.exception())  # an abandoned task's error is not a verdict
            return task
        return coro()

    def leaf(self, kind):
        def fn(info, **_a):
            path = tuple(info.path.as_list())
            self.log.append(("call", path))
            mode, what = self.b.get(path, ("sync", "value"))
            if kind in ("id", "name", "req", "x"):
                val = f"{kind}@{'/'.join(map(str, path))}" if kind != "x" else 7
            elif kind in ("friends", "nnFriends", "list", "nnlist"):
                val = [self.obj(), self.obj()]
            elif kind == "un":
                val = dict(self.obj(), __typename="Obj") if len(path) % 2 else {"__typename": "Other", "id": self.leaf("id"), "name": self.leaf("name"), "x": self.leaf("x"), "o": self.leaf("o")}
            elif kind in ("uns", "its"):
                val = [dict(self.obj(), __typename="Obj"),
                       {"__typename": "Other", "id": self.leaf("id"), "name": self.leaf("name"), "x": self.leaf("x"), "o": self.leaf("o")},
                       dict(self.obj(), __typename="Obj")]
            elif kind == "it":
                val = dict(self.obj(), __typename="Obj")
            else:
                val = self.obj()
            exc = None
            if what == "null":
                val = None
            elif what == "raise":
                exc = RuntimeError("boom@" + "/".join(map(str, path)))
            if mode == "async" and self.h[0] is not None:
                return self.awaitable(path, self.h[0].future(path, val, exc))
            if exc is not None:
                raise exc
            return val
        return fn

    def obj(self):
        d = {k: self.leaf(k) for k in FIELDS_OBJ}
        d["__typename"] = "Obj"
        return d

    def root(self):
        return {k: self.leaf(k) for k in ["a", "b", "c", "me", "slow", "nn", "list", "nnlist", "it", "un", "uns", "its", "m1", "m2", "m3"]}


def positions(data, path=()):
    """All response paths of a data tree."""
    out = [path]
    if isinstance(data, dict):
        for k, v in data.items():
            out += positions(v, path + (k,))
    elif isinstance(data, list):
        for i, v in enumerate(data):
            out += positions(v, path + (i,))
    return out


def get_at(data, path):
    for p in path:
        if data is None:
            return ("null-prefix", None)
        try:
            data = data[p]
        except (KeyError, IndexError, TypeError):
            return ("missing", None)
    return ("ok", data)


def wf(result, natural_nulls):
    """Well-formedness of one response w.r.t. the nulls the data itself contains."""
    f = result.formatted
    data, errors = f.get("data"), f.get("errors") or []
    probs = []
    epaths = [tuple(e.get("path") or ()) for e in errors]
    for ep in epaths:
        # the error path ends at or below a null in data
        cur, ok = data, False
        if cur is None:
            ok = True
        else:
            for p in ep:
                try:
                    cur = cur[p]
                except (KeyError, IndexError, TypeError):
                    break
                if cur is None:
                    ok = True
                    break
        if not ok:
            probs.append(f"error path {list(ep)} does not end at or below a null")
    if len(set(epaths)) != len(epaths):
        probs.append("duplicate error paths")
    # every null that the data graph does not explain has an error at or below it
    if data is None:
        if not errors:
            probs.append("data is null without errors")
    else:
        for pos in positions(data):
            st, v = get_at(data, pos)
            if st == "ok" and v is None and pos not in natural_nulls:
                if not any(ep[:len(pos)] == pos for ep in epaths):
                    probs.append(f"null at {list(pos)} without an error at or below it")
    return probs


def memo_monitor(violations):
    """Wrap Executor.collect_subfields: the memoised answer must equal a fresh computation."""
    try:
        from graphql.execution import executor as ex
        from graphql.execution.collect_fields import collect_subfields as fresh
        orig = ex.Executor.collect_subfields
    except Exception:  # noqa: BLE001
        return None

    def shape(cf):
        gfs = cf.grouped_field_set if hasattr(cf, "grouped_field_set") else cf[0]
        return [(k, [id(fd.node) for fd in lst]) for k, lst in gfs.items()]

    def wrapped(self, return_type, field_details_list):
        got = orig(self, return_type, field_details_list)
        try:
            want = fresh(self.schema, self.fragments, self.variable_values, self.operation, return_type,
                         field_details_list, self.hide_suggestions)
            if shape(got) != shape(want):
                violations.append((return_type.name, [k for k, _ in shape(got)], [k for k, _ in shape(want)]))
        except TypeError:
            pass  # signature changed: monitor degraded
        return got

    ex.Executor.collect_subfields = wrapped
    return lambda: setattr(ex.Executor, "collect_subfields", orig)


def is_type_of_scenarios(ck, quick):
    """Abstract type resolution through is_type_of / resolve_type with every sync/awaitable mix."""
    import itertools as it
    from graphql import (GraphQLField, GraphQLInterfaceType, GraphQLList, GraphQLObjectType, GraphQLSchema, GraphQLString,
                         GraphQLUnionType, execute, execute_sync, parse)
    n = 0
    names = ["Dog", "Cat", "Cow"]
    doc = parse("{ pets { __typename name } one { ... on Dog { name } ... on Cat { name } ... on Cow { name } } }")
    for modes in it.product(("sync", "async"), repeat=3):
        for use_resolve_type in (False, True):
            for rt_mode in (("sync", "async") if use_resolve_type else ("sync",)):
                def build(async_ok, ctl=None):
                    def mk_is_type_of(tname, mode):
                        def fn(value, _info):
                            ans = value.get("kind") == tname
                            if mode == "async" and async_ok:
                                return ctl.future(("is_type_of", tname, id(value) % 1000), ans)
                            return ans
                        return fn

                    def resolve_type(value, _info, _t):
                        if rt_mode == "async" and async_ok:
                            return ctl.future(("resolve_type", id(value) % 1000), value["kind"])
                        return value["kind"]
                    iface = GraphQLInterfaceType("Pet", {"name": GraphQLField(GraphQLString)},
                                                 resolve_type=resolve_type if use_resolve_type else None)
                    types = [GraphQLObjectType(t, {"name": GraphQLField(GraphQLString)}, interfaces=[iface],
                                               is_type_of=None if use_resolve_type else mk_is_type_of(t, m))
                             for t, m in zip(names, modes)]
                    union = GraphQLUnionType("U", types, resolve_type=resolve_type if use_resolve_type else None)
                    q = GraphQLObjectType("Query", {"pets": GraphQLField(GraphQLList(iface)), "one": GraphQLField(union)})
                    return GraphQLSchema(q, types=types)
                root = {"pets": [{"kind": k, "name": k.lower()} for k in ("Cow", "Dog", "Cat", "Dog")],
                        "one": {"kind": "Cat", "name": "tom"}}
                ref = execute_sync(build(False), doc, root)
                labels_seen = []
                for order in ("fifo", "lifo"):
                    ctl = Controller()

                    def make(c):
                        return execute(build(True, c), doc, root)
                    # priority decided lazily: fifo = creation order, lifo = reverse creation order
                    if order == "fifo":
                        kind, res = ctl.run(make, [])
                    else:
                        probe = Controller()
                        probe.run(lambda c: execute(build(True, c), doc, root), [])
                        kind, res = ctl.run(make, list(reversed(probe.completed_order)))
                    n += 1
                    key = f"type-resolution:{modes}:{use_resolve_type}:{rt_mode}:{order}"
                    ck.note_case(("tr", modes, use_resolve_type, rt_mode, order), nontrivial="async" in modes or rt_mode == "async")
                    if kind in ("hang", "raised", "cancelled"):
                        ck.violation(key, f"execute with awaitable type resolution ended as {kind}: {res!r}"[:300],
                                     {"relation": "data(order) == data(sync)", "modes": modes, "resolve_type": use_resolve_type})
                    elif res.formatted != ref.formatted:
                        ck.violation(key, f"awaitable is_type_of/resolve_type mix {modes} (resolve_type={use_resolve_type}/{rt_mode}, {order}) changes the response",
                                     {"relation": "data(order) == data(sync)", "modes": modes, "resolve_type": use_resolve_type,
                                      "impl": res.formatted, "reference": ref.formatted})
    return n


def run(tier):
    # abandoned schedules leave never-awaited coroutines behind; their destructor chatter is not a verdict
    import sys
    import warnings
    warnings.filterwarnings("ignore", category=RuntimeWarning)
    sys.unraisablehook = lambda *_a: None
    from graphql import build_schema, execute, execute_sync, parse
    from graphql.execution import Executor as BaseExecutor

    class UserExecutor(BaseExecutor):
        """A trivial user subclass of the base executor."""

    ck = Check("C03", tier)
    ck.assumptions += ASSUMPTIONS
    from . import casync
    br = common.build("C03", models=("errorsalg", "async"), extra_targets=("theories/Properties/C03async.vo",))
    ck.proofs(br, extra_files=("C03async",))
    quick = tier == "quick"
    rng = ck.rng
    schema = build_schema(SDL)
    ck.rule = ("requests (hand-written shapes that reuse addresses + generated behaviours: each resolver position sync/async x "
               "value/null/raise) x completion orders (all permutations up to 4 awaitables in thorough, 6 sampled orders in quick): "
               "data equals the fully synchronous run, response well-formed, root mutation fields serial, memoised sub-selection "
               "equals a fresh computation at every call. non-trivial = at least 2 awaitables completed in a non-FIFO order or a "
               "raising/null position")
    memo_viol = []
    undo = memo_monitor(memo_viol)
    if undo is None:
        ck.degraded.append("memo monitor: Executor.collect_subfields not found")
    docs = [(q, parse(q)) for q in QUERIES]
    nreq = 0
    try:
        for q, doc in docs:
            ntrials = 150 if quick else 2500
            for trial in range(ntrials):
                # behaviours are assigned lazily by path: first discover paths with an all-sync run
                log0 = []
                holder = [None]
                w0 = World(rng, holder, {}, log0)
                r0 = execute_sync(schema, doc, w0.root())
                paths = sorted({p for ev, p in log0 if ev == "call"}, key=repr)
                beh = {}
                if trial == 0 and "slow" in q:
                    beh = {("slow",): ("async", "value")}
                elif trial > 0:
                    for p in paths:
                        x = rng.random()
                        mode = "async" if rng.random() < 0.3 else "sync"
                        nonnull = p[-1] in ("req", "nnFriend", "nnFriends", "nn", "m3")
                        lim = (0.2, 0.4) if nonnull and trial % 2 else (0.10, 0.17)
                        what = "raise" if x < lim[0] else ("null" if x < lim[1] else "value")
                        if mode != "sync" or what != "value":
                            beh[p] = (mode, what)
                natural = {p for p, (m, wh) in beh.items() if wh == "null"}
                # synchronous reference with the same behaviours (async -> sync)
                logs = []
                ws = World(rng, [None], {p: ("sync", wh) for p, (m, wh) in beh.items()}, logs)
                try:
                    ref = execute_sync(schema, doc, ws.root())
                except Exception as e:  # noqa: BLE001
                    ck.violation(f"sync-raises:{q}:{sorted(beh.items())!r}", f"execute_sync raised {type(e).__name__}",
                                 {"relation": "execution never raises", "query": q, "behaviours": repr(sorted(beh.items()))})
                    continue
                try:
                    ref_base = execute_sync(schema, doc, World(rng, [None], {p: ("sync", wh) for p, (m, wh) in beh.items()}, []).root(),
                                            executor_class=UserExecutor if trial % 2 else BaseExecutor)
                    if ref_base.formatted != ref.formatted:
                        ck.violation(f"sync-executor-class:{q}:{sorted(beh.items())!r}",
                                     "execute_sync with executor_class=Executor (or a trivial subclass) differs from the default execute_sync",
                                     {"relation": "executor_class=Executor behaves like the default", "query": q,
                                      "behaviours": repr(sorted(beh.items())), "impl": ref_base.formatted, "reference": ref.formatted})
                except Exception as e:  # noqa: BLE001
                    ck.violation(f"sync-raises:{q}:{sorted(beh.items())!r}:base", f"execute_sync(executor_class=Executor) raised {type(e).__name__}",
                                 {"relation": "execution never raises", "query": q, "behaviours": repr(sorted(beh.items()))})
                for pr in wf(ref, natural):
                    ck.violation(f"wf-sync:{q}:{sorted(beh.items())!r}", f"synchronous response ill-formed: {pr}",
                                 {"relation": "response well-formed", "query": q, "behaviours": repr(sorted(beh.items())),
                                  "response": ref.formatted})
                async_labels = [p for p, (m, _) in beh.items() if m == "async"]
                if not async_labels:
                    nreq += 1
                    ck.note_case((q, repr(sorted(beh.items())), "sync"), nontrivial=bool(beh))
                    continue
                if len(async_labels) <= (3 if quick else 4):
                    orders = list(itertools.permutations(async_labels))
                else:
                    orders = [tuple(rng.sample(async_labels, len(async_labels))) for _ in range(6 if quick else 40)]
                    orders.append(tuple(async_labels))
                    orders.append(tuple(reversed(async_labels)))
                for pi in orders:
                    loga = []
                    ctl = Controller()
                    h = [ctl]
                    wa = World(rng, h, beh, loga)
                    # a share of the runs goes through the documented extension point: executor_class = the base Executor
                    # or a trivial user subclass of it
                    xc = (None, BaseExecutor, UserExecutor)[nreq % 3]
                    xkw = {} if xc is None else {"executor_class": xc}
                    kind, res = ctl.run(lambda c: execute(schema, doc, wa.root(), **xkw), list(pi))
                    nreq += 1
                    ck.count("executor_class_" + ("default" if xc is None else xc.__name__))
                    key = f"order:{q}:{sorted(beh.items())!r}:{pi!r}:{'default' if xc is None else xc.__name__}"
                    rep = {"relation": "data(order) == data(sync)", "query": q, "behaviours": repr(sorted(beh.items())),
                           "order": repr(pi), "completed": repr(ctl.completed_order)}
                    ck.note_case((q, repr(sorted(beh.items())), pi), nontrivial=len(async_labels) >= 2 or bool(natural) or any(wh == "raise" for _, wh in beh.values()))
                    if kind in ("hang", "raised", "cancelled"):
                        ck.violation(key, f"execute() under completion order {pi!r} ended as {kind}: {res!r}", dict(rep, impl=kind))
                        continue
                    fa, fr = res.formatted, ref.formatted
                    if fa.get("data") != fr.get("data"):
                        ck.violation(key, f"data differs from the synchronous run for {q!r} under order {pi!r}",
                                     dict(rep, impl=fa.get("data"), reference=fr.get("data")))
                    for pr in wf(res, natural):
                        ck.violation(key, f"response ill-formed under order {pi!r}: {pr}", dict(rep, response=fa))
                    if getattr(ctl, "leftover_tasks", 0):
                        ck.count("runs_with_leftover_tasks")
                    if q.startswith("mutation"):
                        roots = [s.name.value if not s.alias else s.alias.value
                                 for s in doc.definitions[0].selection_set.selections]
                        seq = [roots.index(p[0]) for ev, p in loga if ev == "call"]
                        if any(b < a for a, b in zip(seq, seq[1:])):
                            ck.violation(key, f"root mutation fields not resolved serially: invocation order of root indices {seq}",
                                         dict(rep, relation="mutation roots strictly one after another", impl=seq))
                        # a root may start only after every awaitable below the previous roots has wound up
                        running = {}
                        for ev, p in loga:
                            if ev == "begin":
                                running[p] = roots.index(p[0])
                            elif ev == "end":
                                running.pop(p, None)
                            elif ev == "call" and len(p) == 1:
                                late = [q for q, ri in running.items() if ri < roots.index(p[0])]
                                if late:
                                    ck.violation(key, f"root mutation field {p[0]!r} started while {late[0]!r} of an earlier root field was still running",
                                                 dict(rep, relation="each root mutation field starts only after the previous one and its whole subtree completed",
                                                      impl=repr(late)))
                                    break
                    if memo_viol:
                        t, got, want = memo_viol[0]
                        ck.violation("memo:" + key, f"sub-selection memo returned the fields {got} for a field group whose sub-selection is {want} (type {t})",
                                     dict(rep, relation="memo hit only for the same field group", impl=got, model=want))
                        del memo_viol[:]
    finally:
        if undo:
            undo()
    nreq += is_type_of_scenarios(ck, quick)
    ck.count("runs", nreq)
    ck.samples.append({"query": QUERIES[0], "async": "slow", "order": "all"})
    # correspondence of the error algebra model on recorded add sequences is done in Properties (pure);
    # exercise the extracted model on random add sequences against a Python re-implementation of CollectedErrors
    if br.ok:
        m = Model("errorsalg")
        from graphql.execution.executor import CollectedErrors
        from graphql.pyutils import Path
        cases, meta = [], []
        for _ in range(300 if quick else 5000):
            seq = []
            for _ in range(rng.randint(1, 7)):
                seq.append([rng.randint(0, 2) for _ in range(rng.randint(0, 3))])
            enc = [1, len(seq)]
            for p in seq:
                enc += [len(p)] + p
            cases.append(enc)
            meta.append(seq)
        outs = m.run_batch(cases)
        for seq, out in zip(meta, outs):
            ce = CollectedErrors()
            kept = []
            for i, p in enumerate(seq):
                path = None
                for k in p:
                    path = Path(path, k, None)
                before = len(ce.errors)
                ce.add(("err", i), path)
                if len(ce.errors) > before:
                    kept.append(i)
            ck.note_case(("add", repr(seq)), nontrivial=len(seq) >= 2)
            if kept != out[1:1 + out[0]]:
                ck.violation(f"collected-errors:{seq!r}", f"CollectedErrors.add keeps errors {kept}, model keeps {out[1:1 + out[0]]} for positions {seq}",
                             {"relation": "CollectedErrors.add = model", "adds": seq, "impl": kept, "model": out})
    # the scheduling model Exec/Async.v (confluence proved) vs execute() under the controlled loop
    rule0 = ck.rule
    casync.core(ck, tier, br.ok)
    ck.extra["async_rule"] = ck.rule
    ck.rule = rule0 + " (scheduling model) see coverage.async_rule"
    return ck.finish()


def replay(path):
    d = json.loads(open(path).read())
    print(json.dumps(d, indent=1)[:3000])
    return 0
