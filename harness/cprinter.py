"""CPRINTER - print_ast part of C08: implementation printer vs the Coq model Lang/Printer.v.

Theorems: coq/theories/Properties/C08printer.v (the printed text of a well-formed tree lexes to
tokens_of(tree); text-level print/parse round trip; fixed point).
Correspondence: exact TEXT equality print_ast(tree) == extracted pp(tree) on parsed trees (corpus, fixtures,
generated documents/values/types under all flag combinations, line-length boundary families) and on
programmatic trees (string values of both forms replaced by adversarial values).
Stand-alone: ./check CPRINTER; as part of C08: cprinter.core(ck, tier, model_ok)."""
from __future__ import annotations

import dataclasses
import json
import re
import subprocess
import time

from . import cblock, common, cparser, gen_doc
from . import parsecorr as pc
from .common import Check, Model, cps, from_cps

PID = "CPRINTER"
THMS = "Properties/C08printer.v"
MODEL = "printer"

ASSUMPTIONS = [
    "CPRINTER model: Lang/Printer.v written from language/printer.py method by method (leave_* per node kind, join / "
    "wrap / indent / block / has_multiline_items / wrapped_line_and_args, the 80-column rules, the query short form "
    "rule of leave_document) over the generic tree Lang/Ast.v; strings are printed by the models Lang/PrintString.v "
    "and Lang/BlockString.v; visit() itself is modelled as 'children first' (C11 covers the traversal)",
    "a printed string is represented as a list of pieces (lexemes tagged with the token they denote, layout gaps); "
    "the text is their concatenation and is what the correspondence compares",
]

STR_VALUES = ["", "a", " a", "a ", "a\nb", "a\n b", " a\n b", "\na", "a\n", '"', 'a"', '"""', "\\", "a\\", "a\rb",
              "\t", "x\n\n  y", "\x0b", "\x7f", "\u2028", "\U0001F600", "a" * 75, "line1\n    line2\nline3"]


def impl_print(node):
    from graphql.language import print_ast
    try:
        return [0] + cps(print_ast(node))
    except RecursionError:
        raise pc.OutOfFragment("recursion limit")
    except Exception as e:  # noqa: BLE001
        return [2, type(e).__name__]


def describe(enc):
    if enc and enc[0] == 0:
        return {"text": from_cps(enc[1:])}
    if enc and enc[0] == 2:
        return {"raised": enc[1]}
    return {"other": enc[:40]}


# --------------------------------------------------------------------------- proofs accounting


def proofs(ck, br):
    """Check.proofs for a theorem file that is not named after the check id."""
    ck.checker_cmd = ("cd /verif/coq && coq_makefile -f _CoqProject <all theories/*.v> -o Makefile && make "
                      f"theories/{THMS}o && coqc -Q theories GV theories/{THMS}")
    deps = common.dep_closure([THMS])
    bad = common.scan_forbidden(deps)
    ck.extra["coq_files"] = deps
    if bad:
        ck.proof_breaks.append("forbidden construct: " + "; ".join(bad[:5]))
    f = common.COQ / "theories" / THMS
    names = re.findall(r"^\s*(?:Theorem|Lemma|Corollary)\s+(\w+)", f.read_text(), re.M) if f.exists() else []
    ck.theorems = names
    ck.obligations = len(names)
    ck.partial = [n for n in names if n.endswith("_partial")]
    if not br.ok:
        ck.discharged = 0
        ck.proof_breaks.append(f"build failed at {br.failed_file}: " + br.log[-800:])
        return False
    if not f.exists():
        return True
    lock = common._lock()
    try:
        p = subprocess.run(["timeout", "1200", "coqc", "-Q", "theories", "GV", "-w",
                            "-notation-overridden,-deprecated-hint-without-locality", f"theories/{THMS}"],
                           cwd=common.COQ, capture_output=True, text=True)
    finally:
        lock.close()
    out = p.stdout + p.stderr
    assumptions = []
    for b in re.split(r"(?=Closed under the global context|Axioms:)", out):
        if b.startswith("Closed under"):
            assumptions.append("Closed under the global context")
        elif b.startswith("Axioms:"):
            assumptions.append(" ".join(b.split())[:600])
    ck.print_assumptions = assumptions
    if p.returncode == 0 and len(assumptions) == len(names) and all(a.startswith("Closed") for a in assumptions):
        ck.discharged = len(names)
        return True
    ck.discharged = 0
    if p.returncode != 0:
        ck.proof_breaks.append(f"coqc {THMS} failed: " + out[-800:])
    else:
        ck.proof_breaks.append(f"{THMS}: {len(names)} theorems but Print Assumptions gave {assumptions}")
    return False


# --------------------------------------------------------------------------- tree sources


def string_nodes(node, acc):
    """All StringValueNode objects below `node` (values and descriptions)."""
    from graphql.language import Node
    from graphql.language.ast import StringValueNode
    if isinstance(node, StringValueNode):
        acc.append(node)
        return acc
    for f in pc.node_fields(type(node)):
        v = getattr(node, f)
        if isinstance(v, Node):
            string_nodes(v, acc)
        elif isinstance(v, (tuple, list)):
            for c in v:
                if isinstance(c, Node):
                    string_nodes(c, acc)
    return acc


def replace_strings(node, fn):
    """Copy of the tree with every StringValueNode replaced by fn(node) (programmatic tree)."""
    from graphql.language import Node
    from graphql.language.ast import StringValueNode
    if isinstance(node, StringValueNode):
        return fn(node)
    kw = {}
    for f in pc.node_fields(type(node)):
        v = getattr(node, f)
        if isinstance(v, Node):
            v = replace_strings(v, fn)
        elif isinstance(v, (tuple, list)):
            v = tuple(replace_strings(c, fn) if isinstance(c, Node) else c for c in v)
        kw[f] = v
    return dataclasses.replace(node, **kw) if dataclasses.is_dataclass(node) else type(node)(**kw)


def boundary_texts(rng, quick):
    """Documents whose one-line forms have lengths around the 80-column limits."""
    out = []
    for n in range(60, 100, 1 if not quick else 2):
        # field arguments: `f(a: "xxx")`, indented one level inside the selection set
        pad = "x" * max(n - 10, 0)
        out.append((0, '{ f(a: "%s") }' % pad))
        out.append((0, '{ alias: field(a: 1, b: "%s", c: [1, 2]) @d(x: "%s") { g } }' % (pad[:n // 2], pad[:10])))
        out.append((0, '{ ...F(a: "%s") @d }' % pad))
        out.append((0, 'query Q($v: [Int] = [%s]) { f(a: {k: "%s", l: [%s]}) }'
                    % (", ".join("1" * 3 for _ in range(n // 5)), pad[:n - 20], ", ".join(["12"] * (n // 8)))))
        out.append((1, '[%s]' % ", ".join(["1234"] * (n // 6))))
        out.append((1, '{a: "%s"}' % pad))
        out.append((1, '{a: {b: {c: ["%s", {d: "%s"}]}}}' % (pad[:n // 2], pad[:n // 2])))
        out.append((2, '[[%s], "%s"]' % (", ".join(["true"] * (n // 7)), pad[:n // 3])))
        out.append((0, 'type T { f(a: Int = %d, b: String = "%s"): T @d(r: "%s") }' % (n, pad[:n // 2], pad[:n // 3])))
        out.append((0, 'directive @dd(a: Int = %d, b: String = "%s") repeatable on QUERY | FIELD' % (n, pad)))
    out += [
        (0, "{ a }"), (0, "query { a }"), (0, "query Q { a }"), (0, "mutation { a }"), (0, "{ a { b { c { d } } } }"),
        (0, '"d" query { a }'), (0, '"""d""" query Q($a: Int) @x { a }'), (0, "query ($a: Int = 1 @d, $b: [T!]!) { a }"),
        (0, 'query Q("desc" $a: Int, """block\n  desc""" $b: Int) { a }'),
        (0, "scalar S { a }"), (0, "type T query { a }"), (0, "enum E query { a }"), (0, "type T { a: Int } { a }"),
        (0, "extend schema @d query { a }"), (0, "union U = A | B { a }"), (0, "scalar S @d(a: {b: 1}) { a }"),
        (0, "{ a } { b }"), (0, "fragment F on T { a } { b }"), (0, "{ a(x: {}) b(y: []) }"),
        (0, '{ a(s: """block""", t: "q", u: """\n  two\n    lines\n""") }'),
        (0, '{ a(arg: """\n    indented\n  less\n""") { b(arg: """x\ny""") } }'),
        (0, 'type T {\n  """field\n  desc"""\n  f(\n    """arg desc"""\n    a: Int\n    "q" b: Int\n  ): Int\n}'),
        (0, '"""T desc""" type T implements A & B @d { "fd" f: Int }'),
        (0, 'directive @a("""d""" x: Int) on QUERY'), (0, 'directive @a("d" x: Int, y: Int = 1 @e) repeatable on QUERY | FIELD'),
        (0, '"s" schema @d { query: Q mutation: M }'), (0, "extend type T implements I"), (0, "extend union U = A"),
        (0, "extend enum E { A @d }"), (0, "extend input I { a: Int = 1 }"), (0, "extend interface I implements J @d { f: T }"),
        (0, "extend scalar S @d"), (0, "interface I implements J & K { f(a: [Int!]! = [1]): T! }"),
        (0, "enum E { A B @d \"\"\"c\"\"\" C }"), (0, "input I { a: Int = 1 @d b: [I] }"),
        (0, "{ ... on T { a } ... @d { b } ...F }"), (0, "fragment F on T @d { a }"),
        (1, "$v"), (1, "null"), (1, "true"), (1, "ENUM"), (1, "-1.5e+10"), (1, '""'), (1, '""""""'), (1, "[]"), (1, "{}"),
        (3, "[[T!]!]!"), (3, "T"), (4, "T.f(a:)"), (4, "@d(a:)"), (4, "T.f"), (4, "@d"), (4, "T"),
    ]
    return out


def parsed_trees(tier, rng):
    """(label, which, xfa, xdd, text) of sources to parse with the implementation."""
    quick = tier == "quick"
    for c in common.load_corpus("CPARSER") + common.load_corpus(PID):
        yield "corpus", c.get("entry", 0), c.get("xfa", False), c.get("xdd", False), from_cps(c["text"])
    for f in gen_doc.fixtures():
        yield "fixture", 0, True, True, f
    for which, t in boundary_texts(rng, quick):
        yield "boundary", which, True, True, t
    ndocs = 120 if quick else 1500
    for (xfa, xdd) in cparser.FLAGS:
        for j in range(ndocs):
            g = gen_doc.Gen(rng, depth=rng.choice([1, 2, 2, 3]), experimental=False)
            g.exp = xfa
            lex = g.document()
            if xdd and not xfa:
                g.exp = True
                lex = lex + g.type_def(ext=rng.random() < 0.3)
                g.exp = False
            yield "gen", 0, xfa, xdd, gen_doc.join_min(lex)
        for j in range(ndocs):
            g = gen_doc.Gen(rng, depth=3, experimental=xfa)
            c = rng.random() < 0.5
            yield "gen", (2 if c else 1), xfa, xdd, gen_doc.join_min(g.value(c))
            yield "gen", 3, xfa, xdd, gen_doc.join_min(g.type_ref(3))


# --------------------------------------------------------------------------- the check


def run(tier):
    ck = Check(PID, tier)
    ck.assumptions += ASSUMPTIONS
    has = (common.COQ / "theories" / THMS).exists()
    br = common.build(PID, models=(MODEL,), extra_targets=(f"theories/{THMS}o",) if has else ())
    proofs(ck, br)
    core(ck, tier, br.ok)
    return ck.finish()


def core(ck, tier, model_ok):
    """The printer correspondence and the direct round-trip predicate, reporting into `ck`
    (used by `./check CPRINTER` and as the printer part of `./check C08`)."""
    from graphql.language.ast import StringValueNode
    m = Model(MODEL) if model_ok else None
    quick = tier == "quick"
    rng = ck.rng
    ck.rule = (
        "print_ast(tree) vs the extracted model Lang/Printer.v, exact text, on (parsed) the trees the implementation parses "
        "from the CPARSER corpus, the kitchen-sink fixtures, grammar-generated documents / values / types under the four "
        "experimental-flag combinations, and boundary families (argument lists, list and object values, field and "
        "directive definitions whose one-line forms have lengths 60..99; short forms after every kind of definition; "
        "descriptions of both forms; empty lists / objects; schema coordinates); (programmatic) the same trees with "
        "every string value and description replaced by adversarial values in both forms (block flag flipped, values "
        "with quotes, backslashes, blank lines, indentation, control characters, 75 characters). For every tree that "
        "satisfies the side conditions of C08_print_parse_roundtrip the implementation must also satisfy "
        "parse(print_ast(t)) == t and print_ast(parse(print_ast(t))) == print_ast(t). non-trivial = the printed text has "
        "at least 8 characters")
    t0 = time.time()
    seen = set()
    batch = []  # (label, which, xfa, xdd, tree, wire)

    def add(label, which, xfa, xdd, tree):
        try:
            w = pc.enc_node(tree)
        except pc.OutOfFragment:
            ck.count("skipped_out_of_fragment")
            return
        key = (which, tuple(w))
        if key in seen:
            return
        seen.add(key)
        batch.append((label, which, xfa, xdd, tree, w))

    def roundtrip_ok_side(tree):
        """side conditions of the theorem on string values: scalar values; block values in the lexer's range"""
        for s in string_nodes(tree, []):
            v = s.value
            if any(0xD800 <= ord(c) <= 0xDFFF for c in v):
                return False
            if s.block and not cblock.in_range_py(v):
                return False
        return True

    def flush():
        if not batch:
            return
        want = m.run_batch([[2] + b[5] for b in batch]) if m is not None else [None] * len(batch)
        for (label, which, xfa, xdd, tree, w), mo in zip(batch, want):
            try:
                got = impl_print(tree)
            except pc.OutOfFragment:
                ck.count("skipped_out_of_fragment")
                continue
            text = from_cps(got[1:]) if got[0] == 0 else ""
            ck.note_case((label, which, tuple(w)), nontrivial=len(text) >= 8)
            ck.count(f"print_{label}")
            replay = {"kind": "print", "entry": which, "xfa": xfa, "xdd": xdd, "tree": w, "impl": describe(got),
                      "model": describe(mo) if mo is not None else None}
            if got[0] != 0:
                if label != "programmatic":
                    ck.violation(f"print-raises:{w!r}"[:300], f"print_ast raised {got[1]} on a parsed tree",
                                 dict(replay, relation="print_ast total on parser outputs"))
                else:
                    ck.count("skipped_out_of_fragment")
                continue
            if mo is not None and mo != got:
                ck.violation(f"print:{text!r}"[:300],
                             f"print_ast gives {text[:160]!r} but the model gives {str(describe(mo))[:200]}",
                             dict(replay, relation="print_ast = model Lang/Printer.v (exact text)"))
            # direct statement on the implementation
            if roundtrip_ok_side(tree):
                try:
                    d2 = pc.impl_call(which, text, None, xfa, xdd)
                    same = pc.enc_node(d2) == w
                    why = "a different tree"
                    if same:
                        from graphql.language import print_ast
                        same = print_ast(d2) == text
                        why = "a different text when printed again"
                except RecursionError:
                    continue
                except Exception as e:  # noqa: BLE001
                    same, why = False, f"{type(e).__name__}: {str(e)[:80]}"
                ck.count("roundtrip_checked")
                if not same:
                    ck.violation(f"print-roundtrip:{text!r}"[:300],
                                 f"parse(print_ast(t)) != t: printed {text[:160]!r} gives {why}",
                                 dict(replay, relation="parse(print_ast(t)) == t and print fixed point"))
        batch.clear()

    nprog = 2 if quick else 6
    for label, which, xfa, xdd, text in parsed_trees(tier, rng):
        try:
            tree = pc.impl_call(which, text, None, xfa, xdd)
        except RecursionError:
            ck.count("skipped_out_of_fragment")
            continue
        except Exception:  # noqa: BLE001
            ck.count("source_rejected")
            continue
        add(label, which, xfa, xdd, tree)
        if which != 4 and string_nodes(tree, []):
            for _ in range(nprog):
                def fn(s):
                    r = rng.random()
                    if r < 0.3:
                        return StringValueNode(value=s.value, block=not s.block)
                    v = rng.choice(STR_VALUES) if r < 0.8 else "".join(
                        rng.choice(cblock.ALPHA14) for _ in range(rng.randint(1, 6)))
                    return StringValueNode(value=v, block=rng.random() < 0.5)
                try:
                    add("programmatic", which, xfa, xdd, replace_strings(tree, fn))
                except Exception:  # noqa: BLE001
                    ck.count("skipped_out_of_fragment")
        if len(batch) >= 3000:
            flush()
    flush()
    ck.extra["t_printer_s"] = round(time.time() - t0, 1)
    ck.extra["printer_rule"] = ck.rule
    if m is not None:
        ck.exhaustive = False


def wire_to_node(w, i=0):
    """wire (Ast.enc_node) -> (implementation node, next index)."""
    import inspect

    from graphql.language import ast
    from graphql.language.ast import OperationType
    global _CLASSES
    try:
        _CLASSES
    except NameError:
        _CLASSES = {}
        for _n, cls in inspect.getmembers(ast, inspect.isclass):
            k = getattr(cls, "kind", None)
            if issubclass(cls, ast.Node) and k in pc.KIND_INDEX and not _n.startswith("Const"):
                _CLASSES.setdefault(k, cls)
    cls = _CLASSES[pc.KINDS[w[i]]]
    n = w[i + 1]
    i += 2
    vals = []
    for _ in range(n):
        t = w[i]
        i += 1
        if t == 0:
            vals.append(None)
        elif t == 1:
            x, i = wire_to_node(w, i)
            vals.append(x)
        elif t == 2:
            m = w[i]
            i += 1
            l = []
            for _ in range(m):
                x, i = wire_to_node(w, i)
                l.append(x)
            vals.append(tuple(l))
        elif t == 3:
            m = w[i]
            vals.append("".join(map(chr, w[i + 1:i + 1 + m])))
            i += 1 + m
        elif t == 4:
            vals.append(bool(w[i]))
            i += 1
        else:
            vals.append(list(OperationType)[w[i]])
            i += 1
    return cls(**dict(zip(pc.node_fields(cls), vals))), i


def replay(path):
    """Re-evaluate a recorded failing tree on the current /repo and the current model."""
    d = json.loads(open(path).read())
    print(json.dumps({k: v for k, v in d.items() if k != "tree"}, indent=1, default=repr)[:3000])
    if "tree" not in d:
        return 0
    w = d["tree"]
    print("tree:", pc.dec_node(w)[0])
    has = (common.COQ / "theories" / THMS).exists()
    br = common.build(PID, models=(MODEL,), extra_targets=(f"theories/{THMS}o",) if has else ())
    want = Model(MODEL).run_batch([[2] + w])[0] if br.ok else None
    tree = wire_to_node(w)[0]
    got = impl_print(tree)
    print("impl now :", describe(got))
    print("model now:", describe(want) if want is not None else "(model not built)")
    fails = want is not None and got != want
    if got[0] == 0 and d.get("kind") == "print" and "roundtrip" in d.get("relation", ""):
        text = from_cps(got[1:])
        try:
            d2 = pc.impl_call(d.get("entry", 0), text, None, d.get("xfa", False), d.get("xdd", False))
            same = pc.enc_node(d2) == w
        except Exception as e:  # noqa: BLE001
            same = False
            print("re-parse :", type(e).__name__, str(e)[:100])
        print("parse(print_ast(t)) == t:", same)
        fails |= not same
    print("FAILS" if fails else "passes")
    return 1 if fails else 0
