"""Writes MANIFEST.json from the table below (keeps the file valid and in one place)."""
import json
from pathlib import Path

V = Path(__file__).resolve().parent.parent

CHECKS = {
    "C10": dict(
        text="Coq theorems about the model of Source.get_location, the lexer's line bookkeeping and the COMPLETE rendering print_source_location/print_prefixed_lines (all texts, all offsets, all location offsets): location = spec (LF, CR LF once, CR; nothing else), every token carries get_location(start), the rendering never fails (every index access in range, both the ordinary and the >120-character sub-line branch), the excerpt rows are exactly previous/named/next line resp. the first 80*(col div 80+1) characters of the named line, and the printed column-1 is the length of the text between the last terminator and the offset (plus first-line padding); tied to the code by exhaustive correspondence over short strings x offsets x location offsets incl. exact rendered text, long-line families, all tokens, all syntax-error renderings and templated validation/execution errors",
        note="model hand-written (Lang/Location.v, Lang/Render.v); tie = extracted model vs impl on every run (rendered text compared character by character); observation, not a violation of the property text: for a column that is a multiple of 80 on a >120-character line the caret is drawn under the first character of the next sub-line (divmod(column, 80), same as graphql-js)",
        technique="Coq proof (induction on text; rendering totality and excerpt characterisation) + extraction-based correspondence",
        design="4/C10"),
}

CHECKS["C01"] = dict(
    text='Coq theorems: both lexer models and all five parser entry points (parse, parse_value, parse_const_value, parse_type, parse_schema_coordinate; full grammar incl. SDL, extensions and experimental syntaxes) are total on every code-point list: the outcome is a tree or a syntax error with an in-bounds position, never a crash, and the stated fuel never runs out; an escape is accepted only when all its characters exist. Tied to the code by exhaustive lexer correspondence on short strings and parser correspondence (outcome class, error position, whole tree) on the corpus, all short strings, coordinates, fixture prefixes and token mutants; graphql_sync with hostile variables/operation names/raising resolvers is explored directly against the response-format predicate',
    note="lexers and parser modelled and proved total; validation/execution totality is explored on the implementation, not proved; Exception subclasses only; nesting <= 100 (deeper input may hit CPython's recursion limit, which the model does not have)",
    technique='Coq proof (lexer and parser totality) + extraction-based correspondence + direct totality search',
    design="4/C01")
CHECKS["C09"] = dict(
    text="Coq theorems: the lexer model (written from the lexical grammar) tiles every accepted source into ignored-only gaps and non-empty lexemes with ordered, disjoint, in-bounds spans; the parser model's result depends only on the significant-token sequence (C09_parse_independent_of_layout), a source the lexer rejects is rejected by the parser, and the token limit is exact (accepts n tokens, rejects n+1; C09_token_limit); the implementation's character-class/punctuator/ignored/line-terminator tables are re-swept on every run and proved equal to the specification's; implementation lexer = model on all short strings and generated sources (kinds, spans, values, lines/columns, reject positions); parser = model on token-alphabet sequences and generated documents incl. max_tokens n-1/n/n+1; strip_ignored_characters is modelled (Lang/Strip.v) and proved for every code-point list: the stripped text lexes to the same significant (kind, value) tokens, stripping is idempotent, unlexable sources are rejected at the same position and nothing else is, the output is tight (no comment, no ignored character outside string lexemes except exactly the rule's single spaces), and it parses to the same tree (C09_strip_*); implementation strip = extracted model on all strings <=4/5 over the 16-symbol alphabet, generated documents with random ignored insertions and a block-string family (exact text or error position); ignored-sequence insertion laws checked directly",
    note="lexer, parser and strip_ignored_characters modelled and proved (block-string re-printing incl. surrogate pairs: Lang/StripBlock.v); the relation between the model's eager token loop and the implementation's lazy lexing with incremental concatenation is tied by exact-output correspondence; insertion of ignored sequences remains a metamorphic check on the implementation, proved at token level by C09_parse_independent_of_layout",
    technique='Coq proof (lexer spans, parser layout independence and token limit, strip laws, regenerated table obligations) + extraction-based correspondence + metamorphic checks',
    design="4/C09")

CHECKS["C11"] = dict(
    text="Coq theorems about the recursive traversal model: non-editing visitors always get 'keep' (identity), parallel non-editing visitors see exactly their solo call sequence incl. under SKIP and BREAK (C11_parallel_projection), the all-idle visitor's call log is the DFS enter/leave bracket sequence with the stated key/path/#ancestors and depth fuel suffices; QUERY_DOCUMENT_KEYS re-swept against the node classes every run. The explicit-stack loop of visit() (Stack frames, edits lists with edit_offset, path/ancestors, SKIP/BREAK/REMOVE/replacement on enter and leave, root included) is modelled step by step (Lang/VisitMachine.v) and PROVED to refine the recursive model for every tree and every visitor incl. all edits: same call log, visitor state and result, never stuck, explicit step bounds (C11_machine_refines_model, C11_machine_fuel_sufficient; identity, DFS order and parallel projection transferred to the machine). The real visit()/ParallelVisitor is tied to both models by correspondence on generated ASTs of all node kinds x scripted visitors (idle/skip/break/remove/replace on enter/leave) x parallel groupings: call logs, result trees, identity, input snapshots, context at every call",
    note='machine-level: never raises / runs out of fuel whenever the recursive model terminates (a visitor whose enter-replacements nest without bound makes the real loop diverge too); the value returned after a BREAK that follows an edit is modelled and compared but not a property observable; reflection-based method dispatch only explored',
    technique='Coq proof (recursive traversal model + refinement proof of the explicit-stack machine by simulation) + extraction-based correspondence of both models with scripted visitors',
    design="4/C11")

CHECKS["C08"] = dict(
    text="Coq theorems: for every string of Unicode scalar values the lexer model reads print_string's output back to exactly that string (escape table regenerated from the implementation every run); for every block-string value in the lexer's range print_block_string's output lexes back to the value (C08_block_roundtrip, range characterised, out-of-range refuted with witness); for every well-formed tree of the full grammar, parsing the unparsed token sequence gives the tree back (C08_unparse_parse_roundtrip) and every parser output is well formed. Tied by extraction-based correspondence: print_string / print_block_string vs models on exhaustive alphabets; tokens_of(model tree) = re-lexed print_ast(impl tree), parse(print_ast d) == d and whole-tree equality on the corpus and generated documents; programmatic trees with both string forms at nesting depths 0-3; print fixed point",
    note="the model's unparse produces a token sequence; print_ast's concrete layout (indentation, line breaking at 80 columns, block-string choice) is tied to it by the re-lex correspondence, not proved; programmatic trees outside the parser's range (e.g. names that are not Names) are out of the property's scope",
    technique='Coq proof (quoted and block string round trip, unparse-parse round trip) + extraction-based correspondence and generated round-trip exploration',
    design="4/C08")

CHECKS["C03"] = dict(
    text="Coq theorems about the CollectedErrors algebra: every raised error lies at or below a kept nulled position; the outermost nulled positions are independent of the arrival order of errors and of dropping (cancelling) attempts that lie below another handled position. The schedule quantifier itself is explored: a controlled event loop completes awaitables in chosen orders (all permutations for small sets) and the response must equal the implementation's fully synchronous run, be well formed, keep root mutation fields serial, and every memoised sub-selection must equal a fresh computation",
    note="theorems are _partial w.r.t. the property: the asyncio runtime (gather/cancel, CPython allocator) is not modelled; completion orders are explored, address reuse is provoked and detected, not enumerated",
    technique="Coq proof (error/null-position algebra) + controlled-event-loop schedule exploration with memo monitor",
    design="4/C03", category="proof")
CHECKS["C07"] = dict(
    text="Coq theorems about the pull-driven subscription pipeline machine for every source, every per-event execution function and every interleaving of pulls/source readiness/callback completion: delivered ++ still-due = the specified stream (one response per event before the first failure, in order, then failure or end); tied to the code by running real subscriptions on generated schemas/documents/event sequences/failure positions/source kinds/timings: response i = execute_sync(event i) = Spec model (C02's oracle), count/order/termination, creation failures -> single errors-only response, recorded traces accepted by the extracted machine",
    note="per-event oracle limited to the C02 fragment; asyncio interleavings are explored by timing modes, not enumerated; documents are validated first (root-level @skip/@include is rejected by validation)",
    technique="Coq proof (pipeline machine invariant) + extraction-based correspondence and trace acceptance",
    design="4/C07")

CHECKS["C04"] = dict(
    text="Coq theorems. (1) build_execution_plan: the plan is a partition of the grouped field set, a key stays initial iff its filtered defer-usage set equals the parent set, filtered sets contain no usage with an ancestor in the set, a key with a non-deferred field node is never deferred, one-level reassembly. (2) The @defer part of the incremental executor is modelled (Incr/DeferExec.v: collect_fields with parent-linked defer usages, build_execution_plan, execution groups and their sub-executors, nested to any depth, lists, abstract types) on top of C02's specification model. Proved: if the same request is error-free on the base executor, the incremental run is error-free and merging its payloads with the Incr/Merge.v oracle - in the model's order and in EVERY order in which the merge can be carried out - yields that data up to object key order (C04_defer_reassembly_partial); the base run equals Exec/Spec.v's execution of the document with @defer erased, for any errors; disabled (if:false by literal or variable) or absent @defer gives no payload and Spec's answer; a key with a non-deferred occurrence is in the initial data. Tie: type-directed requests with generated @defer placements (labels, if, nested, overlapping, same field deferred and not) against the real experimental_execute_incrementally (initial data incl. key order, pending groups, execution groups, failed groups, merged data, resolver calls). Real incremental runs incl. @stream, defers inside streams, async resolvers under explored completion orders and early execution on/off are merged by the extracted merge oracle and must equal the implementation's execution with the directives removed (error-free) / be contained in the non-propagating reference with nothing lost (error runs)",
    note='reassembly theorems are _partial: @stream, async resolvers/early execution (only the arrival order of the same payloads is free) and responses with field errors are outside the model; the tie to Spec assumes no fragment was collected both deferred and non-deferred in one selection set (checked equal on those runs); which nested groups are announced and under which id a value arrives is decided by the work queue (C05); schedules are sampled',
    technique='Coq proof (execution plan partition; executable @defer executor model with nested reassembly for every applicable payload order) + extraction-based correspondence + merge-oracle reassembly check under a controlled event loop',
    design="4/C04")

CHECKS["C20"] = dict(
    text="Coq model `validate : raw_schema -> list rule_kind` of type/validate.py over raw (possibly ill-kinded) schemas. Proved: the assert site of default-value validation and fuel exhaustion are unreachable for every schema; `validate rs = [] <-> ValidSchema rs` for a declarative rule set covering every rule of validate.py (inductive Subtype and LitValid relations, acyclicity by reachability); both DFS cycle detectors terminate (fuel = #types / #input fields), are sound and complete; per-kind iff for input/output position, invalid default, required-deprecated and both cycle kinds. Correspondence: generated valid schemas, single (all-sites) and double rule-violating mutants, and grammar-random ill-kinded schemas, built programmatically and from SDL (with/without SDL pre-validation, with extensions); compared on raise / emptiness / set of rule kinds / graphql_sync response",
    note="every rule of validate.py is in the model; not modelled: error node/location lists and message wording, order of errors, the _validation_errors cache, assume_valid=True; defaults modelled for const literals and plain Python values, custom scalars accept everything; history-dependent construction paths covered: to_kwargs() of a validated schema, extend_schema, lexicographic_sort_schema; not generated: constructor-rejected inputs, NonNull-of-NonNull; the dump of the built schema and the message-to-kind classifier are trusted harness code; no refinement proof ties validate.py's control flow to the model (correspondence only)",
    technique="Coq proof (validator reflects declarative rules; cycle detectors sound and complete) + extraction-based correspondence on mutants",
    design="4/C20")

CHECKS["C14"] = dict(
    text="Specification's FieldsInSetCanMerge/SameResponseShape as an executable Coq function proved terminating on all documents (cyclic spreads included) and adequate w.r.t. an inductive declarative reading; the rule's two memo tables (PairSet, OrderedPairSet) modelled exactly with their laws proved; the memoised algorithm (steps A-J) modelled and proved never to skip a comparison on a weaker memo entry. The memoised algorithm is proved terminating, proved never to hide a conflict of the specification function on any document (cyclic fragments included, C14_memo_never_hides), and proved equivalent to it for documents without named fragments (C14_equiv_partial); the converse direction with fragments is checked on every run by comparing the real rule, the extracted specification function and the extracted memoised model on generated documents (also location-free ASTs), including the real rule's memo decision trace",
    note="names interned; out of fragment (skipped and counted): untypable fields, __schema/__type, fragment arguments, @stream, duplicate argument names, block-string arguments; literal identity = same kind and source text after sorting input-object keys; C14_equiv proved only for fragment-free documents",
    technique="Coq proof (spec function terminates and is adequate; memo laws) + extraction-based differential correspondence",
    design="4/C14")
CHECKS["C12"] = dict(
    text='validate() modelled as one traversal with a parallel composition of abstract non-editing rule visitors (private state, SKIP/BREAK) and an error sink with limit; proved for all rule sets and documents: limit = prefix + abort notice, together = per-rule projection / permutation of alone (general, incl. SKIP and BREAK), excluded (description) slots never visited. Twelve concrete rules that never consult the schema (ExecutableDefinitions, UniqueOperationNames, LoneAnonymousOperation, KnownFragmentNames, UniqueFragmentNames, NoUnusedFragments, NoFragmentCycles, UniqueVariableNames, NoUndefinedVariables, NoUnusedVariables, UniqueArgumentNames, UniqueInputFieldNames) are modelled as executable functions of the parser AST written as the code is (first-wins scans, last-definition-wins fragment table, work list of referenced fragments, cycle DFS, recursive variable usages) and proved, for all trees: reported errors = declarative violations with exact multiplicities, fuel sufficient incl. cyclic fragments, cycle search sound and (with unique fragment names; necessity shown by example) complete, independent of descriptions and of layout; tied to the implementation rule by rule alone and inside validate() in three rule orders (multisets of (rule, node paths)). The remaining rules, TypeInfo and the context caches: rule independence, determinism, non-mutation and invariance under reprint/ignored characters/descriptions/location-free ASTs are searched for counterexamples on the implementation (every specified rule alone vs together, subsets, orderings, max_errors, metamorphic rewrites, snapshots)',
    note="proved per rule for 12 of the ~30 rules; the schema-dependent rules, TypeInfo and the ParallelVisitor/SKIP mechanics of concrete rules remain checked by alone-vs-together only; the extraction layer of the rule models (key table, spread order, usages) is tied by correspondence; the concrete rules are not yet instances of the abstract Compose.rule visitors (the link is the correspondence); messages compared implementation-vs-implementation only, locations as AST node paths; 'never raises' is C01's subject",
    technique='Coq proof (composition mechanism: limit, projection, permutation; per-rule soundness/completeness for 12 concrete rules) + extraction-based differential correspondence + alone-vs-together and metamorphic exploration',
    design="4/C12")

CHECKS["C16"] = dict(
    text="Coq theorems (12, closed) over a model of scalars.py, enum lookup and complete_leaf_value with floats as exact dyadics: Int results within 32 bits, Float finite, String/ID text, Boolean bool, enum a declared name (Python equality True == 1 == 1.0 on hashable and unhashable paths); an int is accepted by Float exactly when exactly representable in binary64 and the emitted float has that value; float->Int / number->ID only for integral floats; every emitted value is re-accepted by the same type's input coercion with the same meaning; otherwise an error. Tied by extraction-based correspondence against coerce_output_value and execute_sync over a value universe (bools, huge ints, edge floats, numeric-looking strings, bytes, containers, objects) plus direct predicates",
    note="CPython's int(str), float(str), float repr and the int-to-string digit limit are per-case oracles (theorems hold for every oracle); custom scalars and Python Enum members not modelled",
    technique="Coq proof (scalar/enum domains, precision, re-acceptance) + extraction-based correspondence",
    design="4/C16")
CHECKS["C15"] = dict(
    text="Coq theorems (8, closed): coerce_input_value / coerce_input_literal are Invalid exactly when validate_input_value / validate_input_literal report (literal version under hypotheses shown necessary by counterexample theorems); results conform to the type (32-bit Int, finite Float, declared enum value, exactly the declared fields with defaults applied, exactly one non-null OneOf entry, no null under non-null); value -> literal -> coerce round trip; variable coercion yields errors or a conforming value; answers are fuel-independent once settled. Tied by extraction-based correspondence against the seven real functions and execute_sync on generated input types x values x literals x variable maps (valid bit, coerced value, error paths)",
    note="C15_rule_agrees_partial: the static literal validator agrees with coercion on constants, but the ValuesOfCorrectTypeRule traversal (TypeInfo + visitor) is tied by correspondence only; fragment: built-in scalars, enums, recursive and OneOf input objects with literal defaults; fragment variables, custom scalars, out_name, max_errors, stateful iterators, non-str dict keys not modelled; no closed-form fuel bound (stability only)",
    technique="Coq proof (coerce/validate agreement, conformance, round trip) + extraction-based correspondence",
    design="4/C15")

CHECKS["C02"] = dict(
    text="Coq theorems over a hand-written Gallina model of the specification's execution algorithm (CollectFields, ExecuteSelectionSet/Field, CoerceVariable/ArgumentValues incl. input objects/OneOf/defaults, CompleteValue, error propagation), for all schemas/documents/variables/data of the fragment: response shape (keys = collected response keys in first-appearance order, null only where nullable, leaf/list/object kinds, runtime types), every error path leads to a null at it or an ancestor, null data iff an error propagated to the root, every null is a null value or has an error at or below, resolver arguments = coerced arguments, fuel independence; tied to /repo by extraction-based correspondence on type-directed generated requests (data incl. key order, error-path multiset, resolver call log), each executed three times for history independence",
    note="the specification model is a trusted reading of spec section 6; equality of /repo to it is explored by generation, not proved; no Impl layer for the memo caches (history independence is trivial in the pure model and tested on /repo by re-execution; the sub-selection memo is additionally monitored in C03); OutOfFuel is excluded in the statements; custom scalars, lenient leaf serialisation (C16), middleware, fragment arguments, defer/stream, async are outside",
    technique="Coq proof (spec-model invariants) + extraction-based correspondence + re-execution history check",
    design="4/C02")
CHECKS["C13"] = dict(
    text="Coq theorem C13_sound (total for the fragment incl. fragments, abstract types, variables with defaults, input objects/OneOf): a document accepted by the model's typing judgment, with accepted variables none of which is a null in a non-null position, over conforming data on a schema with valid defaults executes with no errors, non-null data and the prescribed shape; C13_errors_attributable: with arbitrary data no error is due to argument/variable coercion; the spec-deferred null-variable exception is characterised exactly with a witness; the checkers the harness runs (typing, shape) are proved sound. validate()==[] implies well_typed, and error attribution on /repo, are checked on generated documents and mutants",
    note="validate() => well_typed is established by generation, not proved (the 31 rules are not modelled; the judgment is a runtime-type-directed abstraction of the rules execution depends on); transfer to /repo goes through C02's correspondence",
    technique="Coq proof (type soundness of the execution model) + extraction-based checker correspondence + error-attribution search",
    design="4/C13")

CHECKS["C05"] = dict(
    text="Coq: validator meaning (ids never reused, each announced before completed, completed at most/exactly once, hasNext true except last), stream-queue order law, termination exactly once and publisher+protocol for every node-level well-formed event trace are proved over all traces; enabled->valid(publish(run)) and the graph invariant are proved by induction for flat work (no nested work) under an executable initial-state hypothesis; for nested work they are established by exhaustive exploration inside Coq on an explicit family of 49 graphs (all sequences <=5; all sequences for 39) and by the extracted explorer on generated graphs. The real WorkQueue/IncrementalPublisher/StreamItemQueue are tied to the model by driving them in a real event loop on generated graphs x event orders; end-to-end @defer/@stream payload streams under explored schedules are checked by the extracted and an independent Python validator (targets applied in order, every target and announced path must exist)",
    note="core theorem is _partial: flat fragment + init_ok hypothesis; nested work bounded/exhaustive only; data existence only in the Python validator (abstracted in Coq to the creation-order rule); asyncio pacing abstracted to one graph event per settled future; sync-completing tasks only end to end",
    technique="Coq proof (induction over traces + in-Coq exhaustive exploration by vm_compute on a stated finite family) + extraction-based correspondence with the real scheduler + protocol validator on real payload streams",
    design="4/C05")
CHECKS["C06"] = dict(
    text="Stopping early never hangs or leaks: bookkeeping machines (Computation, StreamItemQueue control incl. bounded queue/parked producer, cancel walk, work-finished hook, aclosing) are proved to run/close/fire at most and exactly once on all event traces; real requests are stopped at every quiescent point (aclose, abort, resolver/source failure, early execution on/off) and checked for caller release, no pending task, every started source closed once, hook once and only after the work settled; recorded traces are accepted by the extracted machines; bounded-exhaustive direct drives of Computation/StreamItemQueue/map_async_iterable",
    note="proof for the bookkeeping machines (3 StreamItemQueue theorems _partial: no swallowed-cancellation producer, no batching, macro steps); exploration only for runtime quiescence/promptness (all_tasks after 40-160 drain iterations, 2 s wait_for); F1 (aclose before the first anext) is a known unrepaired finding printed as KNOWN-FINDING; background-settled work tolerated after a stop only if reachable from Executor.background_futures",
    technique="Coq proof (control machines over all event traces) + extraction-based trace acceptance and direct drives + leak predicates on real runs in fresh event loops",
    design="4/C06")

CHECKS["C17"] = dict(
    text="Coq theorems over a definition-list model of print_schema / build_ast_schema: build(sdl_of s) = s for every schema with a query root (all kinds/members/defaults/descriptions/deprecations/directives/roots in order), print idempotence for every schema, kind-independent schema-block omission rule, no changes under C19's detector; tie: extracted sdl_of = parse(print_schema s) as AST and extracted build = build_schema on every generated case; the property's laws evaluated directly on SDL-built and programmatic schemas over adversarial texts, description probes at every site and default-value probes",
    note="C17_build_sdl_of_partial: the text level (block/quoted string and literal printing/lexing) is not in this model; it is covered by the direct laws here and by C08's theorems; deprecated directive definitions are rebuilt with the experimental parser flag; programmatic schemas list the specified directives; no lone surrogates",
    technique="Coq proof (definition-list model of print_schema/build_ast_schema) + extraction-based correspondence + direct round-trip laws",
    design="4/C17")
CHECKS["C18"] = dict(
    text="Coq theorems over a JSON model of the introspection result: the result under any of the 2^7 option combinations = prune of the full result; __type(name) = the type-list entry; build_client(introspect s full) = s and re-introspection is identical (for a round-tripping literal printer/parser, <= 9 type wrappers, kind-canonical containers); tie: extracted introspect/prune/type_lookup/build_client vs the implementation; direct: every sampled combination validates/executes without errors/conforms to the introspection types/equals prune(full), lookups, ad-hoc selections with random includeDeprecated vs projection of the full result, client schema prints/diffs/dumps/re-introspects identically",
    note="round-trip theorems are _partial: default values are carried as print_ast text (printer/parser is a hypothesis), <= 9 wrappers; conformance to the introspection types is checked on the implementation, not proved; quick samples 18 of the 128 combinations per schema (thorough: all 128)",
    technique="Coq proof (JSON model of introspection, prune, build_client) + extraction-based correspondence + direct laws",
    design="4/C18")
CHECKS["C19"] = dict(
    text="Coq theorems over sort/diff/extend/build models (sort order a parameter, the implementation's natural order proved total): sort permutes every container and changes nothing else, is idempotent, diff is reflexive and order-insensitive, sorting introduces no diff, every reported change of every kind has a witness difference (C19_diff_sound), no-op extension is the identity, extend(build A, B) = build(A ++ B) in any definition order incl. operation types; tie: natural order, sort (exact container orders), diff (change-kind multisets on single-edit mutants), build and extend vs the implementation; direct: extend_schema vs build_schema on shuffled extension documents, original unchanged, identity object on executable-only documents, sort/diff laws, reported change implies printed forms differ",
    note="C19_extend_hom_partial: directive extensions and directive-only type extensions (@specifiedBy/@oneOf) not modelled; new types named Query/Mutation/Subscription excluded (build_schema adopts them as roots by convention, extend_schema does not - same as graphql-js); change places are tied by the theorem on the model, kinds by the mutants",
    technique="Coq proof (sort/diff/extend/build models) + extraction-based correspondence + direct algebraic laws",
    design="4/C19")

NOT_YET = {}


MODELS = {"C01": ["lang", "parser"], "C03": ["errorsalg"], "C04": ["incr", "defer"], "C07": ["subscribe", "exec"], "C08": ["lang", "blockstring", "parser"],
          "C09": ["lang", "parser", "strip"], "C10": ["lang"], "C11": ["lang", "visitm"], "C12": ["compose", "rules"], "C14": ["overlap"], "C15": ["coerce"],
          "C16": ["scalars"], "C20": ["schemaval"], "C02": ["exec"], "C13": ["exec"], "C05": ["workqueue"],
          "C06": ["lifecycle"], "C17": ["schemaops"], "C18": ["schemaops"], "C19": ["schemaops"]}


# further theorem-only files Properties/<name>.v accounted for by a check (Check.proofs(extra_files=...))
EXTRA_PROPS = {"C04": ["C04defer"], "C09": ["C09strip"], "C11": ["C11mach"], "C12": ["C12rules"]}


def main():
    props = [json.loads(l)["id"] for l in open(V / "properties.jsonl")]
    checks = []
    for pid in props:
        if pid not in CHECKS:
            continue
        c = CHECKS[pid]
        checks.append({
            "property_id": pid,
            "quick_cmd": f"./check {pid} --tier quick",
            "thorough_cmd": f"./check {pid} --tier thorough",
            "evidence_file": f"evidence/{pid}.json",
            "replay_cmd_template": f"./check {pid} --replay {{path}}",
            "engine": "coq-model",
            "level_claimed": {"category": c.get("category", "proof"), "text": c["text"],
                              "design_ref": "DESIGN.md section " + c["design"]},
            "level_note": c["note"],
            "technique": c["technique"],
        })
    na = [{"property_id": p, "reason": NOT_YET.get(p, "check not built yet in this development (work in progress; see DESIGN.md section 8)")}
          for p in props if p not in CHECKS]
    man = {
        "version": 1,
        "setup_cmd": "./setup.sh",
        "hooks": {"guard": "GRAPHQL_CORE_VERIF", "enable": "no hooks: checks import /repo/src directly (PYTHONPATH=/repo/src)",
                  "baseline_off_cmd": "cd /repo && /venv/bin/python -m pytest -ra -q -p no:cacheprovider --timeout=900 --continue-on-collection-errors",
                  "source_commits": [], "add_only": True},
        "engines": [{"name": "coq-model", "path": "coq/", "serves_properties": [c["property_id"] for c in checks],
                     "kind_free_text": "Coq 8.16 models + theorems; extracted to OCaml and run against /repo by harness/*.py"}],
        "checks": checks,
        "not_applicable": na,
        "notes": "Fix commits in /repo are listed in known_findings.json.",
    }
    (V / "MANIFEST.json").write_text(json.dumps(man, indent=1))
    reg = {c["property_id"]: MODELS.get(c["property_id"], []) for c in checks}
    (V / "harness" / "registry.json").write_text(json.dumps(reg, indent=1))
    (V / "harness" / "registry_extra.json").write_text(json.dumps(EXTRA_PROPS, indent=1))


if __name__ == "__main__":
    main()
