"""C11 - AST traversal: order, context, edits, parallel visitors, totality."""
from __future__ import annotations

import json

from . import common, gen_doc
from .astutil import norm, parse_opts
from .common import Check, Model

ASSUMPTIONS = [
    "C11 model: Lang/Visit.v, a recursive (specification-shaped) traversal with scripted visitors and the ParallelVisitor skipping table; the explicit-stack loop of visit() is modelled step by step in Lang/VisitMachine.v and proved to refine it for every visitor incl. all edits (Properties/C11mach.v); the extracted machine is run against the real visit() on every case",
    "visitor method dispatch by name (enter_field vs enter) is Python reflection and only explored",
    "nodes are identified by (kind, loc.start, loc.end); replacement subtrees carry synthetic locations",
    "result value after BREAK that follows an edit is unspecified (graphql-js returns the last edit of the current level); only the call log is compared for such runs",
    "parallel runs use non-editing visitors (the property's scope); ParallelVisitor with editing visitors is not compared",
]

FUEL = 400


class Tag:
    """Synthetic location of a replacement node."""
    def __init__(self, n):
        self.start = self.end = 10 ** 6 + n

    def __eq__(self, o):
        return isinstance(o, Tag) and o.start == self.start

    def __hash__(self):
        return hash(self.start)


def kinds_table():
    from graphql.language.ast import QUERY_DOCUMENT_KEYS, Node
    kinds = set(QUERY_DOCUMENT_KEYS)
    todo = [Node]
    while todo:
        c = todo.pop()
        kinds.add(c.kind)
        todo += c.__subclasses__()
    ks = sorted(kinds)
    return {k: i + 1 for i, k in enumerate(ks)}, QUERY_DOCUMENT_KEYS


class Ids:
    def __init__(self):
        self.map = {}
        self.next = 1

    def of(self, node):
        k = (node.kind, node.loc.start, node.loc.end)
        if k not in self.map:
            self.map[k] = self.next
            self.next += 1
        return self.map[k]


def to_tree(node, ids, kc, keys):
    """impl AST -> wire tree [kind id nslots slots...] (pre-order ids)."""
    from graphql.language import Node
    out = [kc[node.kind], ids.of(node)]
    ks = keys.get(node.kind, ())
    out.append(len(ks))
    for k in ks:
        v = getattr(node, k, None)
        if v is None:
            out.append(0)
        elif isinstance(v, Node):
            out.append(1)
            out += to_tree(v, ids, kc, keys)
        elif isinstance(v, (tuple, list)):
            out += [2, len(v)]
            for c in v:
                out += to_tree(c, ids, kc, keys)
        else:
            out.append(7)  # a non-node value in a child slot (e.g. a stored REMOVE sentinel): never equals the model
    return out


def all_nodes(node, keys, acc):
    from graphql.language import Node
    acc.append(node)
    for k in keys.get(node.kind, ()):
        v = getattr(node, k, None)
        if isinstance(v, Node):
            all_nodes(v, keys, acc)
        elif isinstance(v, (tuple, list)):
            for c in v:
                all_nodes(c, keys, acc)
    return acc


def retag(node, keys, counter):
    """Copy of a parsed subtree with synthetic unique locations."""
    from dataclasses import fields
    from graphql.language import Node
    vals = {}
    for f in fields(node):
        v = getattr(node, f.name)
        if f.name == "loc":
            continue
        if isinstance(v, Node):
            v = retag(v, keys, counter)
        elif isinstance(v, tuple):
            v = tuple(retag(c, keys, counter) if isinstance(c, Node) else c for c in v)
        vals[f.name] = v
    counter[0] += 1
    return node.__class__(loc=Tag(counter[0]), **vals)


def make_script(rng, nodes, ids, repl_pool, editing=True, density=0.25):
    """Random decision table: list of (id, phase, action, replacement node or None)."""
    sc = []
    acts = [1, 1, 2, 3, 4, 3, 4] if editing else [1, 1, 1, 2]
    k = max(1, int(len(nodes) * density * rng.random()))
    for _ in range(k):
        n = rng.choice(nodes)
        ph = rng.randint(0, 1)
        a = rng.choice(acts)
        sc.append((ids.of(n), ph, a, rng.choice(repl_pool) if a == 4 else None))
    # keep the first decision per (id, phase) (lookup_script takes the first match)
    seen, out = set(), []
    for e in sc:
        if (e[0], e[1]) not in seen:
            seen.add((e[0], e[1]))
            out.append(e)
    return out


def enc_script(sc, ids, kc, keys):
    out = [len(sc)]
    for (i, ph, a, rep) in sc:
        out += [i, ph, a]
        if a == 4:
            out += to_tree(rep, ids, kc, keys)
    return out


def run_impl(root, sc, ids, keys, check_context=True):
    """Run the real visit() with a scripted visitor. Returns (result, log, problems)."""
    from graphql.language import BREAK, REMOVE, SKIP, Node, Visitor, visit
    table = {(i, ph): (a, rep) for (i, ph, a, rep) in reversed(sc)}
    log, problems = [], []
    replaced = [False]

    def conv_path(path, ancestors, parent):
        conts = list(ancestors) + [parent]
        out = []
        for p, c in zip(path, conts):
            if isinstance(p, str):
                try:
                    out += [1, keys[c.kind].index(p)]
                except Exception:  # noqa: BLE001
                    out += [1, 9999]
            else:
                out += [2, p]
        return out

    def handler(ph):
        def fn(self, node, key, parent, path, ancestors):
            i = ids.of(node)
            a, rep = table.get((i, ph), (0, None))
            if parent is None:
                k = [0, 0]
            elif isinstance(key, str):
                try:
                    k = [1, keys[parent.kind].index(key)]
                except Exception:  # noqa: BLE001
                    k = [1, 9999]
            else:
                k = [2, key]
            log.append([ph, i, kc_global[node.kind]] + k + [len(path)] + conv_path(path, ancestors, parent)
                       + [len(ancestors), a])
            if check_context and parent is not None and not replaced[0]:
                try:
                    conts = list(ancestors) + [parent]
                    if len(conts) != len(path):
                        problems.append(f"len(path) != len(ancestors)+1 at node {i}")
                    for j in range(len(conts) - 1):
                        c, p = conts[j], path[j]
                        nxt = getattr(c, p) if isinstance(p, str) else c[p]
                        if nxt is not conts[j + 1] and ph == 0:
                            problems.append(f"ancestors/path inconsistent at node {i}")
                            break
                    cur = getattr(parent, key) if isinstance(key, str) else parent[key]
                    if ph == 0 and cur is not node:
                        problems.append(f"parent[key] is not the node at {i}")
                    if path[-1] != key:
                        problems.append(f"key is not the last path element at {i}")
                except Exception as e:  # noqa: BLE001
                    problems.append(f"context check raised {type(e).__name__} at node {i}")
            if a == 4 and ph == 0:
                replaced[0] = True
            return [None, SKIP, BREAK, REMOVE, rep][a]
        return fn

    V = type("ScriptedVisitor", (Visitor,), {"enter": handler(0), "leave": handler(1)})
    try:
        res = visit(root, V())
    except Exception as e:  # noqa: BLE001
        return ("raised", type(e).__name__ + ": " + str(e)[:100]), log, problems
    return ("ok", res), log, problems


kc_global = {}


def decode_model(out):
    """Model answer -> (res, log, subs)."""
    i = 0
    if out[0] == 2 and out[1] == 1:
        # skip the tree: parse it
        j = tree_end(out, 2)
        res = ("edit", out[2:j])
        i = j
    elif out[0] == 2:
        res, i = ("removed", None), 2
    else:
        res, i = ({0: "break", 1: "keep", 3: "fuel"}.get(out[0], "err"), None), 1
    n = out[i]
    i += 1
    log = []
    for _ in range(n):
        ph, idn, kind, kt, kv, pl = out[i:i + 6]
        i += 6
        path = out[i:i + 2 * pl]
        i += 2 * pl
        nanc, act = out[i:i + 2]
        i += 2
        log.append([ph, idn, kind, kt, kv, pl] + path + [nanc, act])
    subs = None
    if i < len(out):
        m = out[i]
        i += 1
        subs = [out[i + 3 * j:i + 3 * j + 3] for j in range(m)]
    return res, log, subs


def tree_end(l, i):
    n = l[i + 2]
    i += 3
    for _ in range(n):
        t = l[i]
        i += 1
        if t == 1:
            i = tree_end(l, i)
        elif t == 2:
            m = l[i]
            i += 1
            for _ in range(m):
                i = tree_end(l, i)
    return i


def run(tier):
    from graphql.language import REMOVE, ParallelVisitor, Visitor, parse, parse_type, parse_value, visit, SKIP, BREAK
    global kc_global
    ck = Check("C11", tier)
    ck.assumptions += ASSUMPTIONS
    br = common.build("C11", models=("lang", "visitm"), extra_targets=("theories/Properties/C11mach.vo",))
    ck.proofs(br, extra_files=("C11mach",))
    if not br.ok:
        return ck.finish()
    m = Model()
    quick = tier == "quick"
    rng = ck.rng
    kc, keys = kinds_table()
    kc_global = kc
    ck.rule = ("generated ASTs over the full grammar (all node kinds incl. SDL, extensions, experimental syntaxes; also value and "
               "type roots) x scripted visitors (random decisions idle/skip/break/remove/replace on enter/leave, root included) "
               "x groupings of 2-4 non-editing visitors run in parallel: real visit()/ParallelVisitor vs extracted recursive "
               "model: call log (phase, node, key, path, #ancestors), result tree, identity when unedited, input snapshot; "
               "context (parent/ancestors/path) checked at every call. non-trivial = a script that hits at least one non-idle "
               "decision during the traversal")
    # replacement pool
    counter = [0]
    snippets = [parse("{ r1 r2 { r3 } }").definitions[0].selection_set.selections[1],
                parse("{ q(a: [1, {b: $c}]) }").definitions[0].selection_set.selections[0],
                parse_value("[1, {k: ENUM}]"), parse_type("[T!]"),
                parse("type R { f(a: Int = 1): [S] @d }").definitions[0]]
    repl_pool = [retag(s, keys, counter) for s in snippets]
    roots = []
    ndocs = 150 if quick else 2500
    for i in range(ndocs):
        exp = i % 3 == 0
        g = gen_doc.Gen(rng, depth=2, experimental=exp)
        try:
            roots.append(parse(gen_doc.join_min(g.document()), **parse_opts(exp)))
        except Exception:  # noqa: BLE001
            continue
    for f in gen_doc.fixtures():
        roots.append(parse(f))
    roots += [parse_value('[1, {a: "x", b: [$v, null]}]'), parse_type("[[T!]!]"), parse("{ a }")]
    seen_kinds = set()
    cases, meta = [], []
    for root in roots:
        ids = Ids()
        tree = to_tree(root, ids, kc, keys)
        nodes = all_nodes(root, keys, [])
        seen_kinds |= {n.kind for n in nodes}
        # document order: children start offsets never decrease along the traversal
        starts = [n.loc.start for n in nodes]
        bad = next((i for i, (a, b) in enumerate(zip(starts, starts[1:])) if b < a), None)
        ck.evaluations += 1
        if bad is not None:
            from graphql.language import print_ast as _pa
            ck.violation(f"doc-order:{nodes[bad + 1].kind}",
                         f"traversal order is not document order: {nodes[bad + 1].kind} at offset {starts[bad + 1]} is "
                         f"entered after {nodes[bad].kind} at offset {starts[bad]}",
                         {"relation": "depth-first document order", "document": _pa(root)[:300],
                          "impl": [nodes[bad].kind, starts[bad], nodes[bad + 1].kind, starts[bad + 1]]})
        nscripts = 4 if len(nodes) < 400 else 2
        for j in range(nscripts):
            if j == 0:
                sc = []
            elif j == 1:
                sc = [(ids.of(root), rng.randint(0, 1), rng.choice([1, 2, 3, 4]), rng.choice(repl_pool))]
                if sc[0][2] != 4:
                    sc = [sc[0][:3] + (None,)]
            else:
                sc = make_script(rng, nodes, ids, repl_pool, editing=True)
            cases.append([20, FUEL] + tree + enc_script(sc, ids, kc, keys))
            meta.append(("solo", root, ids, sc))
        # parallel groups of non-editing visitors
        for j in range(2):
            scs = [make_script(rng, nodes, ids, repl_pool, editing=False) for _ in range(rng.randint(2, 4))]
            enc = [len(scs)]
            for sc in scs:
                enc += enc_script(sc, ids, kc, keys)
            cases.append([21, FUEL] + tree + enc)
            meta.append(("par", root, ids, scs))
    outs = m.run_batch(cases)
    # the extracted explicit-stack MACHINE (proved to refine the recursive model) vs the real visit()
    from . import cvisitm
    cvisitm.core(ck, tier, True, cases=cases, meta=meta)
    from graphql.language import print_ast
    for (mode, root, ids, sc), out in zip(meta, outs):
        before = norm(root)
        src = None
        try:
            src = print_ast(root)[:300]
        except Exception:  # noqa: BLE001
            src = repr(root)
        mres, mlog, msubs = decode_model(out)
        if mode == "solo":
            (st, res), log, problems = run_impl(root, sc, ids, keys)
            hit = any(e[-1] != 0 for e in mlog)
            ck.note_case(("solo", src, repr([(a, b, c) for a, b, c, _ in sc])), nontrivial=hit)
            key = f"visit:{src!r}:{[(a, b, c) for a, b, c, _ in sc]!r}"
            rep = {"relation": "visit = recursive model", "document": src,
                   "script": [(a, b, c) for a, b, c, _ in sc]}
            if st == "raised":
                ck.violation(key, f"visit() raised {res} for script {rep['script']} on {src!r}",
                             dict(rep, impl=res, model=mres[0]))
                continue
            if log != mlog:
                d = next((i for i, (a, b) in enumerate(zip(log, mlog)) if a != b), min(len(log), len(mlog)))
                ck.violation(key, f"call sequence differs from the model at call {d} on {src!r} script {rep['script']}",
                             dict(rep, impl_call=log[d] if d < len(log) else None,
                                  model_call=mlog[d] if d < len(mlog) else None, n_impl=len(log), n_model=len(mlog)))
                continue
            if problems:
                ck.violation(key, f"context wrong: {problems[0]} on {src!r}", dict(rep, impl=problems[:3]))
            edited_before_break = mres[0] == "break" and any(e[-1] in (3, 4) for e in mlog)
            if mres[0] == "keep" or (mres[0] == "break" and not edited_before_break):
                if res is not root:
                    ck.violation(key, f"nothing was edited but visit() did not return the identical tree on {src!r} script {rep['script']}",
                                 dict(rep, model=mres[0]))
            elif mres[0] == "removed":
                if not (res is REMOVE or res is None or res is Ellipsis):
                    ck.violation(key, f"root removed but visit() returned {type(res).__name__}", dict(rep))
            elif mres[0] == "edit":
                try:
                    got = to_tree(res, ids, kc, keys)
                except Exception as e:  # noqa: BLE001
                    got = ["unencodable", type(e).__name__]
                if got != mres[1]:
                    ck.violation(key, f"edited tree differs from the model on {src!r} script {rep['script']}",
                                 dict(rep, impl_tree=got[:60], model_tree=mres[1][:60]))
                else:
                    # the result must be a well-formed AST again: printable unless types were mixed by replacement
                    pass
            if norm(root) != before:
                ck.violation(key, f"visit() modified its input tree on {src!r}", dict(rep))
        else:
            scs = sc
            logs = [[] for _ in scs]

            def mk(i, table):
                def h(ph):
                    def fn(self, node, *a):
                        nid = ids.of(node)
                        logs[i].append([i, ph, nid])
                        return [None, SKIP, BREAK][table.get((nid, ph), 0)]
                    return fn
                return type("V", (Visitor,), {"enter": h(0), "leave": h(1)})()
            tables = [{(i, ph): a for (i, ph, a, _) in reversed(s)} for s in scs]
            vs = [mk(i, t) for i, t in enumerate(tables)]
            key = f"parallel:{src!r}:{[[(a, b, c) for a, b, c, _ in s] for s in scs]!r}"
            rep = {"relation": "parallel visitors see their solo call sequence", "document": src,
                   "scripts": [[(a, b, c) for a, b, c, _ in s] for s in scs]}
            hit = any(any((e[1], e[0]) in [(x[0], x[1]) for x in []] for e in []) for _ in [0]) or any(tables)
            ck.note_case(("par", src, repr(rep["scripts"])), nontrivial=bool(hit))
            try:
                res = visit(root, ParallelVisitor(vs))
            except Exception as e:  # noqa: BLE001
                ck.violation(key, f"visit(ParallelVisitor) raised {type(e).__name__} on {src!r}", dict(rep))
                continue
            if res is not root:
                ck.violation(key, "non-editing parallel visitors did not get the identical tree back", dict(rep))
            # each visitor alone on the implementation
            for i, t in enumerate(tables):
                par_log = [e[1:] for e in logs[i]]
                logs_solo = [[]]
                save = logs
                logs = [[] for _ in scs]
                try:
                    visit(root, mk(i, t))
                    solo = [e[1:] for e in logs[i]]
                except Exception as e:  # noqa: BLE001
                    solo = ["raised", type(e).__name__]
                logs = save
                if par_log != solo:
                    ck.violation(key, f"visitor {i} saw a different call sequence in parallel than alone on {src!r}",
                                 dict(rep, visitor=i, n_parallel=len(par_log), n_solo=len(solo)))
                    break
            flat_model = {i: [e[1:] for e in msubs if e[0] == i] for i in range(len(scs))}
            for i in range(len(scs)):
                if [e[1:] for e in logs[i]] != flat_model[i]:
                    ck.violation(key, f"visitor {i}: parallel call sequence differs from the model on {src!r}",
                                 dict(rep, visitor=i))
                    break
    ck.count("roots", len(roots))
    ck.count("node_kinds_seen", len(seen_kinds))
    ck.extra["node_kinds_missing"] = sorted(set(keys) - seen_kinds)
    ck.samples.append({"document": print_ast(roots[0])[:200], "script": "[(node id, phase, action)]"})
    return ck.finish()


def replay(path):
    d = json.loads(open(path).read())
    print(json.dumps(d, indent=1)[:3000])
    return 0
