"""F10: a subscription WITHOUT an abort signal does not close the source ITERATOR when the source is an async
iterable whose __aiter__() returns a separate iterator object: map_async_iterable / aclosing close the iterable
(which has no aclose), the started iterator obtained by `async for` is abandoned.  (With an abort signal the
cancellable wrapper closes the right object.)"""
import asyncio, sys
if len(sys.argv) > 1: sys.path.insert(0, sys.argv[1])
from graphql import build_schema, parse, subscribe
from graphql.pyutils import AbortController
schema = build_schema("type Query { a: Int } type Subscription { ev: Int }")
async def main(with_signal):
    log = []
    class Iterator:
        def __init__(self): self.i = 0
        def __aiter__(self): return self
        async def __anext__(self):
            if not self.i: log.append("iterator started")
            self.i += 1; await asyncio.sleep(0); return {"ev": self.i}
        async def aclose(self): log.append("iterator closed")
    class Iterable:
        def __aiter__(self): return Iterator()
    kw = {"abort_signal": AbortController().signal} if with_signal else {}
    sub = subscribe(schema, parse("subscription { ev }"), {"ev": lambda _i: Iterable()}, **kw)
    if hasattr(sub, "__await__"): sub = await sub
    await anext(sub)
    await sub.aclose()
    for _ in range(20): await asyncio.sleep(0)
    ok = log == ["iterator started", "iterator closed"]
    print(f"abort signal passed={with_signal}: {log} ->", "OK" if ok else "VIOLATION: started source iterator never closed")
    return ok
r = [asyncio.run(main(s)) for s in (False, True)]
raise SystemExit(0 if all(r) else 1)
